#!/bin/bash
# tools/mutcheck.sh <worktree> <patch.diff> <prop> [prop...]  -- run checks against a mutated scratch worktree (does not touch /repo)
set -u
WT="$1"; PATCH="$2"; shift 2
export GOFLAGS=-mod=mod GOPROXY=off GOSUMDB=off GOTOOLCHAIN=local
TAG=$(basename "$WT")
HX=/tmp/hx-$TAG; VD=/tmp/vd-$TAG
( cd "$WT" && git checkout -q -- . && git apply "$PATCH" ) || { echo "patch does not apply"; exit 3; }
rm -rf "$HX" "$VD"; mkdir -p "$VD/bin"; cp -r /verif/harness "$HX"; cp /verif/known_findings.json "$VD/"
sed -i "s#=> /repo#=> $WT#" "$HX/go.mod"
( cd "$HX" && go build -tags verif -o "$VD/bin/vchk" ./cmd/vchk ) || { echo "build failed"; ( cd "$WT" && git checkout -q -- . ); exit 3; }
case " $* " in *" C25 "*) ( cd "$HX" && go build -race -tags verif -o "$VD/bin/vchk.race" ./cmd/vchk ) || echo "race build failed";; esac
for P in "$@"; do
  for S in ${MUT_SEEDS:-1}; do
    VERIF_DIR="$VD" VERIF_SEED=$S VERIF_TIER=${MUT_TIER:-quick} timeout 1500 "$VD/bin/vchk" run "$P" > "$VD/out-$P-$S.txt" 2>&1
    echo "== $P seed $S exit $? : $(grep -c '^VIOLATION' "$VD/out-$P-$S.txt") violation lines; $(grep '^  signature' "$VD/out-$P-$S.txt" | head -3 | cut -c1-260)"
  done
done
( cd "$WT" && git checkout -q -- . )
rm -rf "$HX"

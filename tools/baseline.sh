#!/bin/bash
# tools/baseline.sh [dir] [pkgs...] -- run the repository's own suite (hooks off) and compare with /root/.vp/BASELINE.json stable_pass
export GOFLAGS=-mod=mod GOPROXY=off GOSUMDB=off GOTOOLCHAIN=local
DIR=${1:-/repo}; shift
PK=${*:-./...}
OUT=$(mktemp /tmp/baseline.XXXXXX.json)
( cd "$DIR" && go test -json -vet=off -count=1 -timeout 25m $PK > "$OUT" 2>/dev/null )
python3 - "$OUT" "$PK" <<'PY'
import json,sys
b=json.load(open('/root/.vp/BASELINE.json'))
stable=set(b['stable_pass'])
res={}
pk=set()
for l in open(sys.argv[1]):
    try: e=json.loads(l)
    except: continue
    if e.get('Test') and e.get('Action') in('pass','fail','skip'):
        res[e['Package']+'::'+e['Test']]=e['Action']
        pk.add(e['Package'])
    elif e.get('Package'): pk.add(e['Package'])
# stable ids format?
sample=next(iter(stable))
def key(k):
    return k
ran=set(res)
fmt_ok=any(s in ran for s in stable)
if not fmt_ok:
    print('id format differs, sample baseline id:',sample, 'sample run id:', next(iter(ran)))
want=[s for s in stable if s.split('::')[0] in pk]
bad=[s for s in want if res.get(s)!='pass']
print('stable tests in scope: %d, passing now: %d, not passing: %d'%(len(want),len(want)-len(bad),len(bad)))
for s in bad[:30]: print('  NOT PASS',s,res.get(s))
PY
rm -f "$OUT"

#!/bin/bash
# tools/reval_seeds.sh [workers] [seed-id ...] -- re-validate seeded changes against /repo HEAD on fresh scratch worktrees:
# patch applies, builds, demonstration passes without / fails with the patch, registered check of the property catches it
# (seeds 1 and 2). Writes /verif/seeded/<id>/reval.json; removes the worktrees afterwards.
set -u
cd "$(dirname "$0")/.."
W=${1:-3}; shift || true
IDS=${*:-$(ls seeded)}
HEAD=$(git -C /repo rev-parse --short HEAD)
one() { # worker-index, ids...
  K=$1; shift
  WT=/tmp/rv-$K
  git -C /repo worktree remove --force $WT >/dev/null 2>&1; rm -rf $WT
  git -C /repo worktree add --detach $WT HEAD >/dev/null 2>&1 || { echo "worktree failed"; return; }
  for ID in "$@"; do
    D=/verif/seeded/$ID; P=${ID%%-*}
    case $ID in C13-m3) P=C22;; esac   # breaks C13 through the coin registry: the check that sees it is C22's
    ( cd $WT && git checkout -q -- . && git clean -fdq -e OUT )
    if ! ( cd $WT && git apply --check $D/patch.diff ) 2>/tmp/rv-$ID-apply.txt; then
      echo "{\"head\": \"$HEAD\", \"applies\": false}" > $D/reval.json; echo "$ID: patch does not apply at $HEAD"; continue
    fi
    [ -f $D/reval.json ] && [ -z "${REVAL_ALL:-}" ] && grep -q "\"head\": \"$HEAD\"" $D/reval.json && { echo "$ID: already re-validated at $HEAD"; continue; }
    CONF=$(CONFIRM_LITE=1 ./tools/confirm_seed.sh $WT $D $ID 2>&1 | grep "^seed")
    OUT=$(MUT_SEEDS="1" ./tools/mutcheck.sh $WT $D/patch.diff $P 2>&1)
    echo "$OUT" | grep -q " : 0 violation lines" && OUT=$(MUT_SEEDS="1 2" ./tools/mutcheck.sh $WT $D/patch.diff $P 2>&1)
    python3 - "$ID" "$HEAD" "$CONF" "/tmp/vd-rv-$K" "$P" <<'PY'
import sys,json,re,os
sid,head,conf,vd,prop=sys.argv[1:6]
r={'head':head,'applies':True,'confirm_line':conf,'runs':{}}
for s in ('1','2'):
    f='%s/out-%s-%s.txt'%(vd,prop,s)
    if not os.path.exists(f): continue
    t=open(f,errors='replace').read()
    sigs=sorted(set(re.findall(r'^  signature=(\S+)',t,re.M)))
    r['runs'][s]={'violation_lines':len(re.findall(r'^VIOLATION',t,re.M)),'signatures':sigs[:12],'summary':(t.strip().splitlines() or [''])[-1][:200]}
r['caught']=any(v['violation_lines']>0 for v in r['runs'].values())
json.dump(r,open('/verif/seeded/%s/reval.json'%sid,'w'),indent=1)
print('%s: %s | caught=%s %s'%(sid,conf[len('seed '+sid)+2:len('seed '+sid)+60],r['caught'],{k:v['violation_lines'] for k,v in r['runs'].items()}))
PY
  done
  ( cd $WT && git checkout -q -- . )
  git -C /repo worktree remove --force $WT >/dev/null 2>&1; rm -rf $WT /tmp/vd-rv-$K /tmp/hx-rv-$K
}
i=0; declare -a L
for ID in $IDS; do k=$(( i % W )); L[$k]="${L[$k]:-} $ID"; i=$((i+1)); done
for k in $(seq 0 $((W-1))); do one $k ${L[$k]:-} & done
wait

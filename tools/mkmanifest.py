#!/usr/bin/env python3
"""Generates /verif/MANIFEST.json from the table below (kept here so the manifest is always schema-valid)."""
import json, subprocess, os
V = os.path.dirname(os.path.dirname(os.path.abspath(__file__)))
props = [json.loads(l) for l in open(os.path.join(V, 'properties.jsonl'))]
ids = [p['id'] for p in props]

# id -> (level, technique, text, note, design_ref)
claimed = {
 'C01': ('exploration', 'runtime monitor: reference wealth ledger recomputed from every committed export (live and from disk) + emission counter, over generated hostile histories',
         'Every committed height of generated histories is re-summed by an independent ledger: custom coin volume = holdings, base-coin total delta = emission delta. Held on the executions produced; exploration is the honest level for an all-histories property.',
         'driver replaces Tendermint; Export() faithful (cross-checked live vs disk); genesis families and tx generator described in DESIGN.md section 3', '5/C01'),
 'C02': ('exploration', 'runtime monitor: sign/bound predicate over every committed export plus direct balance reads of all accounts x coins',
         'Every committed height is checked for negative amounts, volume > max supply and non-positive pool reserves under boundary-heavy workloads.',
         'same driver as C01; balances hidden by the export are read through GetBalance', '5/C02'),
 'C07': ('exploration', 'recover()-guarded ABCI calls in supervised child processes under hostile histories and byte-level mutated inputs',
         'Any recovered panic or worker death during CheckTx/DeliverTx/BeginBlock/EndBlock/Commit is a violation with the recorded history as witness.',
         'os.Exit on accepted halt excluded; fatal runtime errors are caught by child supervision', '5/C07'),
}
na = {}
checks = []
for i in ids:
    if i in claimed:
        lvl, tech, text, note, ref = claimed[i]
        checks.append({
            'property_id': i,
            'quick_cmd': './check %s quick' % i,
            'thorough_cmd': './check %s thorough' % i,
            'evidence_file': '/verif/evidence/%s.json' % i,
            'replay_cmd_template': './bin/vchk replay {path}',
            'engine': 'vchk',
            'level_claimed': {'category': lvl, 'text': text, 'design_ref': 'DESIGN.md section ' + ref},
            'level_note': note,
            'technique': tech,
        })
    else:
        na[i] = 'check not built yet in this session (work in progress; see DESIGN.md section 5 for the planned monitor)'
hooks_commits = subprocess.run(['git', '-C', '/repo', 'log', '--format=%h %s', '--grep', 'verif hooks'], capture_output=True, text=True).stdout.strip().split('\n')
m = {
 'version': 1,
 'setup_cmd': './tools/build.sh all',
 'hooks': {
   'guard': 'verif (Go build tag)',
   'enable': 'go build -tags verif (the harness module replaces github.com/MinterTeam/minter-go-node with /repo)',
   'baseline_off_cmd': 'cd /repo && GOFLAGS=-mod=mod GOPROXY=off GOSUMDB=off go test -json -vet=off -count=1 -timeout 25m ./...',
   'source_commits': [c.split()[0] for c in hooks_commits if c],
   'add_only': True,
 },
 'engines': [
   {'name': 'vchk', 'path': 'harness/', 'serves_properties': sorted(claimed.keys()), 'kind_free_text': 'Go harness driving the real minter.Blockchain ABCI application with monitors (reference ledgers, differential instances, fault-injecting DB wrapper, race detector)'},
 ],
 'checks': checks,
 'not_applicable': [{'property_id': k, 'reason': v} for k, v in na.items()],
 'notes': 'Every check rebuilds the harness against /repo working tree with -tags verif. VERIF_SEED / VERIF_TIER are honoured. Known findings: known_findings.json.',
}
json.dump(m, open(os.path.join(V, 'MANIFEST.json'), 'w'), indent=1)
print('claimed', len(checks), 'not_applicable', len(na))

#!/usr/bin/env python3
"""Generates /verif/MANIFEST.json from the table below (kept here so the manifest is always schema-valid)."""
import json, subprocess, os
V = os.path.dirname(os.path.dirname(os.path.abspath(__file__)))
props = [json.loads(l) for l in open(os.path.join(V, 'properties.jsonl'))]
ids = [p['id'] for p in props]

# id -> (level, technique, text, note, design_ref)
claimed = {
 'C01': ('exploration', 'runtime monitor: reference wealth ledger recomputed from every committed export (live and from disk) + emission counter, over generated hostile histories',
         'Every committed height of generated histories is re-summed by an independent ledger: custom coin volume = holdings, base-coin total delta = emission delta. Held on the executions produced; exploration is the honest level for an all-histories property.',
         'driver replaces Tendermint; Export() faithful (cross-checked live vs disk); genesis families and tx generator described in DESIGN.md section 3', '5/C01'),
 'C02': ('exploration', 'runtime monitor: sign/bound predicate over every committed export plus direct balance reads of all accounts x coins',
         'Every committed height is checked for negative amounts, volume > max supply and non-positive pool reserves under boundary-heavy workloads.',
         'same driver as C01; balances hidden by the export are read through GetBalance', '5/C02'),
 'C03': ('exploration', 'runtime monitor: accessor snapshot of the whole known universe (balances, nonces, waitlists, coins, pools, orders, candidates, stakes) diffed around every DeliverTx; allowed-difference oracle for failed txs',
         'Every failed DeliverTx in generated histories may only change the payer gas-coin balance by exactly tx.fail_fee and what converting the fee touches; every accepted tx raises the sender nonce by one.',
         'frozen funds/votes/checks are outside the accessor snapshot (covered by per-block export monitors)', '5/C03'),
 'C04': ('exploration', 'runtime monitor: per-sender sequential nonce specification fed by observed acceptances, with replayed/reordered/foreign-chain deliveries',
         'Every delivery of harness-made transactions is judged against last-accepted-nonce+1, own chain id and never-the-same-bytes-twice; GetNonce cross-checked.',
         'only non-mutated transactions (ground-truth metadata) are judged', '5/C04'),
 'C06': ('exploration', 'runtime monitor: real CheckTx immediately before every DeliverTx on the same instance + undisturbed shadow instance without probes',
         'Acceptance of CheckTx and DeliverTx is compared for every generated transaction; a second instance executing the same blocks without CheckTx calls must answer identically (side-effect freedom).',
         'stub mempool (size 0): gas floor 1; code 113 counts as accept', '5/C06'),
 'C08': ('exploration', 'differential execution of recorded histories in three OS processes with different GOMAXPROCS/GOGC; per-height response/app-hash digests compared',
         'The same recorded requests executed by separate processes must give identical codes, data, gas, tags, validator updates, max gas and app hashes at every height, and identical final exports.',
         'map-iteration randomisation per process gives each order-dependent write a chance to differ; unseen orders stay unseen', '5/C08'),
 'C09': ('exploration', 'differential execution: never-stopped memdb instance vs goleveldb instance restarted at scheduled block boundaries; responses, queries and exports compared',
         'At every restart point and at the end Info, emission, versions, validators, reward-price record, events and live/from-disk exports must equal the never-stopped instance, and all later responses and app hashes too.',
         'clean stops at block boundaries; initial height > 1', '5/C09'),
 'C26': ('exploration', 'runtime monitor: per distinct transaction bytes, payer balances read around every (re)delivery',
         'After a delivery of some bytes has been charged (accepted or failed inside Run), every later delivery of the same bytes must be rejected and cost nothing. Known finding: failed-in-Run transactions keep their nonce and are charged again.',
         'payer = sender or check issuer; deliveries rejected before execution at no cost do not count as the first delivery', '5/C26'),
 'C10': ('fault_enumeration', 'fault-injecting DB wrapper numbering every write of Commit across state/events/app stores; every prefix length crashed, restarted, Tendermint-style replay, differential comparison with the uncrashed instance',
         'For chosen blocks of generated histories every prefix of the Commit write sequence is turned into a process death; the restarted node must report a replayable height (with the right hash when it reports h), replay to the same app hash, and match the uncrashed node on 4 later blocks, Info/emission/versions/validators/price/events and the export. Known findings: crash positions after the app-DB height record.',
         'process-crash model (completed writes survive, batches atomic); handshake modelled after Tendermint 0.34', '5/C10'),
 'C11': ('exploration', 'differential execution: export -> Verify -> import as genesis of a second instance -> re-export diff -> both chains follow the same blocks',
         'Exports at payout and arbitrary heights must validate, re-import and re-export equal (derived bip values excluded), and after payout-height exports both chains must answer the next 20 blocks with the same codes and equal exports.',
         'new chain starts at h+1; max_gas excluded (no block-time history in a new chain by design)', '5/C11'),
 'C29': ('exploration', 'differential execution through the ABCI snapshot calls: two producers (one restarted) compared chunk by chunk; restored node compared on Info, queries, export and all following blocks',
         'Snapshots of two producers must be byte-equal; a node restored through OfferSnapshot/ApplySnapshotChunk must report the producer height/hash and then answer every later block identically, with equal queries and exports.',
         'snapshot completion awaited by hook + bounded polling; chunks transferred unmodified', '5/C29'),
 'C12': ('exploration', 'runtime monitor: the four bancor functions judged against an independent 1024-bit/exact-rational reference (HighPrec) on log-uniform, structured and corner tuples',
         'Closeness to the exact formulas within a calibrated, frozen floating-point tolerance, non-negativity, sale return <= reserve, monotonicity on amount chains (incl. neighbours), full-supply sale = reserve, and buy-then-sell round trips. Known finding: reserves above 2^100 pip.',
         'tolerance constants calibrated on the unchanged tree with a 2^10 margin; domain = what transactions can pass', '5/C12'),
 'C13': ('exploration', 'runtime monitor on the real swap package over a bare state: reserves observed around every create/mint/burn/trade (with and without order books), transaction-layer pre-checks applied first',
         'Reserve product never decreases in trades, payouts never exceed reserves, mint-then-burn and proportional-share bounds, locked minimum liquidity; panics after a passed pre-check are violations. Known findings stem from the order-list cache defects.',
         'package level: the same pre-checks as the transaction layer decide which calls are legal', '5/C13'),
 'C14': ('exploration', 'runtime monitor: independent reference order book fed only by API results, long add/fill/cancel/expire/commit/reload interleavings on books of up to 3000 orders',
         'Fill order (price then id), per-fill price within one unit, partial-fill ratio, little-remainder closure, exact refunds once, exported book = reference after commits and reloads. Known findings: the lazily paged sorted-id cache breaks priority, duplicates ids and can loop.',
         'priority demanded only where unambiguous (float64-equal prices, partially filled orders carry a price interval)', '5/C14'),
 'C23': ('exploration', 'runtime monitor: canonical round trip and independent strict RLP parser on ~3e5 structure-aware mutated encodings per run; signer binding and malleability oracles; cgo vs pure-Go vs asan re-judging of the crypto corpus (thorough)',
         'Every byte string that decodes must re-encode to itself and be canonical; signatures must bind the harness key; no same-hash-same-sender re-encodings. Known findings: multisig signature-set malleability; cgo/nocgo disagreement on malformed recovery input.',
         'multisig admission judged through the real executor on an in-memory state', '5/C23'),
 'C24': ('exploration', 'runtime monitor: round trip at the events store boundary (memdb and goleveldb, new store objects, reopen) with address/pubkey pools crossing the 255 and 65535 id boundaries',
         'Events of all 12 types must load back JSON-equal for every height after every kind of restart. Known finding: uint16 public-key ids wrap at 65535 distinct keys.',
         'expected JSON computed before the store sees the event', '5/C24'),
 'C20': ('exploration', 'small-scope enumeration at runtime: all subsets of n<=6 validators with stake vectors hitting exactly 2/3 and +-1 pip vote for their own target heights; exact-integer reference decision compared with the node effect',
         'For each voted height the reference decides 3*support > 2*present power in integers; the node must adopt/ignore the network update, commission table or halt accordingly; past-height and duplicate votes must be rejected.',
         'pure base-coin validator stakes, no payout inside a history; halt observed through the stopped flag (stub node)', '5/C20'),
 'C07': ('exploration', 'recover()-guarded ABCI calls in supervised child processes under hostile histories and byte-level mutated inputs',
         'Any recovered panic or worker death during CheckTx/DeliverTx/BeginBlock/EndBlock/Commit is a violation with the recorded history as witness.',
         'os.Exit on accepted halt excluded; fatal runtime errors are caught by child supervision', '5/C07'),
}
na = {}
checks = []
for i in ids:
    if i in claimed:
        lvl, tech, text, note, ref = claimed[i]
        checks.append({
            'property_id': i,
            'quick_cmd': './check %s quick' % i,
            'thorough_cmd': './check %s thorough' % i,
            'evidence_file': '/verif/evidence/%s.json' % i,
            'replay_cmd_template': './bin/vchk replay {path}',
            'engine': 'vchk',
            'level_claimed': {'category': lvl, 'text': text, 'design_ref': 'DESIGN.md section ' + ref},
            'level_note': note,
            'technique': tech,
        })
    else:
        na[i] = 'check not built yet in this session (work in progress; see DESIGN.md section 5 for the planned monitor)'
hooks_commits = subprocess.run(['git', '-C', '/repo', 'log', '--format=%h %s', '--grep', 'verif hooks'], capture_output=True, text=True).stdout.strip().split('\n')
m = {
 'version': 1,
 'setup_cmd': './tools/build.sh all',
 'hooks': {
   'guard': 'verif (Go build tag)',
   'enable': 'go build -tags verif (the harness module replaces github.com/MinterTeam/minter-go-node with /repo)',
   'baseline_off_cmd': 'cd /repo && GOFLAGS=-mod=mod GOPROXY=off GOSUMDB=off go test -json -vet=off -count=1 -timeout 25m ./...',
   'source_commits': [c.split()[0] for c in hooks_commits if c],
   'add_only': True,
 },
 'engines': [
   {'name': 'vchk', 'path': 'harness/', 'serves_properties': sorted(claimed.keys()), 'kind_free_text': 'Go harness driving the real minter.Blockchain ABCI application with monitors (reference ledgers, differential instances, fault-injecting DB wrapper, race detector)'},
 ],
 'checks': checks,
 'not_applicable': [{'property_id': k, 'reason': v} for k, v in na.items()],
 'notes': 'Every check rebuilds the harness against /repo working tree with -tags verif. VERIF_SEED / VERIF_TIER are honoured. Known findings: known_findings.json.',
}
json.dump(m, open(os.path.join(V, 'MANIFEST.json'), 'w'), indent=1)
print('claimed', len(checks), 'not_applicable', len(na))

#!/bin/bash
# tools/sweep.sh <seed> [tier]  -- run every registered check once, print one line per check
cd "$(dirname "$0")/.."
SEED="${1:-1}"; TIER="${2:-quick}"
./tools/build.sh all > /tmp/sweep-build.log 2>&1 || { echo "build failed"; exit 2; }
for P in $(python3 -c "import json;print(' '.join(c['property_id'] for c in json.load(open('MANIFEST.json'))['checks']))"); do
  S=$(date +%s)
  VERIF_SEED=$SEED VERIF_TIER=$TIER VERIF_DIR=$(pwd) timeout 7200 ./bin/vchk run $P > /tmp/sweep-$P-$SEED.log 2>&1
  RC=$?
  echo "$P seed=$SEED exit=$RC $(( $(date +%s) - S ))s $(grep -c '^VIOLATION' /tmp/sweep-$P-$SEED.log) violations, $(grep -c '^KNOWN-FINDING' /tmp/sweep-$P-$SEED.log) known | $(tail -1 /tmp/sweep-$P-$SEED.log | cut -c1-140)"
done

#!/bin/bash
# builds bin/vchk (and, for the properties that need them, the race / asan / nocgo variants) from /repo's current tree
set -u
cd "$(dirname "$0")/.."
export GOFLAGS=-mod=mod GOPROXY=off GOSUMDB=off GOTOOLCHAIN=local
mkdir -p bin
cp /repo/go.sum harness/go.sum 2>/dev/null
( cd harness && flock ../bin/.lock go build -tags verif -o ../bin/vchk ./cmd/vchk ) || exit 1
case "${1:-}" in
  C23|all)
    if [ "${VERIF_TIER:-quick}" = "thorough" ] || [ "${1:-}" = "all" ]; then
      ( cd harness && CGO_ENABLED=0 go build -tags verif -o ../bin/c23nocgo ./cmd/c23nocgo ) || echo "note: nocgo build unavailable"
    fi ;;
esac
case "${1:-}" in
  C25|all) ( cd harness && flock ../bin/.lock go build -race -tags verif -o ../bin/vchk.race ./cmd/vchk ) || exit 1 ;;
esac
exit 0

#!/bin/bash
# tools/confirm_seed.sh <worktree> <OUT/n dir> <seed-id>  -- confirm a seeded change (build, touched-package tests, demo with/without) and store it under /verif/seeded/<seed-id>
set -u
WT="$1"; OUT="$2"; ID="$3"
export GOFLAGS=-mod=mod GOPROXY=off GOSUMDB=off GOTOOLCHAIN=local
cd "$WT" || exit 3
git checkout -q -- . ; 
DEMO=$(ls "$OUT"/demo/*_test.go | head -1)
PKG=$(grep -m1 "^package " "$DEMO" | awk '{print $2}')
case "$PKG" in events_test) PDIR=coreV2/events;; minter) PDIR=coreV2/minter;; tests) PDIR=tests;; *) PDIR=$(grep -rl --include=*.go "^package $PKG\$" . | grep -v OUT | head -1 | xargs dirname);; esac
TESTFN=$(grep -ho "^func Test[A-Za-z0-9_]*" "$OUT"/demo/*_test.go | sed 's/func //' | paste -sd'|')
DEST=""
for f in "$OUT"/demo/*_test.go; do cp "$f" "$PDIR/"; DEST="$DEST $PDIR/$(basename $f)"; done
run_demo() { timeout 900 go test -tags verif -vet=off -count=1 -run "^(${TESTFN})\$" ./$PDIR/ > /tmp/demo-$ID-$1.txt 2>&1; echo $?; }
CLEAN=$(run_demo clean)
git apply "$OUT/patch.diff" || { echo "patch failed"; rm -f $DEST; exit 3; }
BUILD=0; go build ./... > /tmp/build-$ID.txt 2>&1 || BUILD=1
MUT=$(run_demo mut)
PKGS=$(git diff --name-only | grep '\.go$' | xargs -n1 dirname | sort -u | sed 's#^#./#')
if [ -n "${CONFIRM_LITE:-}" ]; then
  # re-validation at a later HEAD: the package tests were compared when the seed was first confirmed
  git checkout -q -- .; rm -f $DEST; SAME="not re-run (compared at first confirmation)"
else
timeout 1500 go test -vet=off -count=1 $PKGS 2>&1 | grep -E "^(ok|FAIL|--- FAIL)" | sed "s/ ([0-9.]*s)//; s/\t[0-9.]*s$//" | sort > /tmp/pk-$ID-mut.txt
git checkout -q -- .
timeout 1500 go test -vet=off -count=1 $PKGS 2>&1 | grep -E "^(ok|FAIL|--- FAIL)" | sed "s/ ([0-9.]*s)//; s/\t[0-9.]*s$//" | sort > /tmp/pk-$ID-clean.txt
rm -f $DEST
SAME=differs; cmp -s /tmp/pk-$ID-mut.txt /tmp/pk-$ID-clean.txt && SAME=same
fi
echo "seed $ID: demo clean exit=$CLEAN (want 0), demo mutated exit=$MUT (want !=0), build=$BUILD (want 0), touched-package test outcomes: $SAME; packages: $PKGS"
mkdir -p /verif/seeded/$ID && cp "$OUT/patch.diff" /verif/seeded/$ID/ && cp -r "$OUT/demo" /verif/seeded/$ID/ && cp "$OUT/README.md" /verif/seeded/$ID/ 2>/dev/null
echo "{\"confirm\": {\"demo_clean_exit\": $CLEAN, \"demo_mutated_exit\": $MUT, \"build_exit\": $BUILD, \"touched_package_tests\": \"$SAME\", \"packages\": \"$PKGS\", \"demo_test\": \"$TESTFN\"}}" > /verif/seeded/$ID/${CONFIRM_LITE:+re}confirm.json

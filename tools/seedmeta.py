#!/usr/bin/env python3
"""Writes /verif/seeded/<id>/meta.json from the table below + the confirmation record left by tools/confirm_seed.sh."""
import json, os, re
T = {
 'C01-m1': ('C01', 'partial fill of a limit order leaving a remainder below the 1e10 minimum (little-order closure refunds a zeroed clone)', 'C01 custom-volume (after the aimed dust-fill scenario was added to the generator); first run missed'),
 'C01-m2': ('C01', 'two sites (stake.setValue in place + frozen fund without defensive copy); needs a candidate removed beyond the 100-candidate limit', 'C01 base-delta (after the 99-candidate family was added); first run missed'),
 'C03-m1': ('C03', 'failed tx with payload mutates the cached price table in place; every later failed tx is over-charged until restart', 'C03 failed-tx-changed-state-without-fee [commission/table] (after the commission table was added to the accessor snapshot); first run missed'),
 'C03-m2': ('C03', 'failed Unbond by a sender holding both a stake and a waitlist entry of the same candidate/coin aliases and grows the waitlist entry', 'C03 failed-tx-changed-state-without-fee [wl/...] (after genesis waitlist entries were added); first run missed'),
 'C04-m1': ('C04', 'nonce bump not marked dirty for accounts already on disk: after a restart the nonce is stale and old bytes are accepted again', 'C04 accepted-out-of-order/replay-of-accepted (after process restarts were added to the C04 workload) and C09 export-differs; first run missed'),
 'C04-m2': ('C04', 'RedeemCheck advances the issuer nonce instead of the redeemer: needs a check redemption followed by replays', 'C04 nonce-mismatch / accepted-out-of-order'),
 'C06-m1': ('C06', 'simulated commission swap shares order objects with the live pool: CheckTx mutates the book; needs custom gas coin trade in its own pool crossing an order with a tight limit', 'C06 checktx-has-side-effects (shadow instance)'),
 'C06-m2': ('C06', 'CheckTx evaluates height rules one block early: differs exactly at due/jail boundary heights', 'C06 checktx-accepts-delivertx-rejects type 09'),
 'C07-m1': ('C07', 'EditMultisig with more addresses than weights accepted; later tx signed by the weightless owner panics (index out of range)', 'C07 panic DeliverTx GetWeight (seed 1 of 2)'),
 'C07-m2': ('C07', 'custom-coin frozen fund slashed with byzantine evidence books coin units instead of BIP: invariant panic at Commit', 'C07 panic Commit invariants'),
 'C08-m1': ('C08', 'candidate block list encoded in map order: needs >= 2 public key changes', 'C08 process-divergence'),
 'C08-m2': ('C08', 'tie-break by id dropped in candidate ordering: needs > 100 candidates with a stake tie across the cut', 'C08 process-divergence (after equal stakes were added to the crowded family); first run missed'),
 'C09-m1': ('C09', 'absent mark not persisted (inverted dirty condition): needs an absence, a restart before anything rewrites the validator list, then more absences', 'C09 export-differs validators/absent_times'),
 'C09-m2': ('C09', 'recalculated bip value of an unchanged custom-coin stake not marked dirty: restart before the next payout pays from stale value', 'C09 responses-differ-after-restart'),
 'C10-m1': ('C10', 'height record written apart from the other records of a commit: crash between the two writes reports (h, hash of h-1). (Ported after fix f72b9d5 made the commit one batch: the author swapped two separate writes - patch.orig.diff; the port lets SetLastHeight bypass the batch, same effect, same demonstration)', 'C10 later-block-differs / wrong hash positions'),
 'C10-m2': ('C10', 'pruning off by one with keep_last_states=1: crash after pruning before the app height advances cannot reload', 'C10 replayed-block-differs (restart cannot load the pruned version)'),
 'C11-m1': ('C11', 'token version dropped at import: needs a re-created token before the export', 'C11 reexport-differs /coins'),
 'C11-m2': ('C11', 'unfunded, unused multisig wallet dropped from the export', 'C11 import-loses-state/msig (after the accessor-level comparison was added); first run missed'),
 'C02-m1': ('C02', 'BuyCoin supply check compares volume + BIP price: needs a bancor coin priced below 1 BIP close to max supply', 'C02 volume-over-max (1 of 2 seeds)'),
 'C02-m2': ('C02', 'BurnToken of the whole balance paying the fee in the same token (token with a BIP pool): balance goes negative', 'C02 negative/balance-at-commit (after a BIP/TOKT pool, same-coin-gas boundary variants and the attribution of the node commit panic were added); first runs missed'),
 'C16-m1': ('C16', 'move from a waitlist entry to a key that is no candidate accepted (existence check moved behind the waitlist shortcut)', 'C16 move-accepted-to-nonexistent-candidate'),
 'C16-m2': ('C16', 'in-flight move slashed by evidence loses its target: remainder paid to the balance at move maturity', 'C16 credited-to-balance-off-schedule / fund-unexplained'),
 'C17-m1': ('C17', 'toDrop validator beyond rank 100 loses its protection and is deleted (needs > 100 candidates + evidence in one block)', 'C17 limit/validator-removed (1 of 2 seeds)'),
 'C17-m2': ('C17', 'losing incoming delegation kicked to the waitlist with value 0 (needs a full 1000-slot candidate)', 'C17 conservation/surviving-candidate'),
 'C18-m1': ('C18', 'cleared absence bit not persisted: restart re-reads stale absences and jails wrongly', 'C18 jail-event-mismatch / switched-off-without-cause (after process restarts were added to the C18 workload); first run missed'),
 'C18-m2': ('C18', 'unbonding fund maturing exactly in the evidence block is not slashed', 'C18 byzantine-fund-not-slashed-5-percent/released-in-punishment-block (after maturity-timed evidence was added); first run missed'),
 'C19-m1': ('C19', 'dropped validator still receives a share (SetCandidateOff+On in one block / set-off in a payout block)', 'C19 accrual/dropped'),
 'C19-m2': ('C19', 'zero accumulated reward not written after payout: stale value re-read after restart / at payout heights', 'C19 accrual/absent'),
 'C29-m1': ('C29', 'empty leaf values not restored: needs an empty-valued leaf (open order / payout block) at the snapshot height', 'C29 restore-rejected'),
 'C29-m2': ('C29', 'validators record missing from snapshots: shows only when a validator leaves right after the restore', 'C29 restored-query-differs/validators'),
 # batch 3
 'C05-m1': ('C05', 'full 1000-slot candidate and two delegations in one period of which the later, smaller one no longer fits at recalculation: the kicked stake is credited to another account', 'C05 (after the slots family with delegations between the two smallest stakes was added); first run missed'),
 'C05-m2': ('C05', 'multisig duplicate detection keyed by signature value: needs two DIFFERENT valid signatures of one owner (random-k ECDSA)', 'C05 threshold/duplicate-signer (after random-nonce duplicate signatures were added to the signer); first run missed'),
 'C12-m1': ('C12', 'crr=100 branch of CalculateSaleAmount with supply != reserve, exact-amount direction', 'C12 reference-model mismatch (high-precision reference)'),
 'C12-m2': ('C12', 'sell-everything special case compares with the wrong variable: sell amount == reserve as integers, or whole supply with a >= 2^100 non-representable reserve', 'C12 reference-model mismatch (aimed equalities)'),
 'C13-m1': ('C13', 'sell-side trade that completely fills two orders at two different prices and continues in the reserves', 'C13 k-decreased / reserves-vs-balance'),
 'C13-m2': ('C13', 'AddLiquidity worth less than one pool token in a pool created with unequal volumes', 'C13 liquidity-minted-for-less'),
 'C14-m1': ('C14', 'partial fill and closing (cancel / expiry) of the same order inside ONE block refunds the on-disk amount', 'C14 refund-mismatch; also C01'),
 'C14-m2': ('C14', 'two uncommitted orders whose prices differ by less than 2^-53 relative, higher id with the better exact price', 'C14 priority-violated'),
 'C15-m1': ('C15', 'SellSwapPool over 3..5 coins with the fee pool as a LATER hop and the minimum inside a 0.03% window (context line re-based after fix c93b8c2; patch.orig.diff is the author\'s)', 'C15 limit/pool-sell (across-the-boundary trades on probed outcomes)'),
 'C15-m2': ('C15', 'fee conversion filled from an order at the pool price and the same pool traded by the route: the simulated fee conversion forgets the orders it consumed. (The author wrote it for the buy branch of AddLastSwapStepWithOrders; after fix c93b8c2 the swaps use the sell branch, so the identical slip was moved to that branch - patch.orig.diff is the original.)', 'C15 limit/pool-buy and pool-sell, off-by-more (after the aimed fee-pool scenario was added; that scenario also exposed the genuine defect fixed by c93b8c2); first runs missed'),
 'C20-m1': ('C20', 'halt decision uses the presence of the previous block: needs a validator whose presence differs between H-1 and H', 'C20 halt-decision (seed 2 of 2)'),
 'C20-m2': ('C20', 'duplicate update-vote check only in the process cache: vote, restart, same candidate votes again', 'C20 duplicate-vote-accepted (after restarts and late duplicate votes were added); first run missed'),
 # batch 4
 'C21-m1': ('C21', 'proof for which key recovery fails (recovery id >= 4, r/s zero or out of range) accepted', 'C21 invalid-redemption-accepted/proof-not-made-with-password'),
 'C21-m2': ('C21', 'used checks garbled at import: redeem, export, InitChain from the export, redeem again', 'C21 redeemed-twice/after-genesis-roundtrip'),
 'C22-m1': ('C22', 'coin counter not marked dirty: creation, restart before any other App-model change, creation again reuses the id', 'C22 id-reused / new-id-not-next (after process restarts were added to the C22 workload); first run missed'),
 'C22-m2': ('C22', 'second recreation of a ticker repeats version 1', 'C22 version-reused'),
 'C23-m1': ('C23', 'rlp accepts a 55-byte string with the long header B8 37', 'C23 canonical/tx/accepted-noncanonical'),
 'C23-m2': ('C23', 'V > 255 with low byte 27/28 accepted (truncation before validation)', 'C23 invalid-signature-accepted/tx-single|tx-multi/bad-v'),
 'C24-m1': ('C24', 'address table count persisted one short: after a reopen the newest address is lost and its id reused', 'C24 roundtrip (reopen schedules)'),
 'C24-m2': ('C24', 'unbond event without validator key inherits the key of the preceding event of its height', 'C24 roundtrip/minter/UnbondEvent'),
 'C25-m1': ('C25', 'pair cache filled under a read lock: concurrent queries for never-seen pairs', 'C25 process-died-under-query-load (fatal error: concurrent map ...) and execution-differs'),
 'C25-m2': ('C25', 'first pool-list / route query of a process overwrites live pools with their committed version when it arrives between DeliverTx and Commit', 'C25 execution-differs-under-query-load'),
 'C26-m1': ('C26', 'RedeemCheck advances the wrong nonce: replayed redemption fails in Run and charges the issuer each time', 'C26 replay-charged|replay-accepted/first-delivery-accepted'),
 'C26-m2': ('C26', 'nonce not marked dirty for accounts already on disk: first delivery, restart, replay accepted', 'C26 replay-accepted/first-delivery-accepted'),
 'C27-m1': ('C27', 'dearer of the two fee routes charged: gas coin with both a reserve and a BIP pool', 'C27 route'),
 'C27-m2': ('C27', 'ticker burn multiplied by the gas price after the pool conversion: custom-coin price table + create coin/token + gas price > 1', 'C27 ticker-burn'),
 'C28-m1': ('C28', 'price record keeps Off=true when recovery completes: drop >= 10%, full recovery, then a large rise at the very next update', 'C28 price-record-wrong/update/recovery-complete (1 of 2 seeds)'),
 'C28-m2': ('C28', 'emission counter counts only the validators share in off/recovery periods', 'C28 emission-step-wrong'),

 # batch 5 (second round: authors were told what the first two seeds of the property were and had to differ)
 'C01-m3': ('C01', 'Lock with DueBlock equal to the height of the delivering block accepted: coins filed under a height that is never released', 'C01 base-delta'),
 'C01-m4': ('C01', 'block reward added to a stale local emission value: extra coins of locked (x3) stakes are minted but not counted (needs LockStake, i.e. heights above 10197360)', 'C01 base-delta (locktime family)'),
 'C02-m3': ('C02', 'owner with a waitlist entry W and a stake S of the same candidate and coin unbonds V with W < V, S < V <= W+S: stake goes negative, Commit dies', 'C02 negative/value-at-commit (after the generator aimed unbonds across waitlist+stake and the node\'s "cannot encode negative" Commit panic was attributed to C02); first run missed'),
 'C02-m4': ('C02', 'failed RedeemCheck whose issuer owns less than the failed-tx fee while the redeemer owns more: issuer balance negative', 'C02 negative/balance-at-commit'),
 'C03-m3': ('C03', 'failed-tx fee of a rejected check redemption gated and capped by the redeemer\'s balance instead of the issuer\'s', 'C03 failed-tx-fee-mismatch'),
 'C03-m4': ('C03', 'pool copy used for pre-checks shares its reserves with the live pool: a rejected tx with the fee coin\'s pool in its route moves the pool', 'C03 failed-tx-changed-state-without-fee [pool/...]'),
 'C05-m3': ('C05', 'dust remainder of an almost filled order refunded to the zero address (clone without owner)', 'C05 unexplained-decrease/escrow'),
 'C05-m4': ('C05', 'control address of a candidate may send EditCandidate (owner check replaced by control check)', 'C05 candidate-changed-by-non-owner'),
 'C09-m3': ('C09', 'grace period of a voted network update not rebuilt on reopening: update at H > genesis, restart, validator crosses the absence limit in (initial+120, H+120]', 'C09 responses-differ-after-restart (after the voted-update + restart + absence family was added); first run missed'),
 'C09-m4': ('C09', 'block-time list not reloaded by its getter: max gas wrong in the first block after a restart while blocks are slow', 'C09 responses-differ-after-restart/max gas'),
 'C11-m3': ('C11', 'imported next_order_id never written: disk export / restart right after InitChain restarts order ids at 1', 'C11 behaviour-differs / export-after-follow:/next_order_id'),
 'C11-m4': ('C11', 'frozen fund of a candidate that changed its key afterwards loses its candidate id at import', 'C11 reexport-differs//frozen_funds'),
 'C13-m3': ('C13', 'CreateToken accepts the ticker LP-<n> of a pool that does not exist yet: the stranger owns the later pool\'s token', 'C22 duplicate-active-ticker / pool-token-minted (after the C22 generator started to try pool-token tickers); C13 itself (package-level engines) does not see transactions; first run missed'),
 'C13-m4': ('C13', 'buy of exactly reserve + volume of the completely filled orders pays out the whole reserve for nothing', 'C13 panic / k (after the aimed amount "reserve plus first k orders" was added); first run missed'),
 'C14-m3': ('C14', 'all 16 orders of the first on-disk page of a side closed one by one inside one block: the book looks empty, a trade passes over live orders', 'C14 priority/pool-traded-through-order (after the mass-cancel operation and the traded-through oracle were added); first run missed'),
 'C14-m4': ('C14', 'dust closing needs BOTH volumes below the minimum: a remainder with one side below 1e10 stays open', 'C14 book-mismatch/closed-order-visible'),
 'C16-m3': ('C16', 'Lock with DueBlock equal to the delivering block accepted (same change as C01-m3 by another author)', 'C16 fund-overdue/lock, lock-fund-mismatch'),
 'C16-m4': ('C16', 'FrozenFunds.GetOrNew looks only in the cache: after a restart a second fund for a height that already has a committed record overwrites it', 'C16 fund-vanished-early (after restarts, Locks aimed at occupied heights, and pre-tx fund lists taken from the disk export instead of the accessor - the accessor read had re-warmed the cache and masked the defect); first run missed'),
 'C17-m3': ('C17', 'cut to 64 applied before the online/stake filter: an offline candidate inside the first 64 burns a slot', 'C17 set/missing-validator, set/size'),
 'C17-m4': ('C17', 'validator leaving with nobody entering does not mark the list dirty: removed validator still on disk', 'C17 set/tendermint-missing, set/unexpected-validator'),
 'C19-m3': ('C19', 'presence map not reset per block: a validator that left and came back accrues without signing in the two blocks after re-entry', 'C19 accrual/absent'),
 'C19-m4': ('C19', 'x3 reward still paid at the payout of the exact block a lock ends', 'C19 overpaid/emission-without-locked-stakes'),
 'C29-m3': ('C29', 'restored node gets a grace period at its restore height: a validator crossing the absence limit there is not jailed', 'C29 restored-node-differs (after the restore-then-absence family beyond height initial+120 was added); first run missed'),
 'C29-m4': ('C29', 'snapshot exports the current tree version instead of its height: race between the snapshot goroutine and the next commit', 'C29 snapshot-contents-differ/metadata (after the second producer started to execute snapshot block and next block back to back on one processor); first run missed'),

}
import sys
for sid, (prop, needs, caught) in T.items():
    d = '/verif/seeded/' + sid
    if not os.path.isdir(d):
        continue
    conf = {}
    try:
        conf = json.loads(open(d + '/confirm.json').read().replace('\n', ' '))['confirm']
    except Exception as e:
        conf = {'note': 'confirmation record unreadable; re-run tools/confirm_seed.sh'}
    meta = {'seed': sid, 'breaks_property': prop, 'needs_to_manifest': needs,
            'confirmed_by_lead': conf,
            'what_i_ran': ['tools/confirm_seed.sh <worktree> <OUT/n> %s  (go build ./...; demo test on the clean tree and with the patch; tests of the touched packages before/after)' % sid,
                           'MUT_SEEDS="1 2" tools/mutcheck.sh <worktree> patch.diff %s  (the checks built against the mutated worktree)' % prop],
            'detected_by': caught}
    try:
        rv = json.load(open(d + '/reval.json'))
        meta['revalidated_at_repo_head'] = {'head': rv.get('head'), 'patch_applies': rv.get('applies'), 'confirm': rv.get('confirm_line'),
                                           'caught_by_registered_check': rv.get('caught'),
                                           'runs': {k: {'violation_lines': v['violation_lines'], 'signatures': v['signatures'][:4]} for k, v in (rv.get('runs') or {}).items()}}
    except Exception:
        pass
    json.dump(meta, open(d + '/meta.json', 'w'), indent=1)
print('ok')

#!/usr/bin/env python3
"""Writes /verif/seeded/<id>/meta.json from the table below + the confirmation record left by tools/confirm_seed.sh."""
import json, os, re
T = {
 'C01-m1': ('C01', 'partial fill of a limit order leaving a remainder below the 1e10 minimum (little-order closure refunds a zeroed clone)', 'C01 custom-volume (after the aimed dust-fill scenario was added to the generator); first run missed'),
 'C01-m2': ('C01', 'two sites (stake.setValue in place + frozen fund without defensive copy); needs a candidate removed beyond the 100-candidate limit', 'C01 base-delta (after the 99-candidate family was added); first run missed'),
 'C03-m1': ('C03', 'failed tx with payload mutates the cached price table in place; every later failed tx is over-charged until restart', 'C03 failed-tx-changed-state-without-fee [commission/table] (after the commission table was added to the accessor snapshot); first run missed'),
 'C03-m2': ('C03', 'failed Unbond by a sender holding both a stake and a waitlist entry of the same candidate/coin aliases and grows the waitlist entry', 'C03 failed-tx-changed-state-without-fee [wl/...] (after genesis waitlist entries were added); first run missed'),
 'C04-m1': ('C04', 'nonce bump not marked dirty for accounts already on disk: after a restart the nonce is stale and old bytes are accepted again', 'C04 accepted-out-of-order/replay-of-accepted (after process restarts were added to the C04 workload) and C09 export-differs; first run missed'),
 'C04-m2': ('C04', 'RedeemCheck advances the issuer nonce instead of the redeemer: needs a check redemption followed by replays', 'C04 nonce-mismatch / accepted-out-of-order'),
 'C06-m1': ('C06', 'simulated commission swap shares order objects with the live pool: CheckTx mutates the book; needs custom gas coin trade in its own pool crossing an order with a tight limit', 'C06 checktx-has-side-effects (shadow instance)'),
 'C06-m2': ('C06', 'CheckTx evaluates height rules one block early: differs exactly at due/jail boundary heights', 'C06 checktx-accepts-delivertx-rejects type 09'),
 'C07-m1': ('C07', 'EditMultisig with more addresses than weights accepted; later tx signed by the weightless owner panics (index out of range)', 'C07 panic DeliverTx GetWeight (seed 1 of 2)'),
 'C07-m2': ('C07', 'custom-coin frozen fund slashed with byzantine evidence books coin units instead of BIP: invariant panic at Commit', 'C07 panic Commit invariants'),
 'C08-m1': ('C08', 'candidate block list encoded in map order: needs >= 2 public key changes', 'C08 process-divergence'),
 'C08-m2': ('C08', 'tie-break by id dropped in candidate ordering: needs > 100 candidates with a stake tie across the cut', 'C08 process-divergence (after equal stakes were added to the crowded family); first run missed'),
 'C09-m1': ('C09', 'absent mark not persisted (inverted dirty condition): needs an absence, a restart before anything rewrites the validator list, then more absences', 'C09 export-differs validators/absent_times'),
 'C09-m2': ('C09', 'recalculated bip value of an unchanged custom-coin stake not marked dirty: restart before the next payout pays from stale value', 'C09 responses-differ-after-restart'),
 'C10-m1': ('C10', 'height written before hash in Commit: crash between the two writes reports (h, hash of h-1)', 'C10 later-block-differs / wrong hash positions'),
 'C10-m2': ('C10', 'pruning off by one with keep_last_states=1: crash after pruning before the app height advances cannot reload', 'C10 replayed-block-differs (restart cannot load the pruned version)'),
 'C11-m1': ('C11', 'token version dropped at import: needs a re-created token before the export', 'C11 reexport-differs /coins'),
 'C11-m2': ('C11', 'unfunded, unused multisig wallet dropped from the export', 'C11 import-loses-state/msig (after the accessor-level comparison was added); first run missed'),
 'C02-m1': ('C02', 'BuyCoin supply check compares volume + BIP price: needs a bancor coin priced below 1 BIP close to max supply', 'C02 volume-over-max (1 of 2 seeds)'),
 'C02-m2': ('C02', 'BurnToken of the whole balance paying the fee in the same token (token with a BIP pool): balance goes negative', 'C02 negative/balance-at-commit (after a BIP/TOKT pool, same-coin-gas boundary variants and the attribution of the node commit panic were added); first runs missed'),
 'C16-m1': ('C16', 'move from a waitlist entry to a key that is no candidate accepted (existence check moved behind the waitlist shortcut)', 'C16 move-accepted-to-nonexistent-candidate'),
 'C16-m2': ('C16', 'in-flight move slashed by evidence loses its target: remainder paid to the balance at move maturity', 'C16 credited-to-balance-off-schedule / fund-unexplained'),
 'C17-m1': ('C17', 'toDrop validator beyond rank 100 loses its protection and is deleted (needs > 100 candidates + evidence in one block)', 'C17 limit/validator-removed (1 of 2 seeds)'),
 'C17-m2': ('C17', 'losing incoming delegation kicked to the waitlist with value 0 (needs a full 1000-slot candidate)', 'C17 conservation/surviving-candidate'),
 'C18-m1': ('C18', 'cleared absence bit not persisted: restart re-reads stale absences and jails wrongly', 'C18 jail-event-mismatch / switched-off-without-cause (after process restarts were added to the C18 workload); first run missed'),
 'C18-m2': ('C18', 'unbonding fund maturing exactly in the evidence block is not slashed', 'C18 byzantine-fund-not-slashed-5-percent/released-in-punishment-block (after maturity-timed evidence was added); first run missed'),
 'C19-m1': ('C19', 'dropped validator still receives a share (SetCandidateOff+On in one block / set-off in a payout block)', 'C19 accrual/dropped'),
 'C19-m2': ('C19', 'zero accumulated reward not written after payout: stale value re-read after restart / at payout heights', 'C19 accrual/absent'),
 'C29-m1': ('C29', 'empty leaf values not restored: needs an empty-valued leaf (open order / payout block) at the snapshot height', 'C29 restore-rejected'),
 'C29-m2': ('C29', 'validators record missing from snapshots: shows only when a validator leaves right after the restore', 'C29 restored-query-differs/validators'),
}
import sys
for sid, (prop, needs, caught) in T.items():
    d = '/verif/seeded/' + sid
    if not os.path.isdir(d):
        continue
    conf = {}
    try:
        conf = json.loads(open(d + '/confirm.json').read().replace('\n', ' '))['confirm']
    except Exception as e:
        conf = {'note': 'confirmation record unreadable; re-run tools/confirm_seed.sh'}
    meta = {'seed': sid, 'breaks_property': prop, 'needs_to_manifest': needs,
            'confirmed_by_lead': conf,
            'what_i_ran': ['tools/confirm_seed.sh <worktree> <OUT/n> %s  (go build ./...; demo test on the clean tree and with the patch; tests of the touched packages before/after)' % sid,
                           'MUT_SEEDS="1 2" tools/mutcheck.sh <worktree> patch.diff %s  (the checks built against the mutated worktree)' % prop],
            'detected_by': caught}
    json.dump(meta, open(d + '/meta.json', 'w'), indent=1)
print('ok')

// c23nocgo: second-build judge for C23 (build with CGO_ENABLED=0 for the pure-Go crypto path, or with -asan
// for the sanitized cgo path).  It re-judges a corpus recorded by `vchk run C23` and prints the records whose
// verdict differs; `judge` prints the verdict of one input (replay of a witness).
//
//	c23nocgo rejudge <corpus.jsonl>
//	c23nocgo judge tx|check <hex>
//	c23nocgo judge raw <hash hex> <sig hex>
package main

import (
	"os"

	"verif/harness/h"
)

func main() { os.Exit(h.C23RejudgeMain(os.Args[1:])) }

// vchk: runtime-monitoring checks for minter-go-node. See /verif/DESIGN.md.
package main

import (
	"fmt"
	"os"
	"os/exec"
	"path/filepath"
	"runtime"
	"strconv"
	"strings"
	"sync"
	"time"

	"verif/harness/h"
)

func usage() {
	fmt.Fprintln(os.Stderr, "usage: vchk run <prop> | worker <prop> <from> <to> <out> | replay <file> | list")
	os.Exit(2)
}

func envInt(name string, def int64) int64 {
	if v := os.Getenv(name); v != "" {
		if n, err := strconv.ParseInt(v, 10, 64); err == nil {
			return n
		}
	}
	return def
}

func verifDir() string {
	if d := os.Getenv("VERIF_DIR"); d != "" {
		return d
	}
	return "/verif"
}

func main() {
	if len(os.Args) < 2 {
		usage()
	}
	switch os.Args[1] {
	case "list":
		for _, id := range h.CheckIDs() {
			fmt.Println(id)
		}
	case "run":
		if len(os.Args) < 3 {
			usage()
		}
		os.Exit(runParent(os.Args[2]))
	case "worker":
		if len(os.Args) < 6 {
			usage()
		}
		from, _ := strconv.Atoi(os.Args[3])
		to, _ := strconv.Atoi(os.Args[4])
		os.Exit(runWorker(os.Args[2], from, to, os.Args[5]))
	case "digest":
		if len(os.Args) < 4 {
			usage()
		}
		os.Exit(h.DigestHistory(os.Args[2], os.Args[3]))
	case "c15bisect":
		if len(os.Args) < 5 {
			usage()
		}
		ht, _ := strconv.ParseInt(os.Args[3], 10, 64)
		ti, _ := strconv.Atoi(os.Args[4])
		os.Exit(h.C15Bisect(os.Args[2], ht, ti))
	case "replay":
		if len(os.Args) < 3 {
			usage()
		}
		os.Exit(h.ReplayFile(os.Args[2]))
	default:
		usage()
	}
}

func tier() string {
	t := os.Getenv("VERIF_TIER")
	if t != "thorough" {
		t = "quick"
	}
	return t
}

func runWorker(prop string, from, to int, out string) int {
	def := h.Checks[prop]
	if def == nil {
		fmt.Fprintln(os.Stderr, "unknown check", prop)
		return 2
	}
	h.SetChain(!def.Mainnet)
	ctx := &h.WorkCtx{Prop: prop, Tier: tier(), Seed: envInt("VERIF_SEED", 1), VerifDir: verifDir(), Res: h.NewResult(prop), TmpDir: os.Getenv("VERIF_TMP")}
	for idx := from; idx < to; idx++ {
		fmt.Fprintf(os.Stderr, "case %d start\n", idx)
		def.Run(ctx, idx)
		_ = ctx.Res.Save(out)
	}
	if err := ctx.Res.Save(out); err != nil {
		fmt.Fprintln(os.Stderr, err)
		return 2
	}
	return 0
}

var scratchDirs []string

func runParent(prop string) int {
	def := h.Checks[prop]
	if def == nil {
		fmt.Fprintln(os.Stderr, "unknown check", prop)
		return 2
	}
	start := time.Now()
	t := tier()
	seed := envInt("VERIF_SEED", 1)
	total := h.NewResult(prop)
	parts := []*h.CheckDef{def}
	if len(def.Parts) > 0 {
		parts = nil
		for _, id := range def.Parts {
			if d := h.Checks[id]; d != nil {
				parts = append(parts, d)
			}
		}
	}
	// the parts' scratch directories live until Post has run (C23's Post re-judges the corpus the workers recorded there)
	defer func() {
		for _, d := range scratchDirs {
			os.RemoveAll(d)
		}
	}()
	for _, d := range parts {
		runJobs(d, prop, t, seed, total)
	}
	if def.Post != nil {
		def.Post(total)
	}
	return h.Conclude(verifDir(), total, t, seed, def.Level, def.Rule, def.Assumptions, time.Since(start).Seconds(), def.MinEval, def.MinDistinct, prop)
}

// runJobs runs all cases of one (part of a) check in supervised worker processes and merges their results into total.
func runJobs(def *h.CheckDef, prop, t string, seed int64, total *h.WorkerResult) {
	n := def.Quick
	if t == "thorough" {
		n = def.Thorough
	}
	if v := envInt("VERIF_CASES", 0); v > 0 {
		n = int(v)
	}
	workers := int(envInt("VERIF_WORKERS", int64(runtime.NumCPU()-2)))
	if def.MaxWorkers > 0 && workers > def.MaxWorkers {
		workers = def.MaxWorkers
	}
	if workers < 1 {
		workers = 1
	}
	if workers > n {
		workers = n
	}
	tmp, err := os.MkdirTemp("/dev/shm", "vchk-"+def.ID+"-")
	if err != nil {
		tmp, err = os.MkdirTemp("", "vchk-"+def.ID+"-")
		if err != nil {
			fmt.Fprintln(os.Stderr, err)
			total.Inconcl = append(total.Inconcl, "no scratch directory")
			return
		}
	}
	scratchDirs = append(scratchDirs, tmp)
	self, _ := os.Executable()
	if def.Binary != "" {
		self = filepath.Join(filepath.Dir(self), def.Binary)
		if _, err := os.Stat(self); err != nil {
			total.Inconcl = append(total.Inconcl, "worker binary "+def.Binary+" is not built: part "+def.ID+" skipped")
			return
		}
	}
	var mu sync.Mutex
	var wg sync.WaitGroup
	batch := def.Batch
	if batch <= 0 {
		batch = 1 + n/(workers*3)
	}
	type job struct{ from, to int }
	jobs := make(chan job, n)
	for f := 0; f < n; f += batch {
		to := f + batch
		if to > n {
			to = n
		}
		jobs <- job{f, to}
	}
	close(jobs)
	watchdog := time.Duration(envInt("VERIF_WATCHDOG_S", int64(def.WatchdogS))) * time.Second
	if watchdog == 0 {
		watchdog = 20 * time.Minute
	}
	for wi := 0; wi < workers; wi++ {
		wg.Add(1)
		go func(wi int) {
			defer wg.Done()
			for j := range jobs {
				out := filepath.Join(tmp, fmt.Sprintf("res-%d-%d.json", j.from, j.to))
				logf := filepath.Join(tmp, fmt.Sprintf("log-%d-%d.txt", j.from, j.to))
				wtmp := filepath.Join(tmp, fmt.Sprintf("w-%d-%d", j.from, j.to))
				_ = os.MkdirAll(wtmp, 0o755)
				cmd := exec.Command("timeout", "-s", "QUIT", fmt.Sprintf("%d", int(watchdog.Seconds())), self, "worker", def.ID, strconv.Itoa(j.from), strconv.Itoa(j.to), out)
				cmd.Env = append(os.Environ(), "VERIF_TMP="+wtmp, "VERIF_TIER="+t, fmt.Sprintf("VERIF_SEED=%d", seed), "VERIF_DIR="+verifDir())
				for _, e := range def.Env {
					cmd.Env = append(cmd.Env, strings.ReplaceAll(e, "{TMP}", wtmp))
				}
				lf, _ := os.Create(logf)
				cmd.Stdout = lf
				cmd.Stderr = lf
				err := cmd.Run()
				lf.Close()
				r, lerr := h.LoadResult(out)
				mu.Lock()
				if r != nil {
					r.Property = prop
					total.Merge(r)
				}
				if err != nil || lerr != nil {
					tail := h.TailFile(logf, 6000)
					code := -1
					if ee, ok := err.(*exec.ExitError); ok {
						code = ee.ExitCode()
					}
					if code == 124 || code == 131 || code == 137 {
						total.Inconcl = append(total.Inconcl, fmt.Sprintf("watchdog fired on %s cases %d..%d (exit %d); last case: %s", def.ID, j.from, j.to, code, h.LastCase(logf)))
						keep := filepath.Join(verifDir(), "replays", fmt.Sprintf("%s-%d-watchdog-%d.log", def.ID, seed, j.from))
						_ = os.MkdirAll(filepath.Dir(keep), 0o755)
						_ = os.WriteFile(keep, []byte(tail), 0o644)
					} else if def.OnChildDeath != nil {
						def.OnChildDeath(total, j.from, j.to, code, tail, logf)
					} else {
						keep := filepath.Join(verifDir(), "replays", fmt.Sprintf("%s-%d-died-%d.log", def.ID, seed, j.from))
						_ = os.MkdirAll(filepath.Dir(keep), 0o755)
						_ = os.WriteFile(keep, []byte(tail), 0o644)
						total.Violations = append(total.Violations, h.ReportedViol{Violation: h.Violation{Property: "C07", Rule: "process-died", Site: h.FatalSite(tail), Detail: fmt.Sprintf("worker for %s cases %d..%d exited with %d; last case %s", def.ID, j.from, j.to, code, h.LastCase(logf)), TxIndex: -1}, Replay: keep})
					}
				}
				mu.Unlock()
				os.RemoveAll(wtmp)
			}
		}(wi)
	}
	wg.Wait()
}

package main

import (
	"fmt"
	"math/big"
	"os"
	"strconv"

	"github.com/MinterTeam/minter-go-node/coreV2/types"
	"verif/harness/h"
)

func comps(e *types.AppState) map[string]*big.Int {
	m := map[string]*big.Int{}
	add := func(k string, s string) {
		if m[k] == nil {
			m[k] = new(big.Int)
		}
		m[k].Add(m[k], h.BI(s))
	}
	for _, a := range e.Accounts {
		for _, b := range a.Balance {
			if b.Coin == 0 {
				add("bal", b.Value)
			}
		}
	}
	for _, c := range e.Candidates {
		for _, s := range c.Stakes {
			if s.Coin == 0 {
				add("stake", s.Value)
			}
		}
		for _, s := range c.Updates {
			if s.Coin == 0 {
				add("upd", s.Value)
			}
		}
	}
	for _, x := range e.Waitlist {
		if x.Coin == 0 {
			add("wl", x.Value)
		}
	}
	for _, x := range e.FrozenFunds {
		if x.Coin == 0 {
			add("ff", x.Value)
		}
	}
	for _, p := range e.Pools {
		if p.Coin0 == 0 {
			add("pool", p.Reserve0)
		}
		for _, o := range p.Orders {
			if !o.IsSale && p.Coin0 == 0 {
				add("ord", o.Volume0)
			}
		}
	}
	for _, c := range e.Coins {
		if c.Crr > 0 {
			add("res", c.Reserve)
		}
	}
	for _, v := range e.Validators {
		add("accum", v.AccumReward)
	}
	add("slashed", e.TotalSlashed)
	return m
}

func main() {
	hist, err := h.LoadHistory(os.Args[1])
	if err != nil {
		panic(err)
	}
	target, _ := strconv.ParseInt(os.Args[2], 10, 64)
	types.CurrentChainID = types.ChainID(hist.ChainID)
	gen := hist.GenesisOf()
	w := &h.World{ValOwner: map[types.Pubkey]*h.Key{}, ValCtl: map[types.Pubkey]*h.Key{}, InitialHeight: hist.InitialHeight}
	s := h.NewSim("dbg", 1, 0, gen, w, h.NodeOpts{StakePeriod: hist.StakePeriod, ExpirePeriod: hist.ExpirePeriod, KeepLastStates: hist.KeepLast}, h.Rng(1, "x", 0))
	for i := range hist.Blocks {
		req, metas := hist.Blocks[i].Req()
		res := s.RunBlock(req, metas, nil)
		if req.Height == target-1 && os.Getenv("VALS") != "" {
			for _, v := range s.Post.Validators {
				fmt.Println("VAL", v.PubKey.String()[:10], v.TotalBipStake, v.AccumReward)
			}
			for _, c := range s.Post.Candidates {
				fmt.Println("CAND", c.PubKey.String()[:10], "st", c.Status, "total", c.TotalBipStake, "stakes", len(c.Stakes), "upd", len(c.Updates))
				for _, st := range c.Stakes {
					fmt.Println("     stake", st.Owner.String()[:8], st.Coin, st.Value, st.BipValue)
				}
			}
		}
		if req.Height == target && res == nil {
			fmt.Println("dead at target", s.Viol)
		}
		if req.Height == target && res != nil {
			a, b := comps(s.Pre), comps(s.Post)
			for k := range b {
				if a[k] == nil {
					a[k] = new(big.Int)
				}
				fmt.Println(k, new(big.Int).Sub(b[k], a[k]))
			}
			de, derr := s.N.DiskExport()
			fmt.Println("frozen live", len(s.Post.FrozenFunds), "disk", len(de.FrozenFunds), derr, "lastver", s.N.LastVersion())
			for hh := uint64(target); hh < uint64(target)+600; hh++ {
				if ff := s.N.App.CurrentState().FrozenFunds().GetFrozenFunds(hh); ff != nil {
					fmt.Println("frozen at", hh, len(ff.List))
				}
			}
			fmt.Println("unbond period", types.GetUnbondPeriod())
			for i, d := range res.Deliver {
				fmt.Printf("tx %d type %02x code %d %s\n   tags %v\n", i, metas[i].Type, d.Code, d.Log, h.Tags(&d))
			}
			for _, l := range h.DiffExports(s.Pre, s.Post, 60, "/validators") {
				fmt.Println("  ", l)
			}
			break
		}
	}
}

package main

import (
	"fmt"
	"os"
	"strconv"
	"strings"

	"github.com/MinterTeam/minter-go-node/coreV2/types"
	"verif/harness/h"
)

func main() {
	hist, err := h.LoadHistory(os.Args[1])
	if err != nil {
		panic(err)
	}
	target, _ := strconv.ParseInt(os.Args[2], 10, 64)
	needle := os.Args[3]
	types.CurrentChainID = types.ChainID(hist.ChainID)
	gen := hist.GenesisOf()
	w := &h.World{ValOwner: map[types.Pubkey]*h.Key{}, ValCtl: map[types.Pubkey]*h.Key{}, InitialHeight: hist.InitialHeight}
	opts := h.NodeOpts{StakePeriod: hist.StakePeriod, ExpirePeriod: hist.ExpirePeriod, KeepLastStates: hist.KeepLast}
	s := h.NewSim("dbg", 1, 0, gen, w, opts, h.Rng(1, "x", 0))
	for i := range hist.Blocks {
		req, metas := hist.Blocks[i].Req()
		s.RunBlock(req, metas, nil)
		if req.Height == target {
			e, _ := s.N.DiskExport()
			h.CompleteExport(s.N, e)
			b := h.NewNode(opts)
			b.InitChain(e, req.Height+1, req.Time)
			e2 := b.App.CurrentState().Export()
			for _, l := range h.DiffExports(e, &e2, 0) {
				if strings.Contains(l, needle) {
					fmt.Println(l)
				}
			}
			break
		}
	}
}

package main

import (
	"fmt"
	"time"

	"github.com/MinterTeam/minter-go-node/coreV2/transaction"
	"github.com/MinterTeam/minter-go-node/coreV2/types"
	"verif/harness/h"
)

func main() {
	types.CurrentChainID = types.ChainTestnet
	r := h.Rng(1, "smoke", 0)
	gen, w := h.BuildGenesis(h.GenSpec{Family: "small", ExtraCands: 2, Orders: 3, Filler: false}, r)
	if err := gen.Verify(); err != nil {
		panic(err)
	}
	n := h.NewNode(h.NodeOpts{StakePeriod: 12})
	t0 := time.Date(2022, 5, 1, 10, 0, 0, 0, time.UTC)
	resp, pi := n.InitChain(gen, 1, t0)
	fmt.Println("init", len(resp.Validators), pi)
	var votes []h.Vote
	for _, v := range w.Vals[:4] {
		votes = append(votes, h.Vote{Addr: v.Addr, Power: 1, Signed: true})
	}
	start := time.Now()
	for i := int64(1); i <= 50; i++ {
		req := &h.BlockReq{Height: i, Time: t0.Add(time.Duration(i) * 5 * time.Second), Votes: votes}
		if i == 3 {
			spec := &h.TxSpec{Nonce: 1, ChainID: types.CurrentChainID, GasPrice: 1, GasCoin: 0, Type: transaction.TypeSend,
				Data: transaction.SendData{Coin: 0, To: w.Users[1].Addr, Value: h.Bip(5)}, Signer: w.Users[0]}
			req.Txs = append(req.Txs, spec.Encode())
		}
		res := n.RunBlock(req, nil)
		if res.Panic != nil {
			fmt.Println("PANIC", res.Panic.Value, res.Panic.Site, "\n", res.Panic.Stack)
			return
		}
		for _, d := range res.Deliver {
			fmt.Println("tx", d.Code, d.Log, h.Tags(&d))
		}
		if i%10 == 0 {
			fmt.Printf("h=%d hash=%x updates=%d\n", i, res.Commit.Data, len(res.End.ValidatorUpdates))
		}
	}
	fmt.Println("50 blocks in", time.Since(start))
	s := time.Now()
	e := n.App.CurrentState().Export()
	fmt.Println("export", time.Since(s), len(e.Accounts), len(e.Coins), len(e.Pools), len(e.Candidates))
	fmt.Println("verify:", e.Verify())
}

package main

import (
	"fmt"
	"os"

	"github.com/MinterTeam/minter-go-node/coreV2/types"
	"verif/harness/h"
)

func main() {
	hist, err := h.LoadHistory(os.Args[1])
	if err != nil {
		panic(err)
	}
	types.CurrentChainID = types.ChainID(hist.ChainID)
	gen := hist.GenesisOf()
	w := &h.World{ValOwner: map[types.Pubkey]*h.Key{}, ValCtl: map[types.Pubkey]*h.Key{}, InitialHeight: hist.InitialHeight}
	s := h.NewSim("dbg", 1, 0, gen, w, h.NodeOpts{StakePeriod: hist.StakePeriod, ExpirePeriod: hist.ExpirePeriod, KeepLastStates: hist.KeepLast}, h.Rng(1, "x", 0))
	s.DiskEvery = 1
	for i := range hist.Blocks {
		req, metas := hist.Blocks[i].Req()
		res := s.RunBlock(req, metas, nil)
		if res == nil || s.PostDisk == nil {
			break
		}
		if d := h.DiffExports(s.Post, s.PostDisk, 5); len(d) > 0 {
			fmt.Println("height", req.Height, "live!=disk", d)
			for i, dd := range res.Deliver {
				fmt.Printf("   tx %d type %02x code %d\n", i, metas[i].Type, dd.Code)
			}
			fmt.Println("   valupd", len(res.End.ValidatorUpdates), "live n", len(s.Post.Validators), "disk n", len(s.PostDisk.Validators), "lastver", s.N.LastVersion())
			for _, v := range s.N.App.CurrentState().Validators().GetValidators() {
				fmt.Println("   live val", v.PubKey.String()[:10], v.IsToDrop(), v.GetTotalBipStake())
			}
			for _, v := range s.PostDisk.Validators {
				fmt.Println("   disk val", v.PubKey.String()[:10], v.TotalBipStake)
			}
			break
		}
	}
}

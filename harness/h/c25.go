package h

import (
	"context"
	"fmt"
	"github.com/MinterTeam/minter-go-node/tree"
	"math/big"
	"math/rand"
	"os"
	"path/filepath"
	"runtime"
	"runtime/debug"
	"sort"
	"strings"
	"sync"
	"sync/atomic"
	"time"

	"github.com/MinterTeam/minter-go-node/api/v2/service"
	"github.com/MinterTeam/minter-go-node/coreV2/types"
	pb "github.com/MinterTeam/node-grpc-gateway/api_pb"
)

// ---------------------------------------------------------------------------------------------------
// C25: concurrent queries never crash or perturb block execution.

var c25Kinds = []string{"Address", "Addresses", "Candidate", "Candidates", "CoinInfoById", "SwapPool", "SwapPools", "LimitOrders",
	"LimitOrdersOfPool", "BestTrade", "EstimateCoinSell", "EstimateCoinBuy", "EstimateCoinSellAll", "Frozen", "WaitList", "Export", "Accessors"}

type c25Load struct {
	svc       *service.Service
	s         *Sim
	stop      int32
	phase     atomic.Value // string
	wg        sync.WaitGroup
	mu        sync.Mutex
	overlap   map[string]int64 // query kind x execution phase observed
	calls     map[string]int64
	panics    map[string]int64 // recovered handler panics (grpc_recovery would do the same): counted, not judged
	running   int32
	committed int64 // last committed height (for queries at a height)
}

// c25QueryLoop is the body of one API client goroutine (its name is what the race-report classifier looks for).
func c25QueryLoop(l *c25Load, r *rand.Rand, universe *c25Universe) {
	defer l.wg.Done()
	atomic.AddInt32(&l.running, 1)
	defer atomic.AddInt32(&l.running, -1)
	for atomic.LoadInt32(&l.stop) == 0 {
		kind := c25Kinds[r.Intn(len(c25Kinds))]
		p0, _ := l.phase.Load().(string)
		perr := c25QueryOnce(l, r, universe, kind)
		p1, _ := l.phase.Load().(string)
		l.mu.Lock()
		l.calls[kind]++
		l.overlap[kind+" x "+p0]++
		if p1 != p0 {
			l.overlap[kind+" x "+p1]++
		}
		if perr != "" {
			l.panics[kind+": "+perr]++
		}
		l.mu.Unlock()
		if r.Intn(8) == 0 {
			runtime.Gosched()
		}
	}
}

// c25CommitBurst is an API client that waits for the commit phase and then walks the order books of all pools until the
// commit is over (lead: added after a history at seed 4 showed that a reader between the swap module's commit and the
// switch to the new tree version left a stale order list behind; random queries hit that window about once in 100 histories).
func c25CommitBurst(l *c25Load, r *rand.Rand, u *c25Universe) {
	defer l.wg.Done()
	atomic.AddInt32(&l.running, 1)
	defer atomic.AddInt32(&l.running, -1)
	ctx := context.Background()
	for atomic.LoadInt32(&l.stop) == 0 {
		if p, _ := l.phase.Load().(string); p != "commit" || len(u.pools) == 0 {
			time.Sleep(20 * time.Microsecond)
			continue
		}
		n := int64(0)
		for {
			if p, _ := l.phase.Load().(string); p != "commit" || atomic.LoadInt32(&l.stop) != 0 {
				break
			}
			pl := u.pools[r.Intn(len(u.pools))]
			if r.Intn(2) == 0 {
				pl[0], pl[1] = pl[1], pl[0]
			}
			func() {
				defer func() { recover() }()
				_, _ = l.svc.LimitOrdersOfPool(ctx, &pb.LimitOrdersOfPoolRequest{SellCoin: pl[0], BuyCoin: pl[1], Limit: 20})
			}()
			n++
		}
		l.mu.Lock()
		l.calls["LimitOrdersOfPool(commit burst)"] += n
		if n > 0 {
			l.overlap["LimitOrdersOfPool(commit burst) x commit"]++
		}
		l.mu.Unlock()
	}
}

// c25Hook is nil in the registered check (used by experiments on scratch copies of the repository).
var c25Hook func(l *c25Load, u *c25Universe)

type c25Universe struct {
	addrs    []string
	pubs     []string
	coins    []uint64
	pools    [][2]uint64
	maxOrder uint64
}

func c25BuildUniverse(s *Sim) *c25Universe {
	u := &c25Universe{}
	for _, k := range s.W.Users {
		u.addrs = append(u.addrs, k.Addr.String())
	}
	for _, m := range s.W.Multisigs {
		u.addrs = append(u.addrs, m.Addr.String())
	}
	for _, c := range s.Gen.Candidates {
		u.pubs = append(u.pubs, c.PubKey.String())
	}
	u.coins = []uint64{0}
	for _, c := range s.Gen.Coins {
		if c.ID > 4 && c.ID < CoinUSDT {
			continue
		}
		u.coins = append(u.coins, c.ID)
	}
	for i := uint64(0); i < 8; i++ { // coins created during the history
		u.coins = append(u.coins, uint64(len(s.Gen.Coins))+1+i)
	}
	for _, p := range s.Gen.Pools {
		u.pools = append(u.pools, [2]uint64{p.Coin0, p.Coin1})
	}
	u.maxOrder = s.Gen.NextOrderID + 200
	return u
}

// c25QueryOnce issues one read-only query; a panic inside is recovered exactly as the server's grpc_recovery does.
func c25QueryOnce(l *c25Load, r *rand.Rand, u *c25Universe, kind string) (perr string) {
	defer func() {
		if x := recover(); x != nil {
			perr = firstLine(fmt.Sprint(x))
			if len(perr) > 80 {
				perr = perr[:80]
			}
			if !strings.Contains(perr, "Value missing for hash") {
				perr += " @ " + repoFrames(string(debug.Stack()), 4)
			}
		}
	}()
	ctx := context.Background()
	addr := u.addrs[r.Intn(len(u.addrs))]
	coin := u.coins[r.Intn(len(u.coins))]
	coin2 := u.coins[r.Intn(len(u.coins))]
	switch kind {
	case "Address":
		var hq uint64
		if r.Intn(4) == 0 {
			hq = uint64(atomic.LoadInt64(&l.committed))
		}
		_, _ = l.svc.Address(ctx, &pb.AddressRequest{Address: addr, Delegated: r.Intn(2) == 0, Height: hq})
	case "Addresses":
		_, _ = l.svc.Addresses(ctx, &pb.AddressesRequest{Addresses: []string{addr, u.addrs[r.Intn(len(u.addrs))]}, Delegated: r.Intn(2) == 0})
	case "Candidate":
		if len(u.pubs) > 0 {
			_, _ = l.svc.Candidate(ctx, &pb.CandidateRequest{PublicKey: u.pubs[r.Intn(len(u.pubs))]})
		}
	case "Candidates":
		var hq uint64
		if r.Intn(4) == 0 {
			hq = uint64(atomic.LoadInt64(&l.committed))
		}
		_, _ = l.svc.Candidates(ctx, &pb.CandidatesRequest{IncludeStakes: r.Intn(2) == 0, Height: hq})
	case "CoinInfoById":
		_, _ = l.svc.CoinInfoById(ctx, &pb.CoinIdRequest{Id: coin})
	case "SwapPool":
		if len(u.pools) > 0 {
			p := u.pools[r.Intn(len(u.pools))]
			_, _ = l.svc.SwapPool(ctx, &pb.SwapPoolRequest{Coin0: p[0], Coin1: p[1]})
		}
		_, _ = l.svc.SwapPool(ctx, &pb.SwapPoolRequest{Coin0: coin, Coin1: coin2})
	case "SwapPools":
		_, _ = l.svc.SwapPools(ctx, &pb.SwapPoolsRequest{Orders: r.Intn(2) == 0})
	case "LimitOrders":
		var ids []uint64
		for i := 0; i < 5; i++ {
			ids = append(ids, 1+uint64(r.Int63n(int64(u.maxOrder))))
		}
		_, _ = l.svc.LimitOrders(ctx, &pb.LimitOrdersRequest{Ids: ids})
	case "LimitOrdersOfPool":
		if len(u.pools) > 0 {
			p := u.pools[r.Intn(len(u.pools))]
			if r.Intn(2) == 0 {
				p[0], p[1] = p[1], p[0]
			}
			_, _ = l.svc.LimitOrdersOfPool(ctx, &pb.LimitOrdersOfPoolRequest{SellCoin: p[0], BuyCoin: p[1], Limit: int32(1 + r.Intn(20))})
		}
	case "BestTrade":
		t := pb.BestTradeRequest_input
		if r.Intn(2) == 0 {
			t = pb.BestTradeRequest_output
		}
		_, _ = l.svc.BestTrade(ctx, &pb.BestTradeRequest{SellCoin: coin, BuyCoin: coin2, Amount: Bip(int64(1 + r.Intn(1000))).String(), Type: t, MaxDepth: int32(1 + r.Intn(4))})
	case "EstimateCoinSell":
		_, _ = l.svc.EstimateCoinSell(ctx, &pb.EstimateCoinSellRequest{ValueToSell: Bip(int64(1 + r.Intn(100))).String(),
			Sell: &pb.EstimateCoinSellRequest_CoinIdToSell{CoinIdToSell: coin}, Buy: &pb.EstimateCoinSellRequest_CoinIdToBuy{CoinIdToBuy: coin2}, SwapFrom: pb.SwapFrom(r.Intn(3))})
	case "EstimateCoinBuy":
		_, _ = l.svc.EstimateCoinBuy(ctx, &pb.EstimateCoinBuyRequest{ValueToBuy: Bip(int64(1 + r.Intn(100))).String(),
			Sell: &pb.EstimateCoinBuyRequest_CoinIdToSell{CoinIdToSell: coin}, Buy: &pb.EstimateCoinBuyRequest_CoinIdToBuy{CoinIdToBuy: coin2}, SwapFrom: pb.SwapFrom(r.Intn(3))})
	case "EstimateCoinSellAll":
		_, _ = l.svc.EstimateCoinSellAll(ctx, &pb.EstimateCoinSellAllRequest{ValueToSell: Bip(int64(1 + r.Intn(100))).String(), GasPrice: 1,
			Sell: &pb.EstimateCoinSellAllRequest_CoinIdToSell{CoinIdToSell: coin}, Buy: &pb.EstimateCoinSellAllRequest_CoinIdToBuy{CoinIdToBuy: coin2}, SwapFrom: pb.SwapFrom(r.Intn(3))})
	case "Frozen":
		_, _ = l.svc.Frozen(ctx, &pb.FrozenRequest{Address: addr})
	case "WaitList":
		pk := ""
		if len(u.pubs) > 0 && r.Intn(2) == 0 {
			pk = u.pubs[r.Intn(len(u.pubs))]
		}
		_, _ = l.svc.WaitList(ctx, &pb.WaitListRequest{Address: addr, PublicKey: pk})
	case "Export":
		// the node never exports its LIVE state; tools export a state built from disk at a committed height
		// (the same path API queries with ?height=N take), concurrently with the running chain
		h := atomic.LoadInt64(&l.committed)
		if cs, err := l.s.N.App.GetStateForHeight(uint64(h)); err == nil && cs != nil && h > 0 {
			_ = cs.Export()
		}
	case "Accessors":
		cs := l.s.N.App.CurrentState()
		a := types.HexToAddress(addr)
		_ = cs.Accounts().GetBalance(a, types.CoinID(coin))
		_ = cs.Accounts().GetNonce(a)
		_ = cs.Accounts().GetLockStakeUntilBlock(a)
		_ = cs.Coins().GetCoin(types.CoinID(coin))
		_ = cs.Swap().SwapPoolExist(types.CoinID(coin), types.CoinID(coin2))
		_ = cs.Candidates().GetCandidates()
		_ = cs.App().GetTotalSlashed()
	}
	return ""
}

// goroutine dump analysis --------------------------------------------------------------------------

// c25BlockedIn returns the top repository frames of the goroutine running fn, if it is parked in a sync wait.
func c25BlockedIn(dump, marker string) (blocked bool, site string) {
	for _, g := range strings.Split(dump, "\n\n") {
		if !strings.Contains(g, marker) {
			continue
		}
		head := g
		if i := strings.Index(g, "\n"); i > 0 {
			head = g[:i]
		}
		if strings.Contains(head, "sync.") || strings.Contains(head, "semacquire") || strings.Contains(head, "sync.RWMutex") || strings.Contains(head, "sync.Mutex") || strings.Contains(head, "sync.Cond") || strings.Contains(head, "sync.WaitGroup") {
			return true, siteOf(g)
		}
		return false, siteOf(g)
	}
	return false, ""
}

// race report analysis -----------------------------------------------------------------------------

type raceAccess struct {
	write  bool
	frames []string
}

func (a raceAccess) side() string {
	for _, f := range a.frames {
		if strings.Contains(f, "c25Query") {
			return "query"
		}
	}
	for _, f := range a.frames {
		if strings.Contains(f, "(*Sim).RunBlock") || strings.Contains(f, "c25Exec") {
			return "exec"
		}
	}
	return "other"
}

func (a raceAccess) inMapRuntime() bool {
	return len(a.frames) > 0 && strings.HasPrefix(a.frames[0], "runtime.map")
}

// entry is the outermost node entry point of the access (API handler or ABCI call).
func (a raceAccess) entry() string {
	best := ""
	for _, f := range a.frames {
		if strings.Contains(f, "api/v2/service.(*Service).") || strings.Contains(f, "minter.(*Blockchain).") || strings.Contains(f, "state.(*CheckState).Export") {
			best = f
		}
	}
	if i := strings.LastIndex(best, "/"); i >= 0 {
		best = best[i+1:]
	}
	return best
}

func (a raceAccess) top() string {
	for _, f := range a.frames {
		if strings.Contains(f, "MinterTeam/minter-go-node/") {
			if i := strings.LastIndex(f, "/"); i >= 0 {
				return f[i+1:]
			}
			return f
		}
	}
	if len(a.frames) > 0 {
		return a.frames[0]
	}
	return "?"
}

// ParseRaceLog splits a Go race detector log into reports of two accesses each.
func ParseRaceLog(text string) [][2]raceAccess {
	var out [][2]raceAccess
	for _, blk := range strings.Split(text, "==================") {
		if !strings.Contains(blk, "WARNING: DATA RACE") {
			continue
		}
		var accs []raceAccess
		var cur *raceAccess
		for _, ln := range strings.Split(blk, "\n") {
			t := strings.TrimSpace(ln)
			switch {
			case strings.HasPrefix(t, "Write at") || strings.HasPrefix(t, "Previous write at") || strings.HasPrefix(t, "Read at") || strings.HasPrefix(t, "Previous read at"):
				accs = append(accs, raceAccess{write: strings.Contains(strings.ToLower(t), "write at")})
				cur = &accs[len(accs)-1]
			case strings.HasPrefix(t, "Goroutine ") || t == "":
				if strings.HasPrefix(t, "Goroutine ") {
					cur = nil
				}
			case cur != nil && !strings.HasPrefix(t, "/") && strings.Contains(t, "("):
				fn := t
				if i := strings.LastIndex(fn, "("); i > 0 {
					fn = fn[:i]
				}
				cur.frames = append(cur.frames, fn)
			}
		}
		if len(accs) >= 2 {
			out = append(out, [2]raceAccess{accs[0], accs[1]})
		}
	}
	return out
}

func c25JudgeRaces(ctx *WorkCtx, idx int, text string, seen map[string]bool) {
	for _, rp := range ParseRaceLog(text) {
		a, b := rp[0], rp[1]
		sa, sb := a.side(), b.side()
		pair := []string{sa + ":" + a.entry() + ">" + a.top(), sb + ":" + b.entry() + ">" + b.top()}
		sort.Strings(pair)
		key := strings.Join(pair, " <> ")
		if seen[key] {
			continue
		}
		seen[key] = true
		ctx.Res.Count("race_reports_distinct", 1)
		mapRt := a.inMapRuntime() || b.inMapRuntime()
		var rule string
		switch {
		case (sa == "query" && sb == "exec") || (sa == "exec" && sb == "query"):
			q := a
			if sb == "query" {
				q = b
			}
			switch {
			case mapRt:
				rule = "race-map-access-query-vs-execution" // without the detector: fatal error: concurrent map read and map write
			case q.write:
				rule = "race-query-writes-state-execution-uses"
			default:
				ctx.Res.Seen("stale-read race: " + key)
				ctx.Res.Count("stale_read_races", 1)
			}
		case sa == "query" && sb == "query":
			if mapRt && (a.write || b.write) {
				rule = "race-map-access-query-vs-query" // two API calls can crash the process
			} else {
				ctx.Res.Count("query_query_races", 1)
				ctx.Res.Seen("query-query race: " + key)
			}
		default:
			ctx.Res.Count("other_races", 1)
		}
		if rule != "" {
			path := ctx.ReplayPath(idx, len(ctx.Res.Violations))
			_ = os.WriteFile(path+".race.txt", []byte(text), 0o644)
			ctx.Res.Violations = append(ctx.Res.Violations, ReportedViol{Violation: Violation{Property: "C25", Rule: rule, Site: key, TxIndex: -1,
				Detail: fmt.Sprintf("race detector report: %s (write=%v) vs %s (write=%v)", a.top(), a.write, b.top(), b.write)}, Replay: path + ".race.txt"})
		}
	}
}

// the case runner ------------------------------------------------------------------------------------

func c25Run(ctx *WorkCtx, idx int, race bool) {
	r := Rng(ctx.Seed, "C25", idx)
	if !race {
		runtime.GOMAXPROCS([]int{2, 8, 16}[idx%3])
	}
	blocks := 60
	if race {
		blocks = 15
	}
	sc := StdScenario(idx, r, blocks)
	sc.Spec.Orders = 4 + r.Intn(8)
	if idx%2 == 1 {
		// state store with the write latency of a disk (1-3 ms per batch): the commit, and with it the time between the
		// modules' commits and the switch to the new tree version, lasts long enough for concurrent readers to run inside it
		sc.Opts.Wrap = SlowWrap(time.Duration(1+r.Intn(3)) * time.Millisecond)
		ctx.Res.Seen("state store with disk-like write latency")
	}
	shadow := &MonShadow{Prop: "C25", Rule: "execution-differs-under-query-load", Res: ctx.Res}
	s, d := sc.Build("C25", ctx.Seed, idx, r, shadow)
	d.MaxTxs = 10
	d.G.PInvalid, d.G.PBound = 0.1, 0.15
	for _, t := range []byte{0x22, 0x23, 0x24, 0x17, 0x18, 0x07, 0x08, 0x15, 0x16, 0x05, 0x1e} {
		d.G.SetWeight(TxT(t), 25)
	}
	load := &c25Load{s: s, overlap: map[string]int64{}, calls: map[string]int64{}, panics: map[string]int64{}}
	load.phase.Store("idle")
	load.svc = service.NewService(s.N.App, nil, nil, s.N.Cfg, "verif", s.N.App.RewardCounter())
	atomic.StoreInt64(&load.committed, s.H)
	s.Phase = func(p string) {
		load.phase.Store(p)
		if p == "idle" {
			atomic.StoreInt64(&load.committed, s.CurReq.Height)
		}
	}
	u := c25BuildUniverse(s)
	nq := 8 + r.Intn(17)
	if race {
		nq = 4 + r.Intn(5)
	}
	for q := 0; q < nq; q++ {
		load.wg.Add(1)
		go c25QueryLoop(load, Rng(ctx.Seed, "C25q", idx*100+q), u)
	}
	load.wg.Add(1)
	go c25CommitBurst(load, Rng(ctx.Seed, "C25burst", idx), u)
	if c25Hook != nil {
		c25Hook(load, u)
	}
	if idx%2 == 0 {
		// a reader placed deterministically INSIDE every commit of the observed instance (hook tree.VerifInCommit: all modules have
		// written their changes, the new version is not readable yet): walks the order books of all pools and issues a batch of the
		// other queries. Whatever such a reader loads into the shared caches must not change what the next blocks execute.
		hr := Rng(ctx.Seed, "C25incommit", idx)
		tree.VerifInCommit = func() {
			if p, _ := load.phase.Load().(string); p != "commit" {
				return // a commit of the undisturbed shadow instance
			}
			bg := context.Background()
			for _, pl := range u.pools {
				for k := 0; k < 2; k++ {
					func() {
						defer func() { recover() }()
						_, _ = load.svc.LimitOrdersOfPool(bg, &pb.LimitOrdersOfPoolRequest{SellCoin: pl[k], BuyCoin: pl[1-k], Limit: 50})
					}()
				}
			}
			for k := 0; k < 24; k++ {
				kind := c25Kinds[hr.Intn(len(c25Kinds))]
				if kind == "Export" {
					continue
				}
				_ = c25QueryOnce(load, hr, u, kind)
			}
			load.mu.Lock()
			load.calls["reader inside the commit window"]++
			load.overlap["reader inside the commit window x commit"]++
			load.mu.Unlock()
		}
		defer func() { tree.VerifInCommit = nil }()
	}
	done := make(chan struct{})
	go c25Exec(d, sc.Blocks, done)
	hang := false
	select {
	case <-done:
	case <-time.After(map[bool]time.Duration{false: 5 * time.Minute, true: 12 * time.Minute}[race]): // generous wall-clock watchdog: it only triggers taking the dump
		hang = true
	}
	atomic.StoreInt32(&load.stop, 1)
	if !hang {
		load.wg.Wait()
	} else {
		// let every goroutine that can still run finish, then look at what is left
		for i := 0; i < 100 && atomic.LoadInt32(&load.running) > 0; i++ {
			time.Sleep(100 * time.Millisecond)
		}
		buf := make([]byte, 1<<24)
		buf = buf[:runtime.Stack(buf, true)]
		dump := string(buf)
		blocked, site := c25BlockedIn(dump, "c25Exec")
		path := ctx.ReplayPath(idx, 0) + ".goroutines.txt"
		_ = os.WriteFile(path, buf, 0o644)
		if blocked {
			ctx.Res.Violations = append(ctx.Res.Violations, ReportedViol{Violation: Violation{Property: "C25", Rule: "execution-blocked-forever", Site: site, TxIndex: -1, Height: s.H,
				Detail: fmt.Sprintf("block execution is parked in a sync wait with %d query goroutines still unable to finish after the load was stopped", atomic.LoadInt32(&load.running))}, Replay: path})
		} else {
			ctx.Res.Inconcl = append(ctx.Res.Inconcl, fmt.Sprintf("case %d: execution did not finish in time but is not parked in a sync wait (%s)", idx, site))
		}
		// this process cannot be reused: report what we have and leave
		load.mu.Lock()
		for k, v := range load.panics {
			if !strings.Contains(k, "Value missing for hash") {
				ctx.Res.Count("handler_panic_before_hang/"+k, v)
			}
		}
		load.mu.Unlock()
		ctx.Collect(s, idx)
		return
	}
	ctx.Res.Evaluations += s.H - s.W.InitialHeight + 1
	ctx.Res.Count("blocks_under_load", s.H-s.W.InitialHeight+1)
	var tot int64
	for k, v := range load.calls {
		ctx.Res.Count("queries/"+k, v)
		tot += v
	}
	ctx.Res.Count("queries_total", tot)
	for k := range load.overlap {
		ctx.Res.Seen("overlap " + k)
	}
	for k, v := range load.panics {
		ctx.Res.Count("recovered_handler_panics", v)
		if !strings.Contains(k, "Value missing for hash") {
			ctx.Res.Count("handler_panic/"+k, v)
		}
		if len(ctx.Res.Notes) < 20 {
			ctx.Res.Notes = append(ctx.Res.Notes, "recovered handler panic (not judged): "+k)
		}
	}
	if race {
		// reports are written to GORACE log_path files as they happen
		seen := map[string]bool{}
		files, _ := filepath.Glob(filepath.Join(os.Getenv("VERIF_TMP"), "race.*"))
		for _, f := range files {
			if bz, err := os.ReadFile(f); err == nil {
				ctx.Res.Count("race_report_blocks", int64(strings.Count(string(bz), "WARNING: DATA RACE")))
				c25JudgeRaces(ctx, idx, string(bz), seen)
				_ = os.Truncate(f, 0)
			}
		}
	}
	ctx.Collect(s, idx)
	s.Finish()
}

// c25Exec is the block execution goroutine (its name is what the hang detector and the race classifier look for).
func c25Exec(d *Driver, blocks int, done chan struct{}) {
	for i := 0; i < blocks && !d.S.Dead && !d.S.Stopped; i++ {
		// most blocks contain one deep trade (7-30 % of a reserve) through a pool that has limit orders: execution then depends
		// on the whole order book of that pool, not only on its best order (lead: added when stale order lists left behind by
		// readers during Commit turned out to change results only for trades reaching beyond the first orders)
		if ps := d.S.Post.Pools; len(ps) > 0 && d.R.Intn(10) < 6 {
			var with []int
			for k := range ps {
				if len(ps[k].Orders) > 0 {
					with = append(with, k)
				}
			}
			if len(with) > 0 {
				p := ps[with[d.R.Intn(len(with))]]
				from, to, res := types.CoinID(p.Coin0), types.CoinID(p.Coin1), BI(p.Reserve0)
				if d.R.Intn(2) == 0 {
					from, to, res = to, from, BI(p.Reserve1)
				}
				d.G.aim = &aimedTrade{route: []types.CoinID{from, to}, amount: res.Div(res, big.NewInt(int64(3+d.R.Intn(12))))}
			}
		}
		d.Block()
	}
	close(done)
}

func c25Death(total *WorkerResult, from, to, code int, tail, logf string) {
	keep := filepath.Join(os.Getenv("VERIF_DIR"), "replays", fmt.Sprintf("C25-died-%d.log", from))
	if os.Getenv("VERIF_DIR") == "" {
		keep = filepath.Join("/verif/replays", fmt.Sprintf("C25-died-%d.log", from))
	}
	_ = os.MkdirAll(filepath.Dir(keep), 0o755)
	_ = os.WriteFile(keep, []byte(TailFile(logf, 200000)), 0o644)
	total.Violations = append(total.Violations, ReportedViol{Violation: Violation{Property: "C25", Rule: "process-died-under-query-load", Site: FatalSite(TailFile(logf, 200000)), TxIndex: -1,
		Detail: fmt.Sprintf("worker for cases %d..%d exited with %d; %s", from, to, code, LastCase(logf))}, Replay: keep})
}

func init() {
	Register(&CheckDef{ID: "C25race", Level: "exploration", Quick: 8, Thorough: 80, Binary: "vchk.race", Batch: 1, WatchdogS: 1500,
		Env:          []string{"GORACE=halt_on_error=0 exitcode=0 log_path={TMP}/race"},
		Run:          func(ctx *WorkCtx, idx int) { c25Run(ctx, idx, true) },
		OnChildDeath: c25Death})
	Register(&CheckDef{ID: "C25plain", Level: "exploration", Quick: 28, Thorough: 280, Batch: 2, WatchdogS: 1500,
		Run:          func(ctx *WorkCtx, idx int) { c25Run(ctx, idx+1000, false) },
		OnChildDeath: c25Death})
	Register(&CheckDef{
		ID: "C25", Level: "exploration", Parts: []string{"C25race", "C25plain"},
		Rule:        "one case = one generated history (pool creation, orders added/filled/cancelled, delegations, stake recalculation, coin creation, commits) executed on one goroutine while 6-24 goroutines issue read-only API queries (17 kinds: Address(es), Candidate(s), CoinInfo, SwapPool(s), LimitOrders, LimitOrdersOfPool, BestTrade route search, the three estimates, Frozen, WaitList, Export, raw accessors) on the live state, handler panics recovered as grpc_recovery does; two builds: -race (reports parsed, de-duplicated by entry-point/top-function pair and classified: a race between a query and execution inside the runtime's map routines or with the query as writer, or a map write race between two queries, is a violation; stale scalar reads are counted only) and plain at GOMAXPROCS 2/8/16 (real fatal errors kill the supervised child = violation; execution parked forever in a sync wait, decided from a goroutine dump, = violation); every block is re-executed by an undisturbed shadow instance and must give identical responses and app hash; one evaluation = one block executed under query load; distinct = (query kind x execution phase) overlaps actually observed plus distinct race pairs",
		Assumptions: []string{"races need both accesses to occur in one run; pairs never co-scheduled stay unseen", "a wrong or panicking API answer is outside the property and only counted"},
		MinEval:     400, MinDistinct: 40,
	})
}

// repoFrames returns the first n frames of the repository below the panic in a stack dump.
func repoFrames(stack string, n int) string {
	var out []string
	past := false
	for _, ln := range strings.Split(stack, "\n") {
		if strings.HasPrefix(ln, "panic(") {
			past = true
			continue
		}
		if !past || strings.HasPrefix(ln, "\t") {
			continue
		}
		if i := strings.Index(ln, "minter-go-node/"); i >= 0 {
			f := ln[i+len("minter-go-node/"):]
			if j := strings.LastIndex(f, "("); j > 0 {
				f = f[:j]
			}
			out = append(out, f)
			if len(out) == n {
				break
			}
		}
	}
	return strings.Join(out, "<-")
}

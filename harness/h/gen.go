package h

import (
	"encoding/hex"
	"fmt"
	"math/big"
	"math/rand"
	"sort"

	"github.com/MinterTeam/minter-go-node/coreV2/state"
	tx "github.com/MinterTeam/minter-go-node/coreV2/transaction"
	"github.com/MinterTeam/minter-go-node/coreV2/types"
)

// AllTxTypes lists the 38 transaction types.
var AllTxTypes = []tx.TxType{
	tx.TypeSend, tx.TypeSellCoin, tx.TypeSellAllCoin, tx.TypeBuyCoin, tx.TypeCreateCoin, tx.TypeDeclareCandidacy, tx.TypeDelegate,
	tx.TypeUnbond, tx.TypeRedeemCheck, tx.TypeSetCandidateOnline, tx.TypeSetCandidateOffline, tx.TypeCreateMultisig, tx.TypeMultisend,
	tx.TypeEditCandidate, tx.TypeSetHaltBlock, tx.TypeRecreateCoin, tx.TypeEditCoinOwner, tx.TypeEditMultisig, tx.TypePriceVote,
	tx.TypeEditCandidatePublicKey, tx.TypeAddLiquidity, tx.TypeRemoveLiquidity, tx.TypeSellSwapPool, tx.TypeBuySwapPool,
	tx.TypeSellAllSwapPool, tx.TypeEditCandidateCommission, tx.TypeMoveStake, tx.TypeMintToken, tx.TypeBurnToken, tx.TypeCreateToken,
	tx.TypeRecreateToken, tx.TypeVoteCommission, tx.TypeVoteUpdate, tx.TypeCreateSwapPool, tx.TypeAddLimitOrder,
	tx.TypeRemoveLimitOrder, tx.TypeLockStake, tx.TypeLock,
}

// IssuedCheck is a check the harness signed.
type IssuedCheck struct {
	Raw      []byte
	Spec     CheckSpec
	Password string
	Redeemed bool // harness saw an accepted redemption
}

// TxGen is the state-aware transaction generator.
type TxGen struct {
	S        *Sim
	R        *rand.Rand
	Weights  map[tx.TxType]int
	PInvalid float64 // probability of an intentionally invalid variant
	PBound   float64 // probability of a boundary variant
	PMsig    float64 // probability that a multisig account sends
	PGasCustom float64
	Checks   []*IssuedCheck
	symN     int
	valN     int
	msigN    int
	wsum     int
	wlist    []tx.TxType
	// addresses the generator can sign for
	keys  map[types.Address]*Key
	msigs map[types.Address]*MultisigAcc
	// if set, votes (halt/update/commission) are generated; off by default (they may stop the node)
	AllowGovernance bool
	AllowHalt       bool
	MaxGasPrice     uint32
	pendingMsig     *MultisigAcc
	pendingEdit     *MultisigAcc
	aim             *aimedTrade // a taker trade aimed at the order just placed (dust-remainder scenario)
}

type aimedTrade struct {
	route  []types.CoinID
	amount *big.Int
}

// Learn lets the generator learn from an accepted transaction (new multisig addresses etc.).
func (g *TxGen) Learn(meta *TxMeta, code uint32, tags map[string]string) {
	switch tx.TxType(meta.Type) {
	case tx.TypeCreateMultisig:
		if code == 0 && g.pendingMsig != nil && meta.Note == "create-msig" {
			if hx, ok := tags["tx.created_multisig"]; ok {
				bz, _ := hex.DecodeString(hx)
				m := g.pendingMsig
				copy(m.Addr[:], bz)
				if _, dup := g.msigs[m.Addr]; !dup {
					g.msigs[m.Addr] = m
					g.S.W.Multisigs = append(g.S.W.Multisigs, m)
				}
			}
		}
		g.pendingMsig = nil
	case tx.TypeEditMultisig:
		if code == 0 && g.pendingEdit != nil && meta.Note == "edit-msig" {
			if m, ok := g.msigs[g.pendingEdit.Addr]; ok {
				m.Owners, m.Weights, m.Threshold = g.pendingEdit.Owners, g.pendingEdit.Weights, g.pendingEdit.Threshold
			}
		}
		g.pendingEdit = nil
	}
}

// NewTxGen makes a generator with default weights.
func NewTxGen(s *Sim, r *rand.Rand) *TxGen {
	g := &TxGen{S: s, R: r, Weights: map[tx.TxType]int{}, PInvalid: 0.2, PBound: 0.2, PMsig: 0.1, PGasCustom: 0.3, keys: map[types.Address]*Key{}, msigs: map[types.Address]*MultisigAcc{}, MaxGasPrice: 3}
	for _, t := range AllTxTypes {
		g.Weights[t] = 10
	}
	g.Weights[tx.TypePriceVote] = 1
	g.Weights[tx.TypeSend] = 20
	g.Weights[tx.TypeSellSwapPool] = 20
	g.Weights[tx.TypeBuySwapPool] = 20
	g.Weights[tx.TypeAddLimitOrder] = 20
	g.Weights[tx.TypeSetHaltBlock] = 0
	g.Weights[tx.TypeVoteUpdate] = 0
	g.Weights[tx.TypeVoteCommission] = 0
	g.Weights[tx.TypeEditCandidatePublicKey] = 2
	for _, k := range s.W.Users {
		g.keys[k.Addr] = k
	}
	for _, m := range s.W.Multisigs {
		g.msigs[m.Addr] = m
	}
	return g
}

// SetWeight changes a type's weight.
func (g *TxGen) SetWeight(t tx.TxType, w int) { g.Weights[t] = w; g.wlist = nil }

func (g *TxGen) pickType() tx.TxType {
	if g.wlist == nil {
		g.wsum = 0
		for _, t := range AllTxTypes {
			g.wsum += g.Weights[t]
		}
		g.wlist = AllTxTypes
	}
	x := g.R.Intn(g.wsum)
	for _, t := range g.wlist {
		x -= g.Weights[t]
		if x < 0 {
			return t
		}
	}
	return tx.TypeSend
}

func (g *TxGen) cs() *state.CheckState { return g.S.N.App.CurrentState() }

func (g *TxGen) user() *Key { return g.S.W.Users[g.R.Intn(len(g.S.W.Users))] }

func (g *TxGen) bal(a types.Address, c types.CoinID) *big.Int {
	return g.cs().Accounts().GetBalance(a, c)
}

// exp returns the last post-commit export.
func (g *TxGen) exp() *types.AppState { return g.S.Post }

func (g *TxGen) coinIDs() []types.CoinID {
	out := []types.CoinID{0}
	for _, c := range g.exp().Coins {
		if len(c.Symbol.String()) > 0 && c.Symbol.String()[0] == 'F' && c.ID > 4 && c.ID < CoinUSDT {
			continue // filler
		}
		out = append(out, types.CoinID(c.ID))
	}
	return out
}

func (g *TxGen) coinInfo(id types.CoinID) *types.Coin {
	for i := range g.exp().Coins {
		if g.exp().Coins[i].ID == uint64(id) {
			return &g.exp().Coins[i]
		}
	}
	return nil
}

func (g *TxGen) bancorCoins() []types.CoinID {
	out := []types.CoinID{0}
	for _, c := range g.exp().Coins {
		if c.Crr > 0 {
			out = append(out, types.CoinID(c.ID))
		}
	}
	return out
}

func (g *TxGen) anyCoin() types.CoinID {
	cs := g.coinIDs()
	return cs[g.R.Intn(len(cs))]
}

// heldCoin picks a coin the address has a balance of.
func (g *TxGen) heldCoin(a types.Address) (types.CoinID, *big.Int) {
	cs := g.coinIDs()
	for try := 0; try < 6; try++ {
		c := cs[g.R.Intn(len(cs))]
		if b := g.bal(a, c); b.Sign() > 0 {
			return c, b
		}
	}
	return 0, g.bal(a, 0)
}

// amount picks an amount relative to balance b according to kind.
func (g *TxGen) amount(b *big.Int, kind string) *big.Int {
	switch kind {
	case "boundary":
		switch g.R.Intn(4) {
		case 0:
			return new(big.Int).Set(b)
		case 1:
			return new(big.Int).Add(b, big.NewInt(1))
		case 2:
			if b.Sign() > 0 {
				return new(big.Int).Sub(b, big.NewInt(1))
			}
			return big.NewInt(0)
		default:
			return big.NewInt(int64(g.R.Intn(2)))
		}
	case "invalid":
		switch g.R.Intn(3) {
		case 0:
			return new(big.Int).Add(new(big.Int).Mul(b, big.NewInt(2)), Bip(1))
		case 1:
			return big.NewInt(0)
		default:
			return new(big.Int).Exp(big.NewInt(10), big.NewInt(40), nil)
		}
	}
	if b.Sign() <= 0 {
		return big.NewInt(1)
	}
	// a small fraction of the balance: between 1/1000 and 1/5
	d := int64(5 + g.R.Intn(1000))
	v := new(big.Int).Div(b, big.NewInt(d))
	if v.Sign() == 0 {
		v.SetInt64(1)
	}
	return v
}

func (g *TxGen) kind() string {
	x := g.R.Float64()
	if x < g.PInvalid {
		return "invalid"
	}
	if x < g.PInvalid+g.PBound {
		return "boundary"
	}
	return "valid"
}

type pool struct{ c0, c1 types.CoinID }

func (g *TxGen) pools() []pool {
	var out []pool
	for _, p := range g.exp().Pools {
		out = append(out, pool{types.CoinID(p.Coin0), types.CoinID(p.Coin1)})
	}
	return out
}

// route finds a random simple route of n coins through existing pools.
func (g *TxGen) route(n int) []types.CoinID {
	ps := g.pools()
	if len(ps) == 0 {
		return nil
	}
	adj := map[types.CoinID][]types.CoinID{}
	for _, p := range ps {
		adj[p.c0] = append(adj[p.c0], p.c1)
		adj[p.c1] = append(adj[p.c1], p.c0)
	}
	var starts []types.CoinID
	for c := range adj {
		starts = append(starts, c)
	}
	sort.Slice(starts, func(i, j int) bool { return starts[i] < starts[j] })
	for try := 0; try < 10; try++ {
		cur := starts[g.R.Intn(len(starts))]
		path := []types.CoinID{cur}
		seen := map[types.CoinID]bool{cur: true}
		for len(path) < n {
			var opts []types.CoinID
			for _, nx := range adj[cur] {
				if !seen[nx] {
					opts = append(opts, nx)
				}
			}
			if len(opts) == 0 {
				break
			}
			cur = opts[g.R.Intn(len(opts))]
			seen[cur] = true
			path = append(path, cur)
		}
		if len(path) >= 2 && (len(path) == n || try > 5) {
			return path
		}
	}
	p := ps[g.R.Intn(len(ps))]
	return []types.CoinID{p.c0, p.c1}
}

type candInfo struct {
	pub            types.Pubkey
	owner, control types.Address
	status         uint64
	c              *types.Candidate
}

func (g *TxGen) cands() []candInfo {
	var out []candInfo
	for i := range g.exp().Candidates {
		c := &g.exp().Candidates[i]
		out = append(out, candInfo{c.PubKey, c.OwnerAddress, c.ControlAddress, c.Status, c})
	}
	return out
}

func (g *TxGen) cand() *candInfo {
	cs := g.cands()
	if len(cs) == 0 {
		return nil
	}
	return &cs[g.R.Intn(len(cs))]
}

// Senderish is either a key or a multisig.
type Senderish struct {
	K *Key
	M *MultisigAcc
}

// Addr returns the account address.
func (s Senderish) Addr() types.Address {
	if s.M != nil {
		return s.M.Addr
	}
	return s.K.Addr
}

func (g *TxGen) signerFor(a types.Address) (Senderish, bool) {
	if k, ok := g.keys[a]; ok {
		return Senderish{K: k}, true
	}
	if m, ok := g.msigs[a]; ok {
		return Senderish{M: m}, true
	}
	return Senderish{}, false
}

func (g *TxGen) randomSender() Senderish {
	if len(g.S.W.Multisigs) > 0 && g.R.Float64() < g.PMsig {
		return Senderish{M: g.S.W.Multisigs[g.R.Intn(len(g.S.W.Multisigs))]}
	}
	return Senderish{K: g.user()}
}

// draft is a generated transaction before envelope decisions.
type draft struct {
	t      tx.TxType
	data   interface{}
	sender *Senderish // forced sender (ownership), else random
	kind   string
	note   string
	gas    *types.CoinID // forced gas coin
	coin   *types.CoinID // the coin the transaction spends (boundary variants often pay the fee in it too)
	price1 bool          // force gas price 1
	payer  *types.Address
}

// Next generates one transaction. It never returns nil.
func (g *TxGen) Next() ([]byte, TxMeta) {
	if g.aim != nil {
		a := g.aim
		g.aim = nil
		// somebody who can afford it sells exactly the aimed amount into the fresh order
		for try := 0; try < 8; try++ {
			k := g.user()
			if g.bal(k.Addr, a.route[0]).Cmp(a.amount) > 0 {
				snd := Senderish{K: k}
				d := &draft{t: tx.TypeSellSwapPool, kind: "valid", note: "aimed-at-order", sender: &snd,
					data: tx.SellSwapPoolDataV260{Coins: a.route, ValueToSell: a.amount, MinimumValueToBuy: big.NewInt(1)}}
				return g.Envelope(d)
			}
		}
	}
	for {
		t := g.pickType()
		d := g.make(t)
		if d == nil {
			continue
		}
		return g.Envelope(d)
	}
}

// Make generates one transaction of a given type (nil if the state offers no subject).
func (g *TxGen) Make(t tx.TxType) ([]byte, TxMeta, bool) {
	d := g.make(t)
	if d == nil {
		return nil, TxMeta{}, false
	}
	b, m := g.Envelope(d)
	return b, m, true
}

// Envelope wraps a draft: sender, nonce, gas coin, gas price, payload, signatures.
func (g *TxGen) Envelope(d *draft) ([]byte, TxMeta) {
	snd := g.randomSender()
	if d.sender != nil {
		snd = *d.sender
	}
	addr := snd.Addr()
	nonce := g.S.Next[addr]
	if nonce == 0 {
		nonce = g.cs().Accounts().GetNonce(addr) + 1
	}
	kind := d.kind
	spec := &TxSpec{Nonce: nonce, ChainID: types.CurrentChainID, GasPrice: 1, GasCoin: 0, Type: d.t, Data: d.data, Signer: snd.K, Multisig: snd.M}
	if g.MaxGasPrice > 1 && g.R.Intn(4) == 0 {
		spec.GasPrice = 1 + uint32(g.R.Intn(int(g.MaxGasPrice)))
	}
	if g.R.Float64() < g.PGasCustom {
		// a coin the sender holds, or any coin
		if g.R.Intn(3) == 0 {
			spec.GasCoin = g.anyCoin()
		} else {
			spec.GasCoin, _ = g.heldCoin(addr)
		}
	}
	if d.coin != nil && d.kind == "boundary" && g.R.Intn(2) == 0 {
		spec.GasCoin = *d.coin // amount at the balance boundary AND the fee in the same coin
	}
	if d.gas != nil {
		spec.GasCoin = *d.gas
	}
	if d.price1 {
		spec.GasPrice = 1
	}
	switch g.R.Intn(10) {
	case 0:
		spec.Payload = make([]byte, g.R.Intn(40))
		g.R.Read(spec.Payload)
	case 1:
		spec.ServiceData = make([]byte, g.R.Intn(20))
		g.R.Read(spec.ServiceData)
	case 2:
		spec.Payload = make([]byte, []int{1, 999, 1000, 1024, 5000}[g.R.Intn(5)])
	}
	// envelope-level invalid variants
	if kind == "valid" && g.R.Float64() < 0.04 {
		switch g.R.Intn(6) {
		case 0:
			spec.Nonce = nonce + 1
			kind = "invalid:nonce+1"
		case 1:
			if nonce > 1 {
				spec.Nonce = nonce - 1
				kind = "invalid:nonce-1"
			}
		case 2:
			if types.CurrentChainID == types.ChainTestnet {
				spec.ChainID = types.ChainMainnet
			} else {
				spec.ChainID = types.ChainTestnet
			}
			kind = "invalid:chainid"
		case 3:
			spec.GasCoin = types.CoinID(900000 + g.R.Intn(100))
			kind = "invalid:gascoin"
		case 4:
			if snd.M != nil && len(snd.M.Owners) > 1 {
				spec.Signers = snd.M.Owners[:1]
				kind = "msig:subset"
			} else if snd.K != nil {
				// signed by somebody else's key but claiming nothing: just another sender; keep valid
			}
		case 5:
			if snd.M != nil {
				spec.Signers = []*Key{snd.M.Owners[0], snd.M.Owners[0]}
				kind = "invalid:msig-dup"
			}
		}
	}
	bz := spec.Encode()
	meta := TxMeta{Type: byte(d.t), Sender: hex.EncodeToString(addr[:]), Nonce: spec.Nonce, GasCoin: uint32(spec.GasCoin), GasPrice: spec.GasPrice,
		Kind: kind, Note: d.note, PayLen: len(spec.Payload) + len(spec.ServiceData), Msig: snd.M != nil, Chain: byte(spec.ChainID)}
	if d.payer != nil {
		meta.Payer = hex.EncodeToString(d.payer[:])
	}
	return bz, meta
}

func (g *TxGen) newSymbol() types.CoinSymbol {
	g.symN++
	return types.StrToCoinSymbol(fmt.Sprintf("G%dX%d", g.S.Hist.Index%1000, g.symN))
}

func (g *TxGen) make(t tx.TxType) *draft {
	R := g.R
	kind := g.kind()
	d := &draft{t: t, kind: kind}
	snd := g.randomSender()
	d.sender = &snd
	a := snd.Addr()
	switch t {
	case tx.TypeSend:
		c, b := g.heldCoin(a)
		to := g.user().Addr
		if R.Intn(10) == 0 {
			R.Read(to[:])
		}
		d.data = tx.SendData{Coin: c, To: to, Value: g.amount(b, kind)}
		d.coin = &c
	case tx.TypeMultisend:
		n := 1 + R.Intn(5)
		if kind == "invalid" && R.Intn(3) == 0 {
			n = 0
		}
		var items []tx.MultisendDataItem
		for i := 0; i < n; i++ {
			c, b := g.heldCoin(a)
			v := g.amount(b, "valid")
			if i == n-1 && kind != "valid" {
				v = g.amount(b, kind)
			}
			items = append(items, tx.MultisendDataItem{Coin: c, To: g.user().Addr, Value: v})
		}
		d.data = tx.MultisendData{List: items}
	case tx.TypeSellCoin, tx.TypeBuyCoin, tx.TypeSellAllCoin:
		bc := g.bancorCoins()
		if len(bc) < 2 {
			return nil
		}
		from := bc[R.Intn(len(bc))]
		to := bc[R.Intn(len(bc))]
		if from == to && kind != "invalid" {
			to = bc[(R.Intn(len(bc)-1)+1+indexOf(bc, from))%len(bc)]
		}
		if kind == "invalid" && R.Intn(3) == 0 {
			to = g.anyCoin() // maybe a token without reserve
		}
		b := g.bal(a, from)
		switch t {
		case tx.TypeSellCoin:
			d.data = tx.SellCoinData{CoinToSell: from, ValueToSell: g.amount(b, kind), CoinToBuy: to, MinimumValueToBuy: g.limit(false)}
		case tx.TypeSellAllCoin:
			d.data = tx.SellAllCoinData{CoinToSell: from, CoinToBuy: to, MinimumValueToBuy: g.limit(false)}
		default:
			// buy a small amount of `to`
			want := g.amount(Bip(int64(1+R.Intn(2000))), "valid")
			if kind == "invalid" {
				want = g.amount(Bip(1), "invalid")
			}
			if ci := g.coinInfo(to); ci != nil && to != 0 && R.Intn(4) == 0 {
				// around the head-room below the maximum supply: exactly to the maximum, one unit and more beyond it
				room := new(big.Int).Sub(BI(ci.MaxSupply), BI(ci.Volume))
				if room.Sign() >= 0 {
					want = []*big.Int{new(big.Int).Set(room), new(big.Int).Add(room, big.NewInt(1)), new(big.Int).Add(room, Bip(1)), new(big.Int).Mul(room, big.NewInt(2)),
						new(big.Int).Add(room, new(big.Int).Div(room, big.NewInt(int64(2+R.Intn(50)))))}[R.Intn(5)]
					if want.Sign() == 0 {
						want.SetInt64(1)
					}
					d.note = "buy-around-max-supply"
				}
			}
			d.data = tx.BuyCoinData{CoinToBuy: to, ValueToBuy: want, CoinToSell: from, MaximumValueToSell: g.limit(true)}
		}
	case tx.TypeCreateCoin, tx.TypeRecreateCoin:
		sym := g.newSymbol()
		if t == tx.TypeRecreateCoin {
			ci := g.ownedCoin(true, kind == "invalid")
			if ci == nil {
				return nil
			}
			sym = ci.Symbol
			if ci.OwnerAddress != nil && kind != "invalid" {
				if s, ok := g.signerFor(*ci.OwnerAddress); ok {
					d.sender = &s
				}
			}
		} else if kind == "invalid" && R.Intn(2) == 0 {
			sym = types.StrToCoinSymbol("COINA")
		}
		amt := Bip(int64(1 + R.Intn(1000000)))
		res := Bip(int64(10000 + R.Intn(20000)))
		crr := uint32(10 + R.Intn(91))
		max := new(big.Int).Add(amt, Bip(int64(R.Intn(1000000))))
		if kind == "invalid" {
			switch R.Intn(4) {
			case 0:
				crr = uint32(R.Intn(10))
			case 1:
				res = Bip(int64(R.Intn(10000)))
			case 2:
				max = new(big.Int).Sub(amt, big.NewInt(1))
			case 3:
				crr = 101 + uint32(R.Intn(100))
			}
		} else if kind == "boundary" {
			switch R.Intn(4) {
			case 0:
				crr = 10
			case 1:
				crr = 100
			case 2:
				res = Bip(10000)
			case 3:
				max = new(big.Int).Set(amt)
			}
		}
		if t == tx.TypeCreateCoin {
			d.data = tx.CreateCoinData{Name: "gen coin", Symbol: sym, InitialAmount: amt, InitialReserve: res, ConstantReserveRatio: crr, MaxSupply: max}
		} else {
			d.data = tx.RecreateCoinData{Name: "gen coin r", Symbol: sym, InitialAmount: amt, InitialReserve: res, ConstantReserveRatio: crr, MaxSupply: max}
		}
	case tx.TypeCreateToken, tx.TypeRecreateToken:
		sym := g.newSymbol()
		if t == tx.TypeRecreateToken {
			ci := g.ownedCoin(true, kind == "invalid")
			if ci == nil {
				return nil
			}
			sym = ci.Symbol
			if ci.OwnerAddress != nil && kind != "invalid" {
				if s, ok := g.signerFor(*ci.OwnerAddress); ok {
					d.sender = &s
				}
			}
		}
		amt := Bip(int64(1 + R.Intn(1000000)))
		max := new(big.Int).Add(amt, Bip(int64(R.Intn(1000000))))
		if kind == "invalid" && R.Intn(2) == 0 {
			max = new(big.Int).Sub(amt, big.NewInt(1))
		}
		if kind == "boundary" {
			max = new(big.Int).Set(amt)
		}
		if t == tx.TypeCreateToken {
			d.data = tx.CreateTokenData{Name: "gen token", Symbol: sym, InitialAmount: amt, MaxSupply: max, Mintable: R.Intn(2) == 0, Burnable: R.Intn(2) == 0}
		} else {
			d.data = tx.RecreateTokenData{Name: "gen token r", Symbol: sym, InitialAmount: amt, MaxSupply: max, Mintable: R.Intn(2) == 0, Burnable: R.Intn(2) == 0}
		}
	case tx.TypeEditCoinOwner:
		ci := g.ownedCoin(true, kind == "invalid")
		if ci == nil {
			return nil
		}
		if ci.OwnerAddress != nil && kind != "invalid" {
			if s, ok := g.signerFor(*ci.OwnerAddress); ok {
				d.sender = &s
			}
		}
		d.data = tx.EditCoinOwnerData{Symbol: ci.Symbol, NewOwner: g.user().Addr}
	case tx.TypeMintToken, tx.TypeBurnToken:
		ci := g.ownedCoin(false, kind == "invalid")
		if ci == nil {
			return nil
		}
		if ci.OwnerAddress != nil && kind != "invalid" && t == tx.TypeMintToken {
			if s, ok := g.signerFor(*ci.OwnerAddress); ok {
				d.sender = &s
			}
		}
		v := Bip(int64(1 + R.Intn(10000)))
		if kind == "boundary" {
			if t == tx.TypeMintToken {
				v = new(big.Int).Sub(BI(ci.MaxSupply), BI(ci.Volume))
				if R.Intn(2) == 0 {
					v.Add(v, big.NewInt(1))
				}
			} else {
				v = g.amount(g.bal(d.sender.Addr(), types.CoinID(ci.ID)), "boundary")
			}
		}
		if t == tx.TypeMintToken {
			d.data = tx.MintTokenData{Coin: types.CoinID(ci.ID), Value: v}
		} else {
			d.data = tx.BurnTokenDataV260{Coin: types.CoinID(ci.ID), Value: v}
			bc := types.CoinID(ci.ID)
			d.coin = &bc
		}
	case tx.TypeDeclareCandidacy:
		g.valN++
		vk := NewValKey(fmt.Sprintf("n%d-", g.S.Hist.Index), g.valN)
		if kind == "invalid" && R.Intn(2) == 0 {
			if c := g.cand(); c != nil {
				vk.Pub = c.pub
			}
		}
		if snd.K == nil {
			snd = Senderish{K: g.user()}
			d.sender = &snd
			a = snd.Addr()
		}
		coin := types.CoinID(0)
		if R.Intn(4) == 0 {
			bc := g.bancorCoins()
			coin = bc[R.Intn(len(bc))]
		}
		comm := uint32(R.Intn(101))
		if kind == "invalid" && R.Intn(2) == 0 {
			comm = 101 + uint32(R.Intn(1000))
		}
		b := g.bal(a, coin)
		stake := g.amount(b, kind)
		if kind == "valid" && coin == 0 {
			stake = Bip(int64(1000 + R.Intn(200000)))
			if R.Intn(2) == 0 {
				stake = Bip(int64(1000 + 100*R.Intn(3))) // ties with other small candidates
			}
		}
		d.data = tx.DeclareCandidacyData{Address: g.user().Addr, PubKey: vk.Pub, Commission: comm, Coin: coin, Stake: stake}
		g.S.W.ValOwner[vk.Pub] = snd.K
		d.note = "declare"
	case tx.TypeDelegate:
		c := g.cand()
		if c == nil {
			return nil
		}
		pub := c.pub
		if kind == "invalid" && R.Intn(2) == 0 {
			R.Read(pub[:])
		}
		bc := g.bancorCoins()
		coin := bc[R.Intn(len(bc))]
		if kind == "invalid" && R.Intn(3) == 0 {
			coin = g.anyCoin()
		}
		d.data = tx.DelegateDataV260{PubKey: pub, Coin: coin, Value: g.amount(g.bal(a, coin), kind)}
		d.coin = &coin
	case tx.TypeUnbond, tx.TypeMoveStake:
		// pick an existing stake or waitlist entry
		st := g.pickStake()
		if st == nil {
			return nil
		}
		if R.Intn(4) == 0 {
			// prefer an owner that sits in the waitlist AND holds a stake of the same candidate and coin
			e := g.exp()
			pubByID := map[uint64]types.Pubkey{}
			for _, c := range e.Candidates {
				pubByID[c.ID] = c.PubKey
			}
			var tw []stakeRef
			for _, w := range e.Waitlist {
				if _, ok := g.signerFor(w.Owner); !ok {
					continue
				}
				ref := stakeRef{pubByID[w.CandidateID], w.Owner, types.CoinID(w.Coin), BI(w.Value), true}
				if _, _, ok := g.twinOf(&ref); ok {
					tw = append(tw, ref)
				}
			}
			if len(tw) > 0 {
				st = &tw[R.Intn(len(tw))]
			}
		}
		if kind != "invalid" {
			if s, ok := g.signerFor(st.owner); ok {
				d.sender = &s
			}
		}
		v := g.amount(st.value, kind)
		if kind == "valid" && R.Intn(3) == 0 {
			v = new(big.Int).Set(st.value)
		}
		if w, sv, ok := g.twinOf(st); ok && R.Intn(2) == 0 {
			// the owner holds a waitlist entry (w) AND a stake (sv) of this candidate and coin: values around the two and their sum
			// (lead: added after seed C02-m3)
			sum := new(big.Int).Add(w, sv)
			mx := w
			if sv.Cmp(mx) > 0 {
				mx = sv
			}
			v = []*big.Int{new(big.Int).Add(w, big.NewInt(1)), new(big.Int).Add(sv, big.NewInt(1)), new(big.Int).Add(mx, big.NewInt(1)), sum,
				new(big.Int).Sub(sum, big.NewInt(1)), new(big.Int).Add(sum, big.NewInt(1))}[R.Intn(6)]
			d.note = "unbond-across-waitlist-and-stake"
		}
		if t == tx.TypeUnbond {
			d.data = tx.UnbondDataV3{PubKey: st.pub, Coin: st.coin, Value: v}
		} else {
			to := g.cand()
			if to == nil {
				return nil
			}
			toPub := to.pub
			switch {
			case R.Intn(12) == 0:
				R.Read(toPub[:]) // not a candidate
				d.note = "move-to-unknown"
			case R.Intn(12) == 0:
				toPub = st.pub
			}
			d.data = tx.MoveStakeData{FromPubKey: st.pub, ToPubKey: toPub, Coin: st.coin, Value: v}
		}
	case tx.TypeSetCandidateOnline, tx.TypeSetCandidateOffline, tx.TypeEditCandidate, tx.TypeEditCandidateCommission, tx.TypeEditCandidatePublicKey,
		tx.TypeSetHaltBlock, tx.TypeVoteUpdate, tx.TypeVoteCommission:
		c := g.cand()
		if c == nil {
			return nil
		}
		who := c.owner
		if (t == tx.TypeSetCandidateOnline || t == tx.TypeSetCandidateOffline) && R.Intn(2) == 0 {
			who = c.control
		}
		if kind == "invalid" {
			who = g.user().Addr // most likely not the owner
			d.kind = "invalid:notowner?"
		}
		if s, ok := g.signerFor(who); ok {
			d.sender = &s
		}
		h := uint64(g.S.H + 1)
		switch t {
		case tx.TypeSetCandidateOnline:
			d.data = tx.SetCandidateOnData{PubKey: c.pub}
		case tx.TypeSetCandidateOffline:
			d.data = tx.SetCandidateOffData{PubKey: c.pub}
		case tx.TypeEditCandidate:
			ctl := g.user()
			d.data = tx.EditCandidateData{PubKey: c.pub, RewardAddress: g.user().Addr, OwnerAddress: who, ControlAddress: ctl.Addr}
			if kind == "valid" && R.Intn(4) == 0 {
				no := g.user()
				d.data = tx.EditCandidateData{PubKey: c.pub, RewardAddress: g.user().Addr, OwnerAddress: no.Addr, ControlAddress: ctl.Addr}
			}
		case tx.TypeEditCandidateCommission:
			nc := int(c.c.Commission) + R.Intn(25) - 12
			if nc < 0 {
				nc = 0
			}
			d.data = tx.EditCandidateCommission{PubKey: c.pub, Commission: uint32(nc)}
		case tx.TypeEditCandidatePublicKey:
			g.valN++
			nk := NewValKey(fmt.Sprintf("n%d-", g.S.Hist.Index), g.valN)
			if R.Intn(6) == 0 {
				if o := g.cand(); o != nil {
					nk.Pub = o.pub
				}
			}
			d.data = tx.EditCandidatePublicKeyData{PubKey: c.pub, NewPubKey: nk.Pub}
		case tx.TypeSetHaltBlock:
			d.data = tx.SetHaltBlockData{PubKey: c.pub, Height: h + uint64(R.Intn(30)) - uint64(R.Intn(2))}
		case tx.TypeVoteUpdate:
			v := []string{"v310", "v320", "v330", "v300"}[R.Intn(4)]
			if kind == "invalid" && R.Intn(2) == 0 {
				v = "x-1"
			}
			d.data = tx.VoteUpdateDataV230{Version: v, PubKey: c.pub, Height: h + uint64(R.Intn(30))}
		case tx.TypeVoteCommission:
			d.data = g.commissionVote(c.pub, h+uint64(1+R.Intn(30)), 0, int64(1+R.Intn(3)))
		}
	case tx.TypeCreateMultisig, tx.TypeEditMultisig:
		n := 1 + R.Intn(4)
		var ws []uint32
		var as []types.Address
		var owners []*Key
		for i := 0; i < n; i++ {
			k := g.S.W.Users[(R.Intn(len(g.S.W.Users)))]
			dup := false
			for _, o := range owners {
				if o == k {
					dup = true
				}
			}
			if dup && kind != "invalid" {
				continue
			}
			owners = append(owners, k)
			as = append(as, k.Addr)
			ws = append(ws, uint32(1+R.Intn(5)))
		}
		var sum uint32
		for _, x := range ws {
			sum += x
		}
		thr := uint32(1 + R.Intn(int(sum)))
		if kind == "invalid" {
			switch R.Intn(3) {
			case 0:
				ws = append(ws, 1024)
			case 1:
				thr = sum + 1
			case 2:
				// more addresses than weights; the threshold stays reachable with the remaining weights
				ws = ws[:len(ws)-1]
				var rest uint32
				for _, x := range ws {
					rest += x
				}
				if rest > 0 {
					thr = uint32(1 + R.Intn(int(rest)))
				}
			}
		}
		if t == tx.TypeCreateMultisig {
			d.data = tx.CreateMultisigData{Threshold: thr, Weights: ws, Addresses: as}
			d.note = "create-msig"
			if kind != "invalid" {
				// remember: the address is derived from the data; harness learns it from the response tag
				g.pendingMsig = &MultisigAcc{Owners: owners, Weights: ws, Threshold: thr}
			}
		} else {
			if len(g.S.W.Multisigs) == 0 {
				return nil
			}
			if kind != "invalid" || R.Intn(2) == 0 {
				// also half of the malformed edits come from a real wallet: if the node accepts one, the harness signs with
				// the owners it was given from then on (lead: seed C07-m1 needs the weightless owner to sign afterwards)
				m := g.S.W.Multisigs[R.Intn(len(g.S.W.Multisigs))]
				s := Senderish{M: m}
				d.sender = &s
				g.pendingEdit = &MultisigAcc{Addr: m.Addr, Owners: owners, Weights: ws, Threshold: thr}
			}
			d.data = tx.EditMultisigData{Threshold: thr, Weights: ws, Addresses: as}
			d.note = "edit-msig"
		}
	case tx.TypePriceVote:
		d.data = []byte{0xc0}
	case tx.TypeCreateSwapPool:
		c0, c1 := g.anyCoin(), g.anyCoin()
		if c0 == c1 && kind != "invalid" {
			return nil
		}
		d.data = tx.CreateSwapPoolData{Coin0: c0, Coin1: c1, Volume0: g.amount(g.bal(a, c0), kind), Volume1: g.amount(g.bal(a, c1), kind)}
		d.coin = &c1
	case tx.TypeAddLiquidity:
		ps := g.pools()
		if len(ps) == 0 {
			return nil
		}
		p := ps[R.Intn(len(ps))]
		if R.Intn(2) == 0 {
			p.c0, p.c1 = p.c1, p.c0
		}
		d.data = tx.AddLiquidityDataV260{Coin0: p.c0, Coin1: p.c1, Volume0: g.amount(g.bal(a, p.c0), kind), MaximumVolume1: g.limit(true)}
		d.coin = &p.c0
	case tx.TypeRemoveLiquidity:
		// a pool whose LP token somebody the harness controls holds
		var cand []struct {
			p   pool
			lp  types.CoinID
			own Senderish
			b   *big.Int
		}
		for _, pl := range g.exp().Pools {
			sym := types.StrToCoinSymbol(fmt.Sprintf("LP-%d", pl.ID))
			for _, c := range g.exp().Coins {
				if c.Symbol == sym {
					for _, k := range g.S.W.Users {
						if b := g.bal(k.Addr, types.CoinID(c.ID)); b.Sign() > 0 {
							cand = append(cand, struct {
								p   pool
								lp  types.CoinID
								own Senderish
								b   *big.Int
							}{pool{types.CoinID(pl.Coin0), types.CoinID(pl.Coin1)}, types.CoinID(c.ID), Senderish{K: k}, b})
						}
					}
				}
			}
		}
		if len(cand) == 0 {
			return nil
		}
		x := cand[R.Intn(len(cand))]
		if kind != "invalid" {
			d.sender = &x.own
		}
		d.data = tx.RemoveLiquidityV240{Coin0: x.p.c0, Coin1: x.p.c1, Liquidity: g.amount(x.b, kind), MinimumVolume0: big.NewInt(0), MinimumVolume1: big.NewInt(0)}
	case tx.TypeSellSwapPool, tx.TypeBuySwapPool, tx.TypeSellAllSwapPool:
		n := 2 + R.Intn(4)
		if R.Intn(2) == 0 {
			n = 2
		}
		rt := g.route(n)
		if rt == nil {
			return nil
		}
		if kind == "invalid" {
			switch R.Intn(4) {
			case 0:
				rt = append(rt, rt[0]) // cycle
			case 1:
				rt = []types.CoinID{rt[0]}
			case 2:
				rt = append(rt, types.CoinID(777777))
			}
		}
		b := g.bal(a, rt[0])
		switch t {
		case tx.TypeSellSwapPool:
			d.data = tx.SellSwapPoolDataV260{Coins: rt, ValueToSell: g.amount(b, kind), MinimumValueToBuy: g.limit(false)}
		case tx.TypeSellAllSwapPool:
			d.data = tx.SellAllSwapPoolDataV260{Coins: rt, MinimumValueToBuy: g.limit(false)}
		default:
			d.data = tx.BuySwapPoolDataV260{Coins: rt, ValueToBuy: g.amount(Bip(int64(1+R.Intn(500))), "valid"), MaximumValueToSell: g.limit(true)}
		}
	case tx.TypeAddLimitOrder:
		ps := g.exp().Pools
		if len(ps) == 0 {
			return nil
		}
		p := ps[R.Intn(len(ps))]
		sell, buy := types.CoinID(p.Coin0), types.CoinID(p.Coin1)
		rs, rb := BI(p.Reserve0), BI(p.Reserve1)
		if R.Intn(2) == 0 {
			sell, buy, rs, rb = buy, sell, rb, rs
		}
		vs := g.amount(g.bal(a, sell), kind)
		if vs.Cmp(big.NewInt(1e10)) < 0 && kind == "valid" {
			vs = big.NewInt(1e10 + int64(R.Intn(1000)))
		}
		// price from 0.9 to 1.5 of pool price (cheaper-than-pool orders are rejected by the node)
		f := int64(90 + R.Intn(60))
		if R.Intn(3) == 0 {
			f = 100 + int64(R.Intn(3)) // many orders at (nearly) equal prices
		}
		vb := new(big.Int).Mul(vs, rb)
		if f == 100 {
			// exactly at the pool price: rounded UP, the closest price the node accepts (rounded down it is "better than the pool" and refused)
			vb.Add(vb, new(big.Int).Sub(rs, big.NewInt(1))).Div(vb, rs)
		} else {
			vb.Div(vb, rs).Mul(vb, big.NewInt(f)).Div(vb, big.NewInt(100))
		}
		if vb.Sign() == 0 {
			vb.SetInt64(1)
		}
		if kind == "valid" && f >= 100 && f <= 102 && R.Intn(2) == 0 && vb.Cmp(big.NewInt(1e12)) > 0 {
			// next slot: a taker fills this order leaving a remainder around the 1e10 minimum (below, at, above)
			dust := []int64{1, 5e9, 1e10 - 1, 1e10, 1e10 + 1, 3e10}[R.Intn(6)]
			into := new(big.Int).Sub(vb, big.NewInt(dust))
			amt := new(big.Int).Div(new(big.Int).Mul(into, big.NewInt(1001)), big.NewInt(1000))
			amt = amt.Div(amt.Mul(amt, big.NewInt(1000)), big.NewInt(999))
			g.aim = &aimedTrade{route: []types.CoinID{buy, sell}, amount: amt}
		}
		d.data = tx.AddLimitOrderData{CoinToSell: sell, ValueToSell: vs, CoinToBuy: buy, ValueToBuy: vb}
	case tx.TypeRemoveLimitOrder:
		var ids []types.Order
		for _, p := range g.exp().Pools {
			ids = append(ids, p.Orders...)
		}
		id := uint32(R.Intn(int(g.exp().NextOrderID) + 2))
		if len(ids) > 0 && R.Intn(5) != 0 {
			o := ids[R.Intn(len(ids))]
			id = uint32(o.ID)
			if kind != "invalid" {
				if s, ok := g.signerFor(o.Owner); ok {
					d.sender = &s
				}
			}
		}
		d.data = tx.RemoveLimitOrderData{ID: id}
	case tx.TypeLockStake:
		d.data = tx.LockStakeData{}
	case tx.TypeLock:
		c, b := g.heldCoin(a)
		due := uint32(g.S.H + 1 + int64(R.Intn(40)))
		if kind == "invalid" && R.Intn(2) == 0 {
			due = uint32(g.S.H)
		}
		if kind == "boundary" {
			due = uint32(g.S.H + 1 + int64(R.Intn(2)))
		}
		d.data = tx.LockData{DueBlock: due, Coin: c, Value: g.amount(b, kind)}
		d.coin = &c
	case tx.TypeRedeemCheck:
		return g.makeRedeem(kind)
	default:
		return nil
	}
	return d
}

func indexOf(l []types.CoinID, c types.CoinID) int {
	for i, x := range l {
		if x == c {
			return i
		}
	}
	return 0
}

// limit returns a slippage limit: generous by default.
func (g *TxGen) limit(max bool) *big.Int {
	if max {
		if g.R.Intn(8) == 0 {
			return Bip(int64(g.R.Intn(100)))
		}
		return new(big.Int).Exp(big.NewInt(10), big.NewInt(32), nil)
	}
	if g.R.Intn(8) == 0 {
		return Bip(int64(g.R.Intn(100)))
	}
	return big.NewInt(int64(g.R.Intn(2)))
}

// ownedCoin picks a coin/token with an owner. wantAny: coins or tokens; else tokens only.
func (g *TxGen) ownedCoin(any bool, foreign bool) *types.Coin {
	var out []*types.Coin
	for i := range g.exp().Coins {
		c := &g.exp().Coins[i]
		if c.OwnerAddress == nil {
			continue
		}
		if len(c.Symbol.String()) > 1 && c.Symbol.String()[0] == 'F' && c.ID > 4 && c.ID < CoinUSDT {
			continue
		}
		if c.ID == CoinUSDT {
			continue // keep the reward price pool coin stable
		}
		if !any && c.Crr != 0 {
			continue
		}
		out = append(out, c)
	}
	if len(out) == 0 {
		return nil
	}
	return out[g.R.Intn(len(out))]
}

type stakeRef struct {
	pub   types.Pubkey
	owner types.Address
	coin  types.CoinID
	value *big.Int
	wl    bool
}

func (g *TxGen) pickStake() *stakeRef {
	var out []stakeRef
	e := g.exp()
	pubByID := map[uint64]types.Pubkey{}
	for _, c := range e.Candidates {
		pubByID[c.ID] = c.PubKey
		for _, s := range c.Stakes {
			if _, ok := g.signerFor(s.Owner); ok {
				out = append(out, stakeRef{c.PubKey, s.Owner, types.CoinID(s.Coin), BI(s.Value), false})
			}
		}
	}
	for _, w := range e.Waitlist {
		if _, ok := g.signerFor(w.Owner); ok {
			out = append(out, stakeRef{pubByID[w.CandidateID], w.Owner, types.CoinID(w.Coin), BI(w.Value), true})
		}
	}
	if len(out) == 0 {
		return nil
	}
	return &out[g.R.Intn(len(out))]
}

// twinOf: does the owner of st hold both a waitlist entry and a stake of the same candidate and coin? Returns both values.
func (g *TxGen) twinOf(st *stakeRef) (w, sv *big.Int, ok bool) {
	e := g.exp()
	var cid uint64
	for _, c := range e.Candidates {
		if c.PubKey == st.pub {
			cid = c.ID
			for _, s := range c.Stakes {
				if s.Owner == st.owner && types.CoinID(s.Coin) == st.coin {
					sv = BI(s.Value)
				}
			}
		}
	}
	for _, x := range e.Waitlist {
		if x.CandidateID == cid && x.Owner == st.owner && types.CoinID(x.Coin) == st.coin {
			w = BI(x.Value)
		}
	}
	return w, sv, w != nil && sv != nil && w.Sign() > 0 && sv.Sign() > 0
}

func (g *TxGen) commissionVote(pub types.Pubkey, height uint64, coin types.CoinID, mult int64) tx.VoteCommissionDataV3 {
	c := DefaultCommission()
	m := func(s string) *big.Int { return new(big.Int).Mul(BI(s), big.NewInt(mult)) }
	return tx.VoteCommissionDataV3{PubKey: pub, Height: height, Coin: coin,
		PayloadByte: m(c.PayloadByte), Send: m(c.Send), BuyBancor: m(c.BuyBancor), SellBancor: m(c.SellBancor), SellAllBancor: m(c.SellAllBancor),
		BuyPoolBase: m(c.BuyPoolBase), BuyPoolDelta: m(c.BuyPoolDelta), SellPoolBase: m(c.SellPoolBase), SellPoolDelta: m(c.SellPoolDelta),
		SellAllPoolBase: m(c.SellAllPoolBase), SellAllPoolDelta: m(c.SellAllPoolDelta), CreateTicker3: m(c.CreateTicker3), CreateTicker4: m(c.CreateTicker4),
		CreateTicker5: m(c.CreateTicker5), CreateTicker6: m(c.CreateTicker6), CreateTicker7to10: m(c.CreateTicker7_10), CreateCoin: m(c.CreateCoin),
		CreateToken: m(c.CreateToken), RecreateCoin: m(c.RecreateCoin), RecreateToken: m(c.RecreateToken), DeclareCandidacy: m(c.DeclareCandidacy),
		Delegate: m(c.Delegate), Unbond: m(c.Unbond), RedeemCheck: m(c.RedeemCheck), SetCandidateOn: m(c.SetCandidateOn), SetCandidateOff: m(c.SetCandidateOff),
		CreateMultisig: m(c.CreateMultisig), MultisendBase: m(c.MultisendBase), MultisendDelta: m(c.MultisendDelta), EditCandidate: m(c.EditCandidate),
		SetHaltBlock: m(c.SetHaltBlock), EditTickerOwner: m(c.EditTickerOwner), EditMultisig: m(c.EditMultisig), EditCandidatePublicKey: m(c.EditCandidatePublicKey),
		CreateSwapPool: m(c.CreateSwapPool), AddLiquidity: m(c.AddLiquidity), RemoveLiquidity: m(c.RemoveLiquidity), EditCandidateCommission: m(c.EditCandidateCommission),
		MintToken: m(c.MintToken), BurnToken: m(c.BurnToken), VoteCommission: m(c.VoteCommission), VoteUpdate: m(c.VoteUpdate), FailedTx: m(c.FailedTx),
		AddLimitOrder: m(c.AddLimitOrder), RemoveLimitOrder: m(c.RemoveLimitOrder), MoveStake: m(c.MoveStake), LockStake: m(c.LockStake), Lock: m(c.Lock)}
}

// makeRedeem issues a new check (or reuses an old one) and builds its redemption.
func (g *TxGen) makeRedeem(kind string) *draft {
	R := g.R
	var ic *IssuedCheck
	if len(g.Checks) > 0 && R.Intn(3) == 0 {
		ic = g.Checks[R.Intn(len(g.Checks))] // possibly already redeemed: double spend attempt
	} else {
		issuer := g.user()
		coin, b := g.heldCoin(issuer.Addr)
		gas := types.CoinID(0)
		if R.Intn(3) == 0 {
			gas, _ = g.heldCoin(issuer.Addr)
		}
		nonce := make([]byte, R.Intn(17))
		R.Read(nonce)
		due := uint64(g.S.H + 1 + int64(R.Intn(30)))
		if R.Intn(10) == 0 {
			due = uint64(g.S.H + int64(R.Intn(2)))
		}
		chain := types.CurrentChainID
		if kind == "invalid" && R.Intn(4) == 0 {
			chain = types.ChainID(3 - byte(chain))
		}
		pw := fmt.Sprintf("pw-%d-%d", g.S.Hist.Index, len(g.Checks))
		spec := CheckSpec{Nonce: nonce, ChainID: chain, DueBlock: due, Coin: coin, Value: g.amount(b, kind), GasCoin: gas, Issuer: issuer, Password: pw}
		ic = &IssuedCheck{Raw: IssueCheck(&spec), Spec: spec, Password: pw}
		g.Checks = append(g.Checks, ic)
	}
	red := g.user()
	for red == ic.Spec.Issuer {
		red = g.user()
	}
	proofFor := red.Addr
	pw := ic.Password
	note := "redeem"
	if kind == "invalid" {
		switch R.Intn(3) {
		case 0:
			proofFor = g.user().Addr
			note = "redeem:proof-other-addr"
		case 1:
			pw = pw + "x"
			note = "redeem:wrong-password"
		}
	}
	s := Senderish{K: red}
	d := &draft{t: tx.TypeRedeemCheck, kind: kind, note: note, sender: &s, price1: true}
	issuer := ic.Spec.Issuer.Addr
	d.payer = &issuer
	gc := ic.Spec.GasCoin
	if !(kind == "invalid" && R.Intn(6) == 0) {
		d.gas = &gc
	}
	d.data = tx.RedeemCheckData{RawCheck: ic.Raw, Proof: CheckProof(pw, proofFor)}
	return d
}

// TxT converts a byte to a TxType.
func TxT(b byte) tx.TxType { return tx.TxType(b) }

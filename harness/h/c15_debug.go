package h

import (
	"fmt"
	"math/big"

	"github.com/MinterTeam/minter-go-node/coreV2/types"
)

// C15Bisect is a diagnosis aid (not part of any check): it replays a recorded C15 history up to the block of a trade and
// finds, by bisection over the limit on forked instances, the tightest limit the node accepts for that trade in that state.
func C15Bisect(path string, height int64, txi int) int {
	hist, err := LoadHistory(path)
	if err != nil {
		fmt.Println("cannot load:", err)
		return 2
	}
	types.CurrentChainID = types.ChainID(hist.ChainID)
	res := NewResult(hist.Property)
	gen := hist.GenesisOf()
	w := &World{ValOwner: map[types.Pubkey]*Key{}, ValCtl: map[types.Pubkey]*Key{}, ChainID: types.CurrentChainID, InitialHeight: hist.InitialHeight, StakePeriod: hist.StakePeriod, ExpirePeriod: hist.ExpirePeriod}
	opts := NodeOpts{StakePeriod: hist.StakePeriod, ExpirePeriod: hist.ExpirePeriod, KeepLastStates: hist.KeepLast}
	s := NewSim(hist.Property, hist.Seed, hist.Index, gen, w, opts, Rng(hist.Seed, "replay", hist.Index), c15Mons(res)...)
	defer s.Finish()
	for i := range hist.Blocks {
		req, metas := hist.Blocks[i].Req()
		if req.Height < height {
			s.RunBlock(req, metas, nil)
			continue
		}
		keys := map[types.Address]*Key{}
		for k := 0; k < 200; k++ {
			kk := NewKey("u", k)
			keys[kk.Addr] = kk
		}
		tr, ok := decodeTrade(req.Txs[txi])
		env, _ := decodeEnvelope(req.Txs[txi])
		if !ok {
			fmt.Println("not a trade")
			return 2
		}
		snd := addrOf(metas[txi].Sender)
		key := keys[snd]
		if key == nil {
			fmt.Println("sender key unknown (multisig?)")
			return 2
		}
		img := s.N.Image()
		p := &c15Plan{Type: env.Type, Kind: tr.Kind, Snd: Senderish{K: key}, Gas: env.GasCoin, GasPrice: env.GasPrice, Coins: tr.Coins, Value: tr.Value, Payload: env.Payload}
		try := func(l *big.Int) (uint32, string) {
			f := img.Boot()
			defer f.Destroy()
			f.Begin(req)
			for _, bz := range req.Txs[:txi] {
				f.Deliver(bz)
			}
			bz, _ := p.encode(f, l)
			r, _ := f.Deliver(bz)
			return r.Code, Tags(&r)["tx.return"]
		}
		c, ret := try(p.looseLimit())
		fmt.Println("loose:", c, ret, "recorded limit", tr.Limit)
		if c != 0 {
			return 1
		}
		R := BI(ret)
		// buy: smallest accepted maximum; sell: largest accepted minimum
		lo, hi := big.NewInt(0), new(big.Int).Set(R)
		if tr.Kind != "buy" {
			lo, hi = new(big.Int).Set(R), new(big.Int).Mul(R, big.NewInt(2))
		}
		for new(big.Int).Sub(hi, lo).Cmp(big.NewInt(1)) > 0 {
			mid := new(big.Int).Add(lo, hi)
			mid.Rsh(mid, 1)
			c, _ := try(mid)
			acc := c == 0
			if (tr.Kind == "buy") == acc {
				hi = mid
			} else {
				lo = mid
			}
		}
		b := hi
		if tr.Kind != "buy" {
			b = lo
		}
		fmt.Printf("executed %s; tightest accepted limit %s; difference %s\n", R, b, new(big.Int).Sub(R, b))
		return 0
	}
	return 2
}

package h

import (
	"math/rand"
	"time"

	"github.com/MinterTeam/minter-go-node/coreV2/types"
)

// Driver generates whole histories: block times, votes, evidence and transactions.
type Driver struct {
	S *Sim
	G *TxGen
	R *rand.Rand
	// per-history schedule parameters (drawn from the seed before execution)
	MaxTxs      int
	PAbsent     float64 // per validator per block
	AbsentRun   map[types.Pubkey]int64 // validator -> absent until height
	PByz        float64 // per block
	PTimeJump   float64
	PAbsentRun  float64
	PRestart    float64 // probability of a process restart before a block (memdb nodes)
	PReplay     float64 // probability that a slot re-delivers earlier bytes instead of a new tx
	pool        []replayItem
	PostTx      func(i int, tx []byte, meta *TxMeta, code uint32) // optional observer
}

type replayItem struct {
	bz   []byte
	meta TxMeta
}

// NewDriver makes a driver with mild default schedules.
func NewDriver(s *Sim, r *rand.Rand) *Driver {
	return &Driver{S: s, G: NewTxGen(s, Rng(r.Int63(), "txgen", 0)), R: r, MaxTxs: 8, PAbsent: 0.01, AbsentRun: map[types.Pubkey]int64{}, PByz: 0.002, PTimeJump: 0.01, PAbsentRun: 0.003}
}

// NextReq builds the next block request (without transactions).
func (d *Driver) NextReq() *BlockReq {
	s := d.S
	h := s.H + 1
	t := s.T.Add(s.Step)
	if d.R.Float64() < d.PTimeJump {
		t = t.Add(time.Duration(d.R.Intn(20000)) * time.Second)
	}
	req := &BlockReq{Height: h, Time: t}
	req.Votes = s.VotesFor(h, func(pk types.Pubkey) bool {
		if until, ok := d.AbsentRun[pk]; ok && h <= until {
			return true
		}
		if d.R.Float64() < d.PAbsentRun {
			d.AbsentRun[pk] = h + int64(5+d.R.Intn(25))
			return true
		}
		return d.R.Float64() < d.PAbsent
	})
	if d.R.Float64() < d.PByz {
		vs := s.ValSetAt(h - 1).Sorted()
		switch {
		case len(vs) > 0 && d.R.Intn(3) != 0:
			req.Byzantine = append(req.Byzantine, TmAddrOf(vs[d.R.Intn(len(vs))]))
		case s.Post != nil && len(s.Post.Candidates) > 0 && d.R.Intn(2) == 0:
			req.Byzantine = append(req.Byzantine, TmAddrOf(s.Post.Candidates[d.R.Intn(len(s.Post.Candidates))].PubKey))
		default:
			var a types.TmAddress
			d.R.Read(a[:])
			req.Byzantine = append(req.Byzantine, a)
		}
	}
	return req
}

// Block generates and executes one block.
func (d *Driver) Block() *BlockRes {
	if d.PRestart > 0 && d.R.Float64() < d.PRestart {
		d.S.Restart()
	}
	req := d.NextReq()
	n := d.R.Intn(d.MaxTxs + 1)
	return d.S.RunBlock(req, nil, func(i int) ([]byte, TxMeta, bool) {
		if i > 0 {
			// learn from the previous response
			res := d.S.CurRes.Deliver[i-1]
			pm := d.S.Metas[i-1]
			d.G.Learn(&pm, res.Code, Tags(&res))
			if d.PReplay > 0 && pm.Kind != "replay" {
				it := replayItem{bz: d.S.CurReq.Txs[i-1], meta: pm}
				if len(d.pool) < 300 {
					d.pool = append(d.pool, it)
				} else {
					d.pool[d.R.Intn(len(d.pool))] = it
				}
			}
		}
		if i >= n {
			return nil, TxMeta{}, false
		}
		if d.PReplay > 0 && len(d.pool) > 0 && d.R.Float64() < d.PReplay {
			// mostly recent ones (same block / next block), sometimes old ones
			k := len(d.pool) - 1 - d.R.Intn(minInt(len(d.pool), 6))
			if d.R.Intn(4) == 0 {
				k = d.R.Intn(len(d.pool))
			}
			it := d.pool[k]
			it.meta.Note = it.meta.Kind
			it.meta.Kind = "replay"
			return it.bz, it.meta, true
		}
		b, m := d.G.Next()
		return b, m, true
	})
}

// Run executes n blocks (stops early when the node died or halted).
func (d *Driver) Run(n int) {
	for i := 0; i < n && !d.S.Dead && !d.S.Stopped; i++ {
		d.Block()
	}
}

func minInt(a, b int) int {
	if a < b {
		return a
	}
	return b
}

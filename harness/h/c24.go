package h

// C24: events are stored and reloaded faithfully.
//
// Oracle: round trip at the boundary of the events store.  The harness keeps, per height, the JSON of the
// events it added (computed before they are handed to the store); any store object over the same DB must
// LoadEvents(height) a list whose JSON is equal element by element.  The expected side never goes through
// the store's compaction (address/pubkey id tables), so it is independent of the code under test.

import (
	"crypto/sha256"
	"encoding/json"
	"fmt"
	"math/big"
	"math/rand"
	"os"
	"reflect"
	"sort"
	"strings"

	"github.com/MinterTeam/minter-go-node/coreV2/events"
	"github.com/MinterTeam/minter-go-node/coreV2/types"
	db "github.com/tendermint/tm-db"
)

// c24Pool hands out values of a pool of n distinct values; it walks through the pool so that a history
// with enough draws uses all n values (the store's id tables then cross the uint8/uint16 boundaries).
type c24Pool struct {
	ns    string
	n     int
	used  int
	pNew  float64
	zero0 bool // element 0 is the all-zero value
}

func (p *c24Pool) draw(r *rand.Rand) int {
	if p.used < p.n && (p.used == 0 || r.Float64() < p.pNew) {
		p.used++
		return p.used - 1
	}
	return r.Intn(p.used)
}

func (p *c24Pool) bytes(i int) [32]byte {
	if i == 0 && p.zero0 {
		return [32]byte{}
	}
	return sha256.Sum256([]byte(fmt.Sprintf("c24/%s/%d", p.ns, i)))
}

func c24Bucket(n int) string {
	switch {
	case n <= 1:
		return "1"
	case n <= 255:
		return "<=255"
	case n <= 65535:
		return "<=65535"
	default:
		return ">65535"
	}
}

// c24Profile describes one family of histories.
type c24Profile struct {
	name     string
	addrs    func(r *rand.Rand) int // pool sizes
	pubs     func(r *rand.Rand) int
	perBlock func(r *rand.Rand) int
	kinds    []string // event kinds used (nil = all)
	heavy    bool
}

func between(a, b int) func(*rand.Rand) int {
	return func(r *rand.Rand) int { return a + r.Intn(b-a+1) }
}

var c24AllKinds = []string{"reward", "slash", "jail", "unbond", "unbond-nilpub", "unlock", "kick", "move", "network", "commissions", "order", "remove", "blockreward"}

var c24Profiles = []c24Profile{
	{name: "single", addrs: between(1, 1), pubs: between(1, 1), perBlock: between(0, 6)},
	{name: "address-only", addrs: between(3, 400), pubs: between(0, 0), perBlock: between(0, 12), kinds: []string{"unbond-nilpub", "unlock", "order", "network", "commissions", "blockreward"}},
	{name: "typical", addrs: between(20, 250), pubs: between(2, 60), perBlock: between(0, 25)},
	{name: "cross-255", addrs: between(257, 3000), pubs: between(257, 700), perBlock: between(10, 80)},
	{name: "pubkey-only", addrs: between(0, 0), pubs: between(2, 400), perBlock: between(0, 10), kinds: []string{"jail", "remove", "network", "blockreward"}},
	{name: "typical", addrs: between(2, 255), pubs: between(1, 255), perBlock: between(0, 40)},
	{name: "sparse", addrs: between(5, 100), pubs: between(1, 20), perBlock: between(0, 2)},
	{name: "cross-255", addrs: between(250, 270), pubs: between(250, 270), perBlock: between(3, 12)},
	// heavy: the address table crosses 65536 entries
	{name: "addr-cross-65535", addrs: between(66000, 70000), pubs: between(10, 120), perBlock: between(800, 1100), heavy: true, kinds: []string{"reward", "slash", "unbond", "unbond-nilpub", "unlock", "kick", "move", "order", "jail"}},
	// heavy: the public key table reaches/crosses 65535 entries
	{name: "pub-cross-65535", addrs: between(500, 5000), pubs: between(66000, 70000), perBlock: between(800, 1100), heavy: true, kinds: []string{"reward", "slash", "jail", "unbond", "unbond-nilpub", "kick", "move", "move", "move", "remove"}},
}

// c24PickProfile maps a case index to a profile: in every block of 28 cases one of each heavy profile.
func c24PickProfile(idx int) c24Profile {
	switch idx % 28 {
	case 5:
		return c24Profiles[8]
	case 19:
		return c24Profiles[9]
	}
	return c24Profiles[idx%8]
}

type c24Gen struct {
	r       *rand.Rand
	addr    c24Pool
	pub     c24Pool
	kinds   []string
	seenA   map[int]bool
	seenP   map[int]bool
	classes map[string]bool // classes of the batch under construction
}

func (g *c24Gen) amount() string {
	switch g.r.Intn(12) {
	case 0:
		return "0"
	case 1:
		return "1"
	case 2:
		return new(big.Int).Sub(new(big.Int).Lsh(big.NewInt(1), 256), big.NewInt(1)).String()
	case 3:
		return new(big.Int).Lsh(big.NewInt(1), uint(8*(1+g.r.Intn(20)))).String() // 0x01 00..00: trailing zero bytes
	}
	return RandLog(g.r, 33).String()
}

func (g *c24Gen) coin() uint64 {
	switch g.r.Intn(8) {
	case 0:
		return 0
	case 1:
		return 1993
	case 2:
		return 1<<32 - 1
	case 3:
		return uint64(g.r.Uint32())
	}
	return uint64(g.r.Intn(3000))
}

func (g *c24Gen) address() types.Address {
	i := g.addr.draw(g.r)
	g.seenA[i] = true
	b := g.addr.bytes(i)
	var a types.Address
	copy(a[:], b[:20])
	return a
}

func (g *c24Gen) pubkey() types.Pubkey {
	i := g.pub.draw(g.r)
	g.seenP[i] = true
	return types.Pubkey(g.pub.bytes(i))
}

// pubkeyRaw draws a key for an event kind the store keeps verbatim (it never enters the id table, so it is
// not counted in the table-size bucket).
func (g *c24Gen) pubkeyRaw() types.Pubkey {
	if g.pub.used == 0 {
		return g.pubkey()
	}
	return types.Pubkey(g.pub.bytes(g.r.Intn(g.pub.used)))
}

func (g *c24Gen) decimals(v interface{}) {
	rv := reflect.ValueOf(v).Elem()
	for i := 0; i < rv.NumField(); i++ {
		if rv.Field(i).Kind() == reflect.String {
			rv.Field(i).SetString(g.amount())
		}
	}
}

// event makes one event of the given kind.
func (g *c24Gen) event(kind string) events.Event {
	switch kind {
	case "reward":
		return &events.RewardEvent{Role: []string{"Validator", "Delegator", "DAO", "Developers"}[g.r.Intn(4)], Address: g.address(), Amount: g.amount(), ValidatorPubKey: g.pubkey(), ForCoin: g.coin()}
	case "slash":
		return &events.SlashEvent{Address: g.address(), Amount: g.amount(), Coin: g.coin(), ValidatorPubKey: g.pubkey()}
	case "jail":
		ju := uint64(g.r.Intn(20000000))
		if g.r.Intn(10) == 0 {
			ju = g.r.Uint64()
		}
		return &events.JailEvent{ValidatorPubKey: g.pubkey(), JailedUntil: ju}
	case "unbond":
		p := g.pubkey()
		return &events.UnbondEvent{Address: g.address(), Amount: g.amount(), Coin: g.coin(), ValidatorPubKey: &p}
	case "unbond-nilpub":
		return &events.UnbondEvent{Address: g.address(), Amount: g.amount(), Coin: g.coin(), ValidatorPubKey: nil}
	case "unlock":
		return &events.UnlockEvent{Address: g.address(), Amount: g.amount(), Coin: g.coin()}
	case "kick":
		return &events.StakeKickEvent{Address: g.address(), Amount: g.amount(), Coin: g.coin(), ValidatorPubKey: g.pubkey()}
	case "move":
		return &events.StakeMoveEvent{Address: g.address(), Amount: g.amount(), Coin: g.coin(), CandidatePubKey: g.pubkey(), ToCandidatePubKey: g.pubkey()}
	case "network":
		return &events.UpdateNetworkEvent{Version: fmt.Sprintf("v%d", 200+g.r.Intn(200))}
	case "commissions":
		e := &events.UpdateCommissionsEvent{}
		g.decimals(e)
		e.Coin = g.coin()
		return e
	case "order":
		return &events.OrderExpiredEvent{ID: uint64(g.r.Uint32()), Address: g.address(), Coin: g.coin(), Amount: g.amount()}
	case "remove":
		return &events.RemoveCandidateEvent{CandidatePubKey: g.pubkeyRaw()}
	case "blockreward":
		e := &events.UpdatedBlockRewardEvent{}
		g.decimals(e)
		return e
	}
	panic("c24: unknown kind " + kind)
}

func (g *c24Gen) pickKind(perBlock int) string {
	k := g.kinds[g.r.Intn(len(g.kinds))]
	// the rare whole-network events are rare in big blocks as well
	if perBlock > 100 && (k == "network" || k == "commissions" || k == "blockreward") && g.r.Intn(20) != 0 {
		k = g.kinds[0]
	}
	return k
}

type c24Want struct {
	js      []string // JSON of every event of the height, in order
	classes []string
	pubsAt  int // distinct public keys used in the history up to and including this height
}

func c24JSON(e events.Event) string {
	if e == nil {
		return "<nil event>"
	}
	bz, err := json.Marshal(e)
	if err != nil {
		return "<unmarshalable: " + err.Error() + ">"
	}
	return e.Type() + " " + string(bz)
}

type c24Case struct {
	ctx     *WorkCtx
	idx     int
	prof    c24Profile
	backend string
	dir     string
	db      db.DB
	want    map[uint32]*c24Want
	heights []uint32
	nviol   int
	params  map[string]interface{}
	pubsNow func() int // distinct public keys that went through the id table so far
}

func (c *c24Case) report(rule, site, detail string, w map[string]interface{}) {
	c.nviol++
	if c.nviol > 3 {
		c.ctx.Res.Count("violations_not_listed", 1)
		return
	}
	w["case"] = c.params
	w["replay_with"] = fmt.Sprintf("VERIF_SEED=%d VERIF_TIER=%s vchk worker C24 %d %d /tmp/out.json", c.ctx.Seed, c.ctx.Tier, c.idx, c.idx+1)
	path := c.ctx.ReplayPath(c.idx, c.nviol)
	bz, _ := json.MarshalIndent(w, "", " ")
	_ = os.WriteFile(path, bz, 0o644)
	var height int64
	if hv, ok := w["height"].(uint32); ok {
		height = int64(hv)
	}
	c.ctx.Res.Violations = append(c.ctx.Res.Violations, ReportedViol{Violation: Violation{Property: "C24", Rule: rule, Site: site, Detail: detail, Height: height, TxIndex: -1}, Replay: path})
}

// verify loads height ht through store st and compares with what was added. how = restart kind / reader.
func (c *c24Case) verify(st events.IEventsDB, ht uint32, how string) {
	var got events.Events
	var pv interface{}
	func() {
		defer func() {
			if r := recover(); r != nil {
				pv = r
			}
		}()
		got = st.LoadEvents(ht)
	}()
	c.ctx.Res.Evaluations++
	w := c.want[ht]
	// the store numbers public keys with uint16 ids: once 65535 distinct keys went through the id table the
	// whole history is affected (also old heights), so these failures get their own signature
	over := c.pubsNow != nil && c.pubsNow() >= 65535
	site := func(e string) string {
		if over {
			return "pubkey-table>=65535"
		}
		return e
	}
	if pv != nil {
		rule := "panic"
		if over {
			rule = "roundtrip"
		}
		c.report(rule, site("LoadEvents"), fmt.Sprintf("LoadEvents(%d) via %s panicked: %v", ht, how, pv), map[string]interface{}{"height": ht, "how": how, "panic": fmt.Sprint(pv)})
		return
	}
	if w == nil {
		// nothing was ever committed at this height
		if len(got) != 0 {
			c.report("roundtrip", "uncommitted-height", fmt.Sprintf("height %d never committed but loads %d events via %s", ht, len(got), how), map[string]interface{}{"height": ht, "how": how, "got": len(got)})
		}
		c.ctx.Res.Seen("uncommitted-height/" + how)
		return
	}
	if len(got) != len(w.js) {
		c.report("roundtrip", site("count"), fmt.Sprintf("height %d: added %d events, loaded %d via %s", ht, len(w.js), len(got), how), map[string]interface{}{"height": ht, "how": how, "added": w.js, "loaded": len(got)})
		return
	}
	for i, e := range got {
		g := c24JSON(e)
		if g != w.js[i] {
			typ := strings.SplitN(w.js[i], " ", 2)[0]
			c.report("roundtrip", site(typ), fmt.Sprintf("height %d event %d via %s: added %s loaded %s", ht, i, how, w.js[i], g),
				map[string]interface{}{"height": ht, "index": i, "how": how, "added": w.js[i], "loaded": g, "distinct_pubkeys_so_far": w.pubsAt})
			return
		}
	}
	if len(w.js) == 0 {
		c.ctx.Res.Seen("empty-commit/" + how)
	}
	for _, cl := range w.classes {
		c.ctx.Res.Seen(cl + "/" + how)
	}
}

func (c *c24Case) open() {
	if c.backend == "memdb" {
		if c.db == nil {
			c.db = db.NewMemDB()
		}
		return
	}
	d, err := db.NewGoLevelDBWithOpts("events", c.dir, nil)
	if err != nil {
		panic("c24: cannot open goleveldb: " + err.Error())
	}
	c.db = d
}

// sample picks up to n committed heights (always the first and the last) plus one uncommitted height.
func (c *c24Case) sample(r *rand.Rand, n int) []uint32 {
	if len(c.heights) == 0 {
		return []uint32{1}
	}
	m := map[uint32]bool{c.heights[0]: true, c.heights[len(c.heights)-1]: true}
	for i := 0; i < n-2; i++ {
		m[c.heights[r.Intn(len(c.heights))]] = true
	}
	// a height nobody committed (a gap or beyond the end)
	for k := 0; k < 4; k++ {
		x := c.heights[0] + uint32(r.Intn(int(c.heights[len(c.heights)-1]-c.heights[0])+3))
		if c.want[x] == nil {
			m[x] = true
			break
		}
	}
	var out []uint32
	for k := range m {
		out = append(out, k)
	}
	sort.Slice(out, func(i, j int) bool { return out[i] < out[j] })
	return out
}

func c24Run(ctx *WorkCtx, idx int) {
	r := Rng(ctx.Seed, "C24", idx)
	prof := c24PickProfile(idx)
	c := &c24Case{ctx: ctx, idx: idx, prof: prof, backend: "memdb", want: map[uint32]*c24Want{}}
	if idx%3 == 2 {
		c.backend = "goleveldb"
		c.dir = ctx.TempDir("ev")
		defer os.RemoveAll(c.dir)
	}
	nHeights := 60 + r.Intn(60)
	g := &c24Gen{r: r, seenA: map[int]bool{}, seenP: map[int]bool{}, kinds: prof.kinds}
	if g.kinds == nil {
		g.kinds = c24AllKinds
	}
	g.addr = c24Pool{ns: fmt.Sprintf("a/%d/%d", ctx.Seed, idx), n: prof.addrs(r), pNew: 0.15 + 0.7*r.Float64(), zero0: r.Intn(3) == 0}
	g.pub = c24Pool{ns: fmt.Sprintf("p/%d/%d", ctx.Seed, idx), n: prof.pubs(r), pNew: 0.15 + 0.7*r.Float64()}
	if prof.heavy {
		g.addr.pNew, g.pub.pNew = 0.9, 0.9
		nHeights = 85 + r.Intn(10)
	}
	restartP := []float64{0, 0.03, 0.1, 0.3}[r.Intn(4)]
	if idx%8 == 0 {
		restartP = 0.5
	}
	c.params = map[string]interface{}{"seed": ctx.Seed, "idx": idx, "profile": prof.name, "backend": c.backend, "address_pool": g.addr.n, "pubkey_pool": g.pub.n, "heights": nHeights, "restart_p": restartP}
	c.pubsNow = func() int { return len(g.seenP) }
	c.open()
	writer := events.NewEventsStore(c.db)
	writerKind := "original"
	ht := uint32(1 + r.Intn(1000))
	if r.Intn(4) == 0 {
		ht = uint32(10000000 + r.Intn(1000000))
	}
	restarts := 0
	// heavy profiles go on until their pool is used up (the id table has then crossed 65535), at most 2x as long
	more := func(b int) bool {
		if b < nHeights {
			return true
		}
		return prof.heavy && b < 2*nHeights && ((prof.name == "addr-cross-65535" && g.addr.used < g.addr.n) || (prof.name == "pub-cross-65535" && g.pub.used < g.pub.n))
	}
	for b := 0; more(b) && c.nviol == 0; b++ {
		ht++
		if r.Intn(6) == 0 {
			ht += uint32(1 + r.Intn(3)) // heights nobody commits
		}
		n := prof.perBlock(r)
		w := &c24Want{}
		cls := map[string]bool{}
		for k := 0; k < n; k++ {
			kind := g.pickKind(n)
			ev := g.event(kind)
			w.js = append(w.js, c24JSON(ev)) // expected side fixed before the store sees the event
			cls[fmt.Sprintf("%s/addr%s/pub%s", kind, c24Bucket(len(g.seenA)), c24Bucket(len(g.seenP)))] = true
			writer.AddEvent(ev)
		}
		for k := range cls {
			w.classes = append(w.classes, k)
		}
		sort.Strings(w.classes)
		w.pubsAt = len(g.seenP)
		var perr interface{}
		var cerr error
		func() {
			defer func() {
				if rec := recover(); rec != nil {
					perr = rec
				}
			}()
			cerr = writer.CommitEvents(ht)
		}()
		if perr != nil || cerr != nil {
			c.report("panic", "CommitEvents", fmt.Sprintf("CommitEvents(%d) failed: %v %v", ht, perr, cerr), map[string]interface{}{"height": ht, "panic": fmt.Sprint(perr), "err": fmt.Sprint(cerr)})
			break
		}
		c.want[ht] = w
		c.heights = append(c.heights, ht)
		ctx.Res.Count("events", int64(n))
		ctx.Res.Count("heights", 1)
		// the writing store itself must see what it committed
		if r.Intn(3) == 0 {
			c.verify(writer, ht, "writer-"+writerKind)
			if r.Intn(2) == 0 {
				c.verify(writer, c.heights[r.Intn(len(c.heights))], "writer-"+writerKind)
			}
		}
		if r.Float64() < restartP && more(b+1) {
			restarts++
			kind := "new-object"
			if c.backend == "goleveldb" && r.Intn(2) == 0 {
				kind = "close-reopen"
				if err := writer.Close(); err != nil {
					panic("c24: close: " + err.Error())
				}
				c.open()
			}
			writer = events.NewEventsStore(c.db)
			writerKind = "after-" + kind
			if r.Intn(3) != 0 {
				// read through the new object before it writes
				for _, x := range c.sample(r, 8) {
					c.verify(writer, x, kind+"/load-first")
				}
			} else {
				writerKind += "/commit-first" // the cache is loaded by the first CommitEvents
			}
		}
	}
	ctx.Res.Count("restarts", int64(restarts))
	// final: everything through the writer, then through a brand-new store object (after close/reopen on disk)
	if c.nviol == 0 {
		for _, x := range c.heights {
			c.verify(writer, x, "final-writer-"+writerKind)
		}
		kind := "new-object"
		if c.backend == "goleveldb" {
			kind = "close-reopen"
			if err := writer.Close(); err != nil {
				panic("c24: close: " + err.Error())
			}
			c.open()
		}
		fresh := events.NewEventsStore(c.db)
		for _, x := range c.heights {
			c.verify(fresh, x, "final-"+kind)
		}
		for _, x := range c.sample(r, 2) {
			c.verify(fresh, x, "final-"+kind)
		}
		c.verify(fresh, c.heights[0]-1, "final-"+kind)
		c.verify(fresh, c.heights[len(c.heights)-1]+1, "final-"+kind)
	}
	if c.backend == "goleveldb" {
		_ = c.db.Close()
	}
	ctx.Res.Count("profile/"+prof.name, 1)
	ctx.Res.Count("backend/"+c.backend, 1)
	ctx.Res.Count("distinct_addresses", int64(len(g.seenA)))
	ctx.Res.Count("distinct_pubkeys", int64(len(g.seenP)))
	if len(g.seenA) > 65536 {
		ctx.Res.Count("cases_address_table>65536", 1)
	}
	if len(g.seenP) >= 65535 {
		ctx.Res.Count("cases_pubkey_table>=65535", 1)
	}
	ctx.Res.Sample(c.params, 6)
}

func init() {
	Register(&CheckDef{
		ID: "C24", Level: "exploration",
		Rule:        "generated histories of event batches (12 event types; addresses/public keys drawn from pools of 1..70000 distinct values walked through so that the store's id tables cross 255/65535; nil public keys on unbonds; empty commits and uncommitted gaps) committed at increasing heights on the real events store over memdb or goleveldb with restarts (new store object / close+reopen, reading first or committing first); one evaluation = one LoadEvents(height) compared element-wise (JSON) with what was added; distinct = event kind x address-table bucket x pubkey-table bucket x reader/restart kind",
		Assumptions: []string{"amounts are canonical non-negative decimal strings, coin and order ids fit uint32, roles are the four roles the node emits (what the node itself produces)", "one store object writes at a time (as in the node); readers are the writer or store objects created after the last write"},
		Quick:       56, Thorough: 560, MinEval: 3000, MinDistinct: 60,
		Run: c24Run,
		Post: func(total *WorkerResult) {
			// the run must have pushed both id tables over their 16-bit boundary, otherwise say so
			if total.Counters["cases_address_table>65536"] == 0 {
				total.Inconcl = append(total.Inconcl, "no history used more than 65536 distinct addresses: the address id table was not taken over the 16-bit boundary")
			}
			if total.Counters["cases_pubkey_table>=65535"] == 0 {
				total.Inconcl = append(total.Inconcl, "no history used 65535 distinct public keys")
			}
		},
	})
}

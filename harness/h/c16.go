package h

// C16 "Staked coins leave staking only on schedule".
//
// MonStaking keeps a staking ledger purely from observations at the boundary:
//   - accessor snapshots of every stake and waitlist entry before BeginBlock, after BeginBlock and after every DeliverTx,
//   - the frozen-fund lists (accessor) at h+unbond period, h+move period and at a Lock's due block around every DeliverTx,
//   - balances of all fund owners around BeginBlock,
//   - the exports before/after the block (stakes + updates + waitlist + frozen funds), the events of the block,
//   - the transaction bytes the driver sent (decoded by the monitor itself) and the response codes.
// Nothing of the code under test computes an expected value here: periods are the documented constants.

import (
	"encoding/hex"
	"fmt"
	"math/big"
	"sort"

	eventsdb "github.com/MinterTeam/minter-go-node/coreV2/events"
	tx "github.com/MinterTeam/minter-go-node/coreV2/transaction"
	"github.com/MinterTeam/minter-go-node/coreV2/types"
	"github.com/MinterTeam/minter-go-node/rlp"
	abci "github.com/tendermint/tendermint/abci/types"
)

type c16Key struct {
	Cand  uint64
	Owner types.Address
	Coin  uint64
}

func (k c16Key) String() string {
	return fmt.Sprintf("cand=%d owner=%s coin=%d", k.Cand, k.Owner.String(), k.Coin)
}

// c16Fund identifies a frozen fund without its value.
type c16Fund struct {
	Height uint64
	Addr   types.Address
	Coin   uint64
	Cand   uint64
	MoveTo uint64
	HasKey bool
}

func (f c16Fund) String() string {
	return fmt.Sprintf("fund{h=%d %s coin=%d from=%d to=%d key=%v}", f.Height, f.Addr.String(), f.Coin, f.Cand, f.MoveTo, f.HasKey)
}

func (f c16Fund) kind() string {
	switch {
	case f.MoveTo != 0:
		return "move"
	case f.HasKey:
		return "unbond"
	default:
		return "lock"
	}
}

type c16FundV struct {
	F c16Fund
	V *big.Int
}

type c16Bal struct {
	A types.Address
	C uint64
}

// c16Stakes is an accessor snapshot of stakes and waitlists.
type c16Stakes struct {
	st    map[c16Key]*big.Int
	wl    map[c16Key]*big.Int
	cands map[uint64]types.Pubkey
}

func (a *c16Stakes) total(k c16Key) *big.Int {
	v := new(big.Int)
	if x := a.st[k]; x != nil {
		v.Add(v, x)
	}
	if x := a.wl[k]; x != nil {
		v.Add(v, x)
	}
	return v
}

type sumMap map[c16Key]*big.Int

func (m sumMap) add(k c16Key, v *big.Int) {
	if m[k] == nil {
		m[k] = new(big.Int)
	}
	m[k].Add(m[k], v)
}

func (m sumMap) get(k c16Key) *big.Int {
	if v := m[k]; v != nil {
		return v
	}
	return new(big.Int)
}

type fundSums map[c16Fund]*big.Int

func (m fundSums) add(f c16Fund, v *big.Int) {
	if m[f] == nil {
		m[f] = new(big.Int)
	}
	m[f].Add(m[f], v)
}

// floor95 is the documented remainder after a 5% slash rounded up: floor(95 v / 100).
func floor95(v *big.Int) *big.Int {
	x := new(big.Int).Mul(v, big.NewInt(95))
	return x.Div(x, big.NewInt(100))
}

// MonStaking is the C16 monitor.
type MonStaking struct {
	BaseMon
	Res  *WorkerResult
	U, M uint64

	ffSeenAt int64                 // block height ffSeen belongs to
	ffSeen   map[uint64][]c16FundV // funds per height as last read in this block

	addrs    map[types.Address]bool
	addrList []types.Address

	// per block
	cur       *c16Stakes
	balBefore map[c16Bal]*big.Int
	byzDec    sumMap
	punished  map[uint64]bool
	outTx     sumMap
	in        sumMap
	txFunds   []c16FundV
	ffBefore  map[uint64][]c16FundV
	pend      *c16Pend
	origin    map[c16Fund]string // where the harness saw a fund being created ("" = genesis)

	lockedUntil map[types.Address]uint64
}

type c16Pend struct {
	typ      tx.TxType
	sender   types.Address
	hasSnd   bool
	due      uint64 // Lock
	lockCoin uint64
	lockVal  *big.Int
	pub      types.Pubkey // delegate / declare / unbond / move-from
	toPub    types.Pubkey
	coin     uint64
	value    *big.Int
	locked   bool
	decoded  bool
}

func (m *MonStaking) Name() string { return "C16" }

func (m *MonStaking) viol(s *Sim, rule, site, detail string, h int64, txi int) {
	s.Report(Violation{Property: "C16", Rule: rule, Site: site, Detail: detail, Height: h, TxIndex: txi})
}

func (m *MonStaking) addAddr(a types.Address) {
	if !m.addrs[a] {
		m.addrs[a] = true
		m.addrList = append(m.addrList, a)
	}
}

func (m *MonStaking) learnAddrs(e *types.AppState) {
	if e == nil {
		return
	}
	for _, a := range e.Accounts {
		m.addAddr(a.Address)
	}
	for _, w := range e.Waitlist {
		m.addAddr(w.Owner)
	}
	for _, f := range e.FrozenFunds {
		m.addAddr(f.Address)
	}
	for _, c := range e.Candidates {
		for _, st := range c.Stakes {
			m.addAddr(st.Owner)
		}
		for _, st := range c.Updates {
			m.addAddr(st.Owner)
		}
	}
}

func (m *MonStaking) Init(s *Sim) {
	m.U, m.M = types.GetUnbondPeriod(), types.GetMovePeriod()
	m.addrs = map[types.Address]bool{}
	m.origin = map[c16Fund]string{}
	m.lockedUntil = map[types.Address]uint64{}
	if s.W != nil {
		for _, k := range s.W.Users {
			m.addAddr(k.Addr)
		}
		for _, ms := range s.W.Multisigs {
			m.addAddr(ms.Addr)
		}
	}
	m.learnAddrs(s.Post)
	if s.Post != nil {
		for _, a := range s.Post.Accounts {
			if a.LockStakeUntilBlock > 0 {
				m.lockedUntil[a.Address] = a.LockStakeUntilBlock
			}
		}
	}
}

// snap reads every stake (accessor GetStakes) and every waitlist entry of the known addresses.
func (m *MonStaking) snap(s *Sim) *c16Stakes {
	out := &c16Stakes{st: map[c16Key]*big.Int{}, wl: map[c16Key]*big.Int{}, cands: map[uint64]types.Pubkey{}}
	cs := s.N.App.CurrentState()
	for _, c := range cs.Candidates().GetCandidates() {
		out.cands[uint64(c.ID)] = c.PubKey
		for _, st := range cs.Candidates().GetStakes(c.PubKey) {
			if st == nil || st.Value == nil {
				continue
			}
			k := c16Key{uint64(c.ID), st.Owner, uint64(st.Coin)}
			if out.st[k] == nil {
				out.st[k] = new(big.Int)
			}
			out.st[k].Add(out.st[k], st.Value)
			m.addAddr(st.Owner)
		}
	}
	for _, a := range m.addrList {
		if wl := cs.WaitList().GetByAddress(a); wl != nil {
			for _, it := range wl.List {
				k := c16Key{uint64(it.CandidateId), a, uint64(it.Coin)}
				if out.wl[k] == nil {
					out.wl[k] = new(big.Int)
				}
				out.wl[k].Add(out.wl[k], it.Value)
			}
		}
	}
	return out
}

// funds reads the frozen funds of one height through the accessor.
func (m *MonStaking) funds(s *Sim, height uint64) []c16FundV {
	md := s.N.App.CurrentState().FrozenFunds().GetFrozenFunds(height)
	if md == nil {
		return nil
	}
	var out []c16FundV
	for _, it := range md.List {
		out = append(out, c16FundV{c16Fund{height, it.Address, uint64(it.Coin), uint64(it.CandidateID), uint64(it.GetMoveToCandidateID()), it.CandidateKey != nil}, new(big.Int).Set(it.Value)})
	}
	return out
}

func fundStr(f c16FundV) string { return f.F.String() + "=" + f.V.String() }

// newFunds = after minus before as multisets.
func newFunds(before, after []c16FundV) (added, removed []c16FundV) {
	cnt := map[string][]c16FundV{}
	for _, f := range before {
		cnt[fundStr(f)] = append(cnt[fundStr(f)], f)
	}
	for _, f := range after {
		k := fundStr(f)
		if l := cnt[k]; len(l) > 0 {
			cnt[k] = l[1:]
			continue
		}
		added = append(added, f)
	}
	var ks []string
	for k, l := range cnt {
		if len(l) > 0 {
			ks = append(ks, k)
		}
	}
	sort.Strings(ks)
	for _, k := range ks {
		removed = append(removed, cnt[k]...)
	}
	return
}

func exportFunds(e *types.AppState) []c16FundV {
	var out []c16FundV
	for _, f := range e.FrozenFunds {
		out = append(out, c16FundV{c16Fund{f.Height, f.Address, f.Coin, f.CandidateID, f.MoveToCandidateID, f.CandidateKey != nil}, BI(f.Value)})
	}
	return out
}

func (m *MonStaking) bal(s *Sim, k c16Bal) *big.Int {
	return new(big.Int).Set(s.N.App.CurrentState().Accounts().GetBalance(k.A, types.CoinID(k.C)))
}

func (m *MonStaking) BeforeBlock(s *Sim, req *BlockReq) {
	m.cur = m.snap(s)
	m.balBefore = map[c16Bal]*big.Int{}
	m.byzDec, m.outTx, m.in = sumMap{}, sumMap{}, sumMap{}
	m.punished = map[uint64]bool{}
	m.txFunds = nil
	if s.Post != nil {
		for _, f := range s.Post.FrozenFunds {
			k := c16Bal{f.Address, f.Coin}
			if m.balBefore[k] == nil {
				m.balBefore[k] = m.bal(s, k)
			}
		}
	}
}

func (m *MonStaking) AfterBegin(s *Sim, req *BlockReq) {
	pre := s.Post // export after the previous commit
	h := uint64(req.Height)
	begin := m.snap(s)
	// stake / waitlist changes during BeginBlock: only byzantine punishment may reduce stakes
	keys := map[c16Key]bool{}
	for k := range m.cur.st {
		keys[k] = true
	}
	for k := range m.cur.wl {
		keys[k] = true
	}
	for k := range begin.st {
		keys[k] = true
	}
	for k := range begin.wl {
		keys[k] = true
	}
	for k := range keys {
		d := new(big.Int).Sub(m.cur.total(k), begin.total(k))
		if d.Sign() == 0 {
			continue
		}
		m.byzDec.add(k, d)
		if d.Sign() > 0 {
			m.punished[k.Cand] = true
			if len(req.Byzantine) == 0 {
				m.viol(s, "stake-left-unexplained", "BeginBlock", fmt.Sprintf("%s lost %s in BeginBlock without byzantine evidence", k, d), req.Height, -1)
			}
		}
	}
	m.cur = begin
	if pre == nil {
		return
	}
	// a punished validator may have no stake left to lose (everything already unbonding): then the punishment shows only in
	// its frozen funds; recognise it there (funds due later through the accessor, funds due now through the balances)
	if len(req.Byzantine) > 0 {
		for _, c := range pre.Candidates {
			named := false
			for _, a := range req.Byzantine {
				if a == TmAddrOf(c.PubKey) {
					named = true
				}
			}
			if !named || m.punished[c.ID] {
				continue
			}
			decided := false
			for _, f := range pre.FrozenFunds {
				v := BI(f.Value)
				if f.CandidateID != c.ID || f.Height <= h || v.Cmp(big.NewInt(20)) < 0 {
					continue
				}
				ff := c16Fund{f.Height, f.Address, f.Coin, f.CandidateID, f.MoveToCandidateID, f.CandidateKey != nil}
				preN, curN, curS := 0, 0, 0
				for _, x := range pre.FrozenFunds {
					if x.Height == f.Height && x.Address == f.Address && x.Coin == f.Coin && x.CandidateID == f.CandidateID && x.MoveToCandidateID == f.MoveToCandidateID && x.Value == f.Value {
						preN++
					}
				}
				for _, x := range m.funds(s, f.Height) {
					if x.F == ff && x.V.Cmp(v) == 0 {
						curN++
					}
					if x.F == ff && x.V.Cmp(floor95(v)) == 0 {
						curS++
					}
				}
				if curN < preN && curS > 0 {
					m.punished[c.ID] = true
					m.Res.Seen("byzantine/validator-without-stake-left:funds-slashed")
				}
				decided = true
				break
			}
			if decided {
				continue
			}
			for _, f := range pre.FrozenFunds {
				v := BI(f.Value)
				if f.CandidateID != c.ID || f.Height > h || f.MoveToCandidateID != 0 || v.Cmp(big.NewInt(20)) < 0 {
					continue
				}
				k := c16Bal{f.Address, f.Coin}
				b0 := m.balBefore[k]
				if b0 == nil {
					break
				}
				d := new(big.Int).Sub(m.bal(s, k), b0)
				expA, expB := new(big.Int), new(big.Int)
				for _, x := range pre.FrozenFunds {
					if x.Height > h || x.MoveToCandidateID != 0 || x.Address != f.Address || x.Coin != f.Coin {
						continue
					}
					xv := BI(x.Value)
					if x.CandidateID != 0 && m.punished[x.CandidateID] {
						xv = floor95(xv)
					}
					expA.Add(expA, xv)
					if x.CandidateID == c.ID {
						xv = floor95(xv)
					}
					expB.Add(expB, xv)
				}
				if d.Cmp(expB) == 0 && expA.Cmp(expB) != 0 {
					m.punished[c.ID] = true
					m.Res.Seen("byzantine/validator-without-stake-left:due-funds-released-slashed")
				}
				break
			}
		}
	}
	// maturity: balances of fund owners may change by exactly the non-move funds due now
	exp := map[c16Bal]*big.Int{}
	kinds := map[c16Bal]string{}
	for _, f := range pre.FrozenFunds {
		if f.Height > h || f.MoveToCandidateID != 0 {
			continue
		}
		v := BI(f.Value)
		if f.CandidateID != 0 && m.punished[f.CandidateID] {
			v = floor95(v)
		}
		k := c16Bal{f.Address, f.Coin}
		if exp[k] == nil {
			exp[k] = new(big.Int)
		}
		exp[k].Add(exp[k], v)
		if f.CandidateKey != nil {
			kinds[k] = "unbond"
		} else if kinds[k] == "" {
			kinds[k] = "lock"
		}
	}
	for k, b0 := range m.balBefore {
		d := new(big.Int).Sub(m.bal(s, k), b0)
		e := exp[k]
		if e == nil {
			e = new(big.Int)
		}
		if c := d.Cmp(e); c != 0 {
			site := kinds[k]
			if site == "" {
				site = "nothing-due"
			}
			rule := "matured-not-credited"
			if c > 0 {
				rule = "credited-to-balance-off-schedule"
			}
			m.viol(s, rule, site, fmt.Sprintf("balance of %s coin %d changed by %s in BeginBlock(%d), funds due now sum to %s", k.A.String(), k.C, d, h, e), req.Height, -1)
		}
	}
}

func c16DecodeTx(bz []byte) *tx.Transaction {
	var t tx.Transaction
	if err := rlp.DecodeBytes(bz, &t); err != nil {
		return nil
	}
	return &t
}

func (m *MonStaking) BeforeTx(s *Sim, i int, raw []byte, meta *TxMeta) {
	h := uint64(s.CurReq.Height)
	p := &c16Pend{typ: tx.TxType(meta.Type)}
	if bz, err := hex.DecodeString(meta.Sender); err == nil && len(bz) == 20 {
		copy(p.sender[:], bz)
		p.hasSnd = true
	}
	if t := c16DecodeTx(raw); t != nil {
		p.typ = t.Type
		if !p.hasSnd {
			if a, err := t.Sender(); err == nil {
				p.sender, p.hasSnd = a, true
			}
		}
		switch t.Type {
		case tx.TypeLock:
			var d tx.LockData
			if rlp.DecodeBytes(t.Data, &d) == nil && d.Value != nil {
				p.due, p.lockCoin, p.lockVal, p.decoded = uint64(d.DueBlock), uint64(d.Coin), d.Value, true
			}
		case tx.TypeDelegate:
			var d tx.DelegateDataV260
			if rlp.DecodeBytes(t.Data, &d) == nil && d.Value != nil {
				p.pub, p.coin, p.value, p.decoded = d.PubKey, uint64(d.Coin), d.Value, true
			}
		case tx.TypeDeclareCandidacy:
			var d tx.DeclareCandidacyData
			if rlp.DecodeBytes(t.Data, &d) == nil && d.Stake != nil {
				p.pub, p.coin, p.value, p.decoded = d.PubKey, uint64(d.Coin), d.Stake, true
			}
		case tx.TypeUnbond:
			var d tx.UnbondDataV3
			if rlp.DecodeBytes(t.Data, &d) == nil && d.Value != nil {
				p.pub, p.coin, p.value, p.decoded = d.PubKey, uint64(d.Coin), d.Value, true
			}
		case tx.TypeMoveStake:
			var d tx.MoveStakeData
			if rlp.DecodeBytes(t.Data, &d) == nil && d.Value != nil {
				p.pub, p.toPub, p.coin, p.value, p.decoded = d.FromPubKey, d.ToPubKey, uint64(d.Coin), d.Value, true
			}
		}
	}
	if p.hasSnd {
		m.addAddr(p.sender)
		p.locked = m.lockedUntil[p.sender] > h
	}
	m.pend = p
	// h+U and h+M: BeginBlock of this very block may have added funds there (re-frozen moves, removals): ask the node
	m.ffBefore = map[uint64][]c16FundV{h + m.U: m.funds(s, h+m.U), h + m.M: m.funds(s, h+m.M)}
	if m.ffSeenAt == int64(h) {
		m.ffSeen[h+m.U], m.ffSeen[h+m.M] = m.ffBefore[h+m.U], m.ffBefore[h+m.M]
	}
	if p.typ == tx.TypeLock && p.decoded {
		if _, ok := m.ffBefore[p.due]; !ok {
			m.ffBefore[p.due] = m.fundsBefore(s, p.due)
		}
	}
}

// fundsBefore returns the funds of a height as they are before the next transaction WITHOUT asking the node where that can be
// avoided: reading a height through the accessor loads its record into the node's cache, and a node that forgot to load it
// itself would be repaired by the monitor (lead: seed C16-m4 was masked that way). Heights already read in this block come
// from the monitor's own memory, otherwise from the export of the last commit (disk); only in blocks with byzantine evidence
// (BeginBlock rewrites funds of many heights) the accessor is asked.
func (m *MonStaking) fundsBefore(s *Sim, height uint64) []c16FundV {
	if m.ffSeenAt != s.CurReq.Height {
		m.ffSeenAt, m.ffSeen = s.CurReq.Height, map[uint64][]c16FundV{}
	}
	if l, ok := m.ffSeen[height]; ok {
		return l
	}
	if len(s.CurReq.Byzantine) > 0 || s.Post == nil || height <= uint64(s.CurReq.Height) {
		return m.funds(s, height)
	}
	var out []c16FundV
	for _, f := range s.Post.FrozenFunds {
		if f.Height == height {
			out = append(out, c16FundV{c16Fund{height, f.Address, f.Coin, f.CandidateID, f.MoveToCandidateID, f.CandidateKey != nil}, BI(f.Value)})
		}
	}
	return out
}

func (m *MonStaking) AfterTx(s *Sim, i int, raw []byte, meta *TxMeta, res *abci.ResponseDeliverTx) {
	p := m.pend
	if p == nil {
		return
	}
	h := uint64(s.CurReq.Height)
	after := m.snap(s)
	before := m.cur
	m.cur = after
	// staking changes of this transaction
	type chg struct {
		k   c16Key
		dSt *big.Int // decrease of the stake part
		dWl *big.Int
	}
	var chgs []chg
	keys := map[c16Key]bool{}
	for k := range before.st {
		keys[k] = true
	}
	for k := range before.wl {
		keys[k] = true
	}
	for k := range after.st {
		keys[k] = true
	}
	for k := range after.wl {
		keys[k] = true
	}
	z := new(big.Int)
	val := func(mm map[c16Key]*big.Int, k c16Key) *big.Int {
		if v := mm[k]; v != nil {
			return v
		}
		return z
	}
	for k := range keys {
		dSt := new(big.Int).Sub(val(before.st, k), val(after.st, k))
		dWl := new(big.Int).Sub(val(before.wl, k), val(after.wl, k))
		if dSt.Sign() != 0 || dWl.Sign() != 0 {
			chgs = append(chgs, chg{k, dSt, dWl})
		}
	}
	sort.Slice(chgs, func(a, b int) bool { return chgs[a].k.String() < chgs[b].k.String() })
	chgStr := func() string {
		out := ""
		for _, c := range chgs {
			out += fmt.Sprintf("[%s stake-%s waitlist-%s]", c.k, c.dSt, c.dWl)
		}
		return out
	}
	// frozen funds created by this transaction at the watched heights
	var added []c16FundV
	var hs []uint64
	for hh := range m.ffBefore {
		hs = append(hs, hh)
	}
	sort.Slice(hs, func(a, b int) bool { return hs[a] < hs[b] })
	for _, hh := range hs {
		now := m.funds(s, hh)
		if m.ffSeenAt == int64(h) {
			m.ffSeen[hh] = now
		}
		ad, rm := newFunds(m.ffBefore[hh], now)
		added = append(added, ad...)
		for _, f := range rm {
			m.viol(s, "fund-vanished-early", "DeliverTx", fmt.Sprintf("%s disappeared during tx type %02x (code %d) at height %d", fundStr(f), byte(p.typ), res.Code, h), int64(h), i)
		}
	}
	for _, f := range added {
		m.txFunds = append(m.txFunds, f)
		m.origin[f.F] = fmt.Sprintf("tx-%02x", byte(p.typ))
	}
	tname := fmt.Sprintf("%02x", byte(p.typ))
	ok := res.Code == 0
	leaveSite := "tx-" + tname
	if !ok {
		leaveSite = "failed-tx"
	}
	// account every change for the block equation
	totalDec := new(big.Int)
	for _, c := range chgs {
		d := new(big.Int).Add(c.dSt, c.dWl)
		m.outTx.add(c.k, d)
		totalDec.Add(totalDec, d)
	}
	sumAdded := new(big.Int)
	for _, f := range added {
		sumAdded.Add(sumAdded, f.V)
	}
	switch {
	case ok && p.typ == tx.TypeLockStake:
		if p.hasSnd {
			l := s.N.App.CurrentState().Accounts().GetLockStakeUntilBlock(p.sender)
			if l > m.lockedUntil[p.sender] {
				m.lockedUntil[p.sender] = l
			}
			if l > h {
				m.Res.Seen("lockstake/accepted")
			} else {
				m.Res.Seen("lockstake/accepted-but-not-locked")
			}
		}
	case ok && (p.typ == tx.TypeDelegate || p.typ == tx.TypeDeclareCandidacy):
		if p.decoded && p.hasSnd {
			if c := s.N.App.CurrentState().Candidates().GetCandidate(p.pub); c != nil {
				k := c16Key{uint64(c.ID), p.sender, p.coin}
				m.in.add(k, p.value)
				// a delegation takes the sender's waitlist entry of the same candidate and coin along
				for _, cg := range chgs {
					if cg.k == k && cg.dSt.Sign() == 0 && cg.dWl.Sign() > 0 {
						m.in.add(k, cg.dWl)
						totalDec.Sub(totalDec, cg.dWl)
						m.Res.Seen("delegate/takes-waitlist-along")
					}
				}
			} else {
				m.Res.Inconcl = append(m.Res.Inconcl, fmt.Sprintf("h=%d tx=%d accepted delegation to a candidate the accessor does not return", h, i))
			}
		}
	}
	isLeave := ok && (p.typ == tx.TypeUnbond || p.typ == tx.TypeMoveStake)
	if !isLeave {
		if totalDec.Sign() > 0 {
			m.viol(s, "stake-left-unexplained", leaveSite, fmt.Sprintf("tx type %s code %d reduced staking by %s %s", tname, res.Code, totalDec, chgStr()), int64(h), i)
		}
		if ok && p.typ == tx.TypeLock && p.decoded {
			m.Res.Evaluations++
			want := c16Fund{p.due, p.sender, p.lockCoin, 0, 0, false}
			if len(added) != 1 || added[0].F != want || added[0].V.Cmp(p.lockVal) != 0 || p.due <= h {
				m.viol(s, "lock-fund-mismatch", "tx-26", fmt.Sprintf("Lock(due=%d coin=%d value=%s) accepted at %d created %v", p.due, p.lockCoin, p.lockVal, h, fundList(added)), int64(h), i)
			} else {
				m.Res.Seen(fmt.Sprintf("lock-created/due+%s", bucket(int64(p.due-h))))
			}
		} else if len(added) > 0 {
			m.viol(s, "fund-unexplained", leaveSite, fmt.Sprintf("tx type %s code %d created %v", tname, res.Code, fundList(added)), int64(h), i)
		}
		if !ok && p.typ == tx.TypeUnbond && p.locked {
			m.Res.Evaluations++
			m.Res.Seen(fmt.Sprintf("lock-gate/unbond-rejected-code-%d", res.Code))
		}
		if !ok && p.typ == tx.TypeMoveStake && p.decoded {
			if _, exists := m.candID(before, p.toPub); !exists {
				m.Res.Seen(fmt.Sprintf("move-to-nonexistent-rejected-code-%d", res.Code))
			}
		}
		return
	}
	// an accepted unbond or move
	m.Res.Evaluations++
	kind := "unbond"
	if p.typ == tx.TypeMoveStake {
		kind = "move"
	}
	if p.typ == tx.TypeUnbond && p.locked {
		m.viol(s, "unbond-while-locked", "tx-08", fmt.Sprintf("%s unbonded %s at %d although its stake is locked until %d", p.sender.String(), totalDec, h, m.lockedUntil[p.sender]), int64(h), i)
	}
	if p.locked {
		m.Res.Seen("locked-account/" + kind + "-accepted")
	}
	src := ""
	for _, c := range chgs {
		if c.k.Owner != p.sender {
			m.viol(s, "stake-left-unexplained", "foreign-owner", fmt.Sprintf("%s by %s changed %s (stake -%s waitlist -%s)", kind, p.sender.String(), c.k, c.dSt, c.dWl), int64(h), i)
		}
		if c.dSt.Sign() > 0 {
			src += "stake"
		}
		if c.dWl.Sign() > 0 {
			src += "waitlist"
		}
	}
	if src == "" {
		src = "zero-value"
	}
	if sumAdded.Cmp(totalDec) != 0 || (totalDec.Sign() > 0 && len(added) == 0) {
		m.viol(s, "leave-fund-mismatch", kind, fmt.Sprintf("%s at %d: staking decreased by %s %s but new funds are %v", kind, h, totalDec, chgStr(), fundList(added)), int64(h), i)
	}
	for _, f := range added {
		if f.F.Addr != p.sender {
			m.viol(s, "leave-fund-mismatch", kind+"/owner", fmt.Sprintf("fund %s belongs to somebody else than sender %s", fundStr(f), p.sender.String()), int64(h), i)
		}
		match := false
		for _, c := range chgs {
			if c.k.Cand == f.F.Cand && c.k.Coin == f.F.Coin {
				match = true
			}
		}
		if len(chgs) > 0 && !match {
			m.viol(s, "leave-fund-mismatch", kind+"/origin", fmt.Sprintf("fund %s does not name the candidate/coin that was reduced %s", fundStr(f), chgStr()), int64(h), i)
		}
		switch kind {
		case "unbond":
			if f.F.Height != h+m.U || f.F.MoveTo != 0 || !f.F.HasKey {
				m.viol(s, "unbond-not-at-unbond-period", "tx-08", fmt.Sprintf("unbond at %d created %s; expected height %d returning to the owner", h, fundStr(f), h+m.U), int64(h), i)
			}
		case "move":
			_, live := after.cands[f.F.MoveTo]
			switch {
			case f.F.MoveTo == 0:
				m.viol(s, "move-accepted-to-nonexistent-candidate", "returns-to-balance", fmt.Sprintf("MoveStake to %s (not a candidate) accepted at %d: %s returns %s to the owner's balance after %d blocks", p.toPub.String(), h, fundStr(f), f.V, f.F.Height-h), int64(h), i)
			case !live:
				m.viol(s, "move-accepted-to-nonexistent-candidate", "deleted-candidate", fmt.Sprintf("MoveStake to %s accepted at %d: target id %d is not an existing candidate (%s)", p.toPub.String(), h, f.F.MoveTo, fundStr(f)), int64(h), i)
			case f.F.Height != h+m.M || !f.F.HasKey:
				m.viol(s, "move-not-at-move-period", "tx-1b", fmt.Sprintf("move at %d created %s; expected height %d", h, fundStr(f), h+m.M), int64(h), i)
			}
		}
	}
	m.Res.Seen(fmt.Sprintf("leave/%s/from-%s", kind, src))
	m.Res.Sample(map[string]interface{}{"what": "accepted " + kind, "height": h, "sender": p.sender.String(), "left_staking": totalDec.String(), "from": src, "funds_created": fundList(added)}, 4)
	if kind == "move" && len(added) == 1 {
		if pk, live := after.cands[added[0].F.MoveTo]; live {
			if c := s.N.App.CurrentState().Candidates().GetCandidate(pk); c != nil {
				m.Res.Seen(fmt.Sprintf("move-accepted/target-status-%d", c.Status))
			}
		}
	}
}

func (m *MonStaking) candID(a *c16Stakes, pub types.Pubkey) (uint64, bool) {
	for id, pk := range a.cands {
		if pk == pub {
			return id, true
		}
	}
	return 0, false
}

func fundList(l []c16FundV) string {
	out := "["
	for i, f := range l {
		if i > 0 {
			out += " "
		}
		out += fundStr(f)
	}
	return out + "]"
}

func bucket(n int64) string {
	switch {
	case n <= 0:
		return "<=0"
	case n == 1:
		return "1"
	case n <= 10:
		return "2..10"
	case n <= 100:
		return "11..100"
	default:
		return ">100"
	}
}

func (m *MonStaking) AfterBlock(s *Sim, req *BlockReq, res *BlockRes) {
	if res.Stopped || s.Pre == nil || s.Post == nil {
		return
	}
	h := uint64(req.Height)
	pre, post := s.Pre, s.Post
	m.learnAddrs(post)
	for _, a := range post.Accounts {
		if a.LockStakeUntilBlock > m.lockedUntil[a.Address] {
			m.lockedUntil[a.Address] = a.LockStakeUntilBlock
		}
	}
	var evs eventsdb.Events
	func() {
		defer func() {
			if r := recover(); r != nil {
				m.Res.Inconcl = append(m.Res.Inconcl, fmt.Sprintf("h=%d events unreadable: %v", h, r))
			}
		}()
		evs = s.N.App.GetEventsDB().LoadEvents(uint32(h))
	}()
	postCand := map[uint64]*types.Candidate{}
	postPub := map[types.Pubkey]uint64{}
	for i := range post.Candidates {
		c := &post.Candidates[i]
		postCand[c.ID] = c
		postPub[c.PubKey] = c.ID
	}
	for _, d := range post.DeletedCandidates {
		if _, ok := postPub[d.PubKey]; !ok {
			postPub[d.PubKey] = d.ID
		}
	}
	preCand := map[uint64]*types.Candidate{}
	for i := range pre.Candidates {
		c := &pre.Candidates[i]
		preCand[c.ID] = c
		if _, ok := postPub[c.PubKey]; !ok {
			postPub[c.PubKey] = c.ID
		}
	}
	removedEv := map[types.Pubkey]bool{}
	type evk struct {
		typ  string
		addr types.Address
		coin uint64
		amt  string
	}
	evCnt := map[evk]int{}
	for _, e := range evs {
		switch v := e.(type) {
		case *eventsdb.RewardEvent:
			// rewards are delegated to the paying candidate (an inflow of the staking ledger, not judged here)
			if id, ok := postPub[v.ValidatorPubKey]; ok {
				m.in.add(c16Key{id, v.Address, 0}, BI(v.Amount))
			} else {
				m.Res.Inconcl = append(m.Res.Inconcl, fmt.Sprintf("h=%d reward event for unknown candidate %s", h, v.ValidatorPubKey.String()))
			}
		case *eventsdb.RemoveCandidateEvent:
			removedEv[v.CandidatePubKey] = true
		case *eventsdb.UnbondEvent:
			evCnt[evk{"unbond", v.Address, v.Coin, v.Amount}]++
		case *eventsdb.UnlockEvent:
			evCnt[evk{"lock", v.Address, v.Coin, v.Amount}]++
		case *eventsdb.StakeMoveEvent:
			evCnt[evk{"move", v.Address, v.Coin, v.Amount}]++
		}
	}

	// ---- frozen funds: persistence, maturity, creation ------------------------------------------------
	preF, postF := exportFunds(pre), exportFunds(post)
	remaining := append([]c16FundV{}, postF...)
	take := func(f c16Fund, v *big.Int) bool {
		for i := range remaining {
			if remaining[i].F == f && remaining[i].V.Cmp(v) == 0 {
				remaining = append(remaining[:i], remaining[i+1:]...)
				return true
			}
		}
		return false
	}
	maturedIn := sumMap{}
	expFunds := fundSums{}
	for _, f := range preF {
		v := f.V
		if f.F.Cand != 0 && m.punished[f.F.Cand] {
			v = floor95(f.V)
		}
		if f.F.Height > h {
			// not due: must still be frozen, untouched (or slashed with its punished candidate)
			if !take(f.F, v) {
				m.viol(s, "fund-vanished-early", f.F.kind(), fmt.Sprintf("%s (due in %d blocks) is not frozen any more after block %d", fundStr(f), f.F.Height-h, h), req.Height, -1)
			}
			continue
		}
		// due now (BeginBlock judged the balances): the fund is gone, its event is there, a move reached its target
		m.Res.Evaluations++
		org := m.origin[f.F]
		if org == "" {
			org = "genesis"
		}
		cls := "matured/" + f.F.kind() + "/from-" + org
		if f.F.Cand != 0 && m.punished[f.F.Cand] {
			cls += "/slashed"
		}
		if f.F.Height < h {
			m.viol(s, "fund-overdue", f.F.kind(), fmt.Sprintf("%s was still frozen after its height", fundStr(f)), req.Height, -1)
		}
		k := evk{f.F.kind(), f.F.Addr, f.F.Coin, v.String()}
		if f.F.MoveTo != 0 && preCand[f.F.MoveTo] == nil {
			// the target was removed while the move was in flight: nothing can be delegated; the coins must stay
			// frozen like an unbond (one unbond period from now, towards the owner), never credited now
			cls += "/target-vanished=>refrozen-as-unbond"
			rf := c16Fund{h + m.U, f.F.Addr, f.F.Coin, f.F.Cand, 0, f.F.HasKey}
			found := false
			for _, x := range remaining {
				if x.F == rf && x.V.Cmp(v) == 0 {
					found = true
				}
			}
			if !found {
				m.viol(s, "move-matured-without-target", "not-refrozen-for-unbond-period", fmt.Sprintf("%s matured at %d, candidate %d does not exist: expected %s=%s", fundStr(f), h, f.F.MoveTo, rf, v), req.Height, -1)
			}
			expFunds.add(rf, v)
			delete(m.origin, f.F)
			m.origin[rf] = "vanished-move-target"
			m.Res.Seen(cls)
			continue
		}
		if evCnt[k] > 0 {
			evCnt[k]--
		} else {
			m.viol(s, "maturity-event-missing", f.F.kind(), fmt.Sprintf("no %s event for %s (value released %s) at %d", f.F.kind(), fundStr(f), v, h), req.Height, -1)
		}
		if f.F.MoveTo != 0 {
			tk := c16Key{f.F.MoveTo, f.F.Addr, f.F.Coin}
			maturedIn.add(tk, v)
			if c := postCand[f.F.MoveTo]; c != nil {
				cls += fmt.Sprintf("/target-status-%d", c.Status)
			} else {
				cls += "/target-removed-this-block"
			}
		}
		delete(m.origin, f.F)
		m.Res.Seen(cls)
		if f.F.Height > uint64(s.W.InitialHeight)+70 {
			m.Res.Sample(map[string]interface{}{"what": cls, "height": h, "fund": fundStr(f), "released": v.String()}, 8)
		}
	}
	for _, f := range remaining {
		if f.F.Height <= h {
			m.viol(s, "fund-overdue", f.F.kind(), fmt.Sprintf("%s is frozen at a height that has passed (%d)", fundStr(f), h), req.Height, -1)
		}
	}

	// ---- staking ledger equation per (candidate, owner, coin) -----------------------------------------
	bPre, wPre, bPost, wPost := sumMap{}, sumMap{}, sumMap{}, sumMap{}
	fill := func(e *types.AppState, b, w sumMap) {
		for _, c := range e.Candidates {
			for _, st := range c.Stakes {
				b.add(c16Key{c.ID, st.Owner, st.Coin}, BI(st.Value))
			}
			for _, st := range c.Updates {
				b.add(c16Key{c.ID, st.Owner, st.Coin}, BI(st.Value))
			}
		}
		for _, x := range e.Waitlist {
			w.add(c16Key{x.CandidateID, x.Owner, x.Coin}, BI(x.Value))
		}
	}
	fill(pre, bPre, wPre)
	fill(post, bPost, wPost)
	keys := map[c16Key]bool{}
	for _, mm := range []sumMap{bPre, wPre, bPost, wPost, m.in, m.outTx, m.byzDec, maturedIn} {
		for k := range mm {
			keys[k] = true
		}
	}
	var ks []c16Key
	for k := range keys {
		ks = append(ks, k)
	}
	sort.Slice(ks, func(a, b int) bool { return ks[a].String() < ks[b].String() })
	for _, k := range ks {
		want := new(big.Int).Add(bPre.get(k), wPre.get(k))
		want.Add(want, m.in.get(k)).Add(want, maturedIn.get(k)).Sub(want, m.outTx.get(k)).Sub(want, m.byzDec.get(k))
		got := new(big.Int).Add(bPost.get(k), wPost.get(k))
		leave := new(big.Int).Sub(want, got)
		if bz := m.byzDec.get(k); bz.Sign() > 0 {
			// what byzantine punishment took out of the stake must come back one unbond period later (less the 5%)
			expFunds.add(c16Fund{h + m.U, k.Owner, k.Coin, k.Cand, 0, true}, floor95(bz))
			m.Res.Evaluations++
			m.Res.Seen("leave/byzantine-unbond")
		}
		switch {
		case leave.Sign() == 0:
		case leave.Sign() > 0:
			pc := preCand[k.Cand]
			gone := postCand[k.Cand] == nil
			var pk types.Pubkey
			if pc != nil {
				pk = pc.PubKey
			} else if p2, ok := m.cur.cands[k.Cand]; ok {
				pk = p2
			}
			if gone && (removedEv[pk] || anyRemoved(removedEv, postPub, k.Cand)) {
				expFunds.add(c16Fund{h + m.U, k.Owner, k.Coin, k.Cand, 0, true}, leave)
				m.Res.Evaluations++
				m.Res.Seen("leave/candidate-removed")
			} else {
				m.viol(s, "stake-left-unexplained", "EndBlock", fmt.Sprintf("%s: staked total is %s after block %d, the ledger says %s (pre %s+%s, in %s, matured moves %s, left by tx %s, byzantine %s)", k, got, h, want, bPre.get(k), wPre.get(k), m.in.get(k), maturedIn.get(k), m.outTx.get(k), m.byzDec.get(k)), req.Height, -1)
			}
		default:
			site := "surplus"
			if maturedIn.get(k).Sign() > 0 {
				site = "move-target"
			}
			m.viol(s, "staking-total-mismatch", site, fmt.Sprintf("%s: staked total is %s after block %d, the ledger says %s (pre %s+%s, in %s, matured moves %s, left by tx %s, byzantine %s)", k, got, h, want, bPre.get(k), wPre.get(k), m.in.get(k), maturedIn.get(k), m.outTx.get(k), m.byzDec.get(k)), req.Height, -1)
		}
		if maturedIn.get(k).Sign() > 0 && leave.Sign() > 0 && postCand[k.Cand] != nil {
			m.viol(s, "moved-coins-not-credited-to-target", "BeginBlock", fmt.Sprintf("%s: matured moves %s did not reach the candidate", k, maturedIn.get(k)), req.Height, -1)
		}
		if wPost.get(k).Cmp(wPre.get(k)) > 0 {
			m.Res.Seen("waitlist-grew(kick)")
		}
	}
	// ---- every new frozen fund is explained: by a transaction judged above, a removal or a punishment ---
	for _, f := range m.txFunds {
		expFunds.add(f.F, f.V)
	}
	gotFunds := fundSums{}
	for _, f := range remaining {
		gotFunds.add(f.F, f.V)
		if _, ok := m.origin[f.F]; !ok {
			m.origin[f.F] = "block"
		}
	}
	fkeys := map[c16Fund]bool{}
	for f := range expFunds {
		fkeys[f] = true
	}
	for f := range gotFunds {
		fkeys[f] = true
	}
	var fl []c16Fund
	for f := range fkeys {
		fl = append(fl, f)
	}
	sort.Slice(fl, func(a, b int) bool { return fl[a].String() < fl[b].String() })
	z := new(big.Int)
	for _, f := range fl {
		e, g := expFunds[f], gotFunds[f]
		if e == nil {
			e = z
		}
		if g == nil {
			g = z
		}
		switch c := g.Cmp(e); {
		case c > 0:
			m.viol(s, "fund-unexplained", "block/"+f.kind(), fmt.Sprintf("%s holds %s after block %d but only %s left staking towards it", f, g, h, e), req.Height, -1)
		case c < 0:
			m.viol(s, "leave-without-fund", "block/"+f.kind(), fmt.Sprintf("%s holds %s after block %d although %s left staking towards it", f, g, h, e), req.Height, -1)
		}
	}
	m.Res.Count("blocks_judged", 1)
	m.Res.Count("funds_persisting_checked", int64(len(preF)))
}

func anyRemoved(removed map[types.Pubkey]bool, pubID map[types.Pubkey]uint64, id uint64) bool {
	for pk := range removed {
		if pubID[pk] == id {
			return true
		}
	}
	return false
}

// OnPanic attributes a BeginBlock panic to a matured move whose target does not exist.
func (m *MonStaking) OnPanic(s *Sim, req *BlockReq, pi *PanicInfo, txIndex int) {
	if pi.Call != "BeginBlock" || s.Post == nil {
		return
	}
	ids := map[uint64]bool{}
	for _, c := range s.Post.Candidates {
		ids[c.ID] = true
	}
	for _, f := range s.Post.FrozenFunds {
		if f.Height == uint64(req.Height) && f.MoveToCandidateID != 0 && !ids[f.MoveToCandidateID] {
			m.viol(s, "move-matured-without-target", "BeginBlock-panic", fmt.Sprintf("move of %s coin %d by %s to candidate %d matured at %d; the candidate does not exist and BeginBlock panicked: %s", f.Value, f.Coin, f.Address.String(), f.MoveToCandidateID, req.Height, firstLine(pi.Value)), req.Height, -1)
			return
		}
	}
}

// ---- workload -------------------------------------------------------------------------------------------

func c16Mons(res *WorkerResult) []Monitor { return []Monitor{&MonStaking{Res: res}} }

func init() {
	MonitorsFor["C16"] = c16Mons
	Register(&CheckDef{
		ID: "C16", Level: "exploration",
		Rule: "generated histories of 230..640 blocks on the testnet period constants (unbond 531, move 177 blocks) over all genesis families (genesis-injected unbond/lock/move funds due within 62 blocks; 'locktime' family for LockStake; 'crowded' family with 99 candidates for removals), staking-heavy transaction mix (delegate, unbond, move, lock, lockstake, declare, on/off, public-key change) plus aimed transactions (moves to the weakest / offline / deleted candidates and to random keys, unbond and move attempts of locked accounts); the monitor keeps a staking ledger from accessor snapshots around BeginBlock and every DeliverTx, frozen-fund lists at h+531 / h+177 / due block, exports, events and the bytes sent; one evaluation = one judged departure from staking (accepted unbond/move, removal, byzantine unbond), one accepted Lock, one matured fund (credit at its height, not before), or one unbond attempt of a locked account; distinct = kind of departure x source (stake/waitlist) x kind and origin of matured fund x target status x lock-gate outcomes",
		Assumptions: []string{
			"the statement's periods are the chain constants of the testnet chain id (531/177); mainnet constants differ only in value",
			"stake updates (pending delegations) are not readable inside a block: per-transaction judgement covers stakes and waitlists, pending delegations are covered by the per-block ledger equation over the exports",
			"reward payouts are delegated to the paying candidate: RewardEvents are taken as inflow of the ledger, their amounts are C19's subject",
			"a byzantine punishment is recognised by the stake reduction observed in BeginBlock together with evidence in the request; when it must happen is C18's subject",
		},
		Quick: 28, Thorough: 280, MinEval: 4000, MinDistinct: 20,
		Run: runC16,
		Post: func(total *WorkerResult) {
			requireClasses(total, "leave/unbond/", "leave/move/", "matured/unbond/from-tx-08", "matured/move/from-tx-1b", "matured/lock/", "lock-created/",
				"lock-gate/unbond-rejected-code-416", "leave/candidate-removed", "leave/byzantine-unbond")
		},
	})
}

func runC16(ctx *WorkCtx, idx int) {
	r := Rng(ctx.Seed, "C16", idx)
	blocks := 230 + r.Intn(40)
	if idx%2 == 1 {
		blocks = 590 + r.Intn(50) // reaches the unbond period
	}
	sc := StdScenario(idx, r, blocks)
	if sc.Family == "crowded" && idx < 28 && blocks > 300 {
		blocks = 280 + r.Intn(20) // 99 candidates make every block expensive: the long crowded histories are left to the thorough tier
		sc.Blocks = blocks
	}
	if sc.Family == "crowded" {
		sc.Opts.StakePeriod = uint64([]int{6, 12, 24}[r.Intn(3)])
	}
	s, d := sc.Build("C16", ctx.Seed, idx, r, c16Mons(ctx.Res)...)
	g := d.G
	for _, t := range AllTxTypes {
		g.SetWeight(t, 2)
	}
	g.SetWeight(tx.TypeSend, 6)
	g.SetWeight(tx.TypeDelegate, 30)
	g.SetWeight(tx.TypeUnbond, 40)
	g.SetWeight(tx.TypeMoveStake, 40)
	g.SetWeight(tx.TypeLock, 16)
	g.SetWeight(tx.TypeDeclareCandidacy, 8)
	g.SetWeight(tx.TypeSetCandidateOnline, 6)
	g.SetWeight(tx.TypeSetCandidateOffline, 4)
	g.SetWeight(tx.TypeEditCandidatePublicKey, 1)
	g.SetWeight(tx.TypeSetHaltBlock, 0)
	g.SetWeight(tx.TypeVoteUpdate, 0)
	g.SetWeight(tx.TypeVoteCommission, 0)
	g.SetWeight(tx.TypePriceVote, 0)
	g.SetWeight(tx.TypeLockStake, 0)
	if sc.Family == "locktime" {
		g.SetWeight(tx.TypeLockStake, 3)
	}
	if sc.Family == "crowded" {
		g.SetWeight(tx.TypeDeclareCandidacy, 25)
	}
	g.PInvalid, g.PBound = 0.12, 0.15
	d.MaxTxs = 5
	d.PByz = 0.004
	d.PAbsent = 0.005
	for i := 0; i < blocks && !s.Dead && !s.Stopped; i++ {
		if i > 0 && d.R.Intn(10) == 0 {
			// process restart: what is frozen must be what the disk holds (lead: added after seed C16-m4, a fund added after a
			// restart to a height that already has a committed record)
			s.Restart()
			ctx.Res.Count("restarts", 1)
			ctx.Res.Seen("process restarted while funds are frozen")
		}
		c16Block(d, sc.Family)
	}
	ctx.Res.Count("blocks", s.H-s.W.InitialHeight+1)
	ctx.Res.Count("family/"+sc.Family, 1)
	for k, v := range s.Stats {
		if len(k) > 3 && (k[:5] == "tx/08" || k[:5] == "tx/1b" || k[:5] == "tx/25" || k[:5] == "tx/26") {
			ctx.Res.Count(k, int64(v))
		}
	}
	ctx.Collect(s, idx)
	s.Finish()
}

// c16Aimed builds 0..2 aimed transactions for the next block.
func c16Aimed(d *Driver, family string) []*draft {
	g, R, e := d.G, d.R, d.S.Post
	if e == nil || R.Intn(4) != 0 {
		return nil
	}
	var out []*draft
	h := uint64(d.S.H + 1)
	isVal := map[types.Pubkey]bool{}
	for _, v := range e.Validators {
		isVal[v.PubKey] = true
	}
	stakesOf := func(owner types.Address) []stakeRef {
		var l []stakeRef
		for _, c := range e.Candidates {
			for _, st := range c.Stakes {
				if st.Owner == owner && BI(st.Value).Sign() > 0 {
					l = append(l, stakeRef{c.PubKey, st.Owner, types.CoinID(st.Coin), BI(st.Value), false})
				}
			}
		}
		return l
	}
	part := func(v *big.Int) *big.Int {
		x := new(big.Int).Div(v, big.NewInt(int64(2+R.Intn(20))))
		if x.Sign() == 0 {
			return new(big.Int).Set(v)
		}
		return x
	}
	switch R.Intn(6) {
	case 5: // a Lock that matures at a height which already holds a fund of somebody (lead: added after seed C16-m4)
		var hs []uint64
		for _, f := range e.FrozenFunds {
			if f.Height > h+1 {
				hs = append(hs, f.Height)
			}
		}
		if len(hs) == 0 {
			break
		}
		k := g.user()
		c, b := g.heldCoin(k.Addr)
		if b.Sign() <= 0 {
			break
		}
		snd := Senderish{K: k}
		out = append(out, &draft{t: tx.TypeLock, kind: "valid", note: "aimed-lock-at-occupied-height", sender: &snd,
			data: tx.LockData{DueBlock: uint32(hs[R.Intn(len(hs))]), Coin: c, Value: part(b)}})
	case 0: // move to the weakest non-validator candidate (the next one to be removed in a crowded set) or an offline one
		st := g.pickStake()
		if st == nil {
			break
		}
		var best *types.Candidate
		for i := range e.Candidates {
			c := &e.Candidates[i]
			if isVal[c.PubKey] || c.PubKey == st.pub {
				continue
			}
			if best == nil || BI(c.TotalBipStake).Cmp(BI(best.TotalBipStake)) < 0 || (R.Intn(6) == 0 && c.Status == 1) {
				best = c
			}
		}
		if best == nil {
			break
		}
		if snd, ok := g.signerFor(st.owner); ok {
			out = append(out, &draft{t: tx.TypeMoveStake, kind: "valid", note: "aimed-move-to-weakest", sender: &snd,
				data: tx.MoveStakeData{FromPubKey: st.pub, ToPubKey: best.PubKey, Coin: st.coin, Value: part(st.value)}})
		}
	case 1: // move to a deleted candidate / a random key
		st := g.pickStake()
		if st == nil {
			break
		}
		var to types.Pubkey
		note := "aimed-move-to-random-key"
		if len(e.DeletedCandidates) > 0 && R.Intn(3) != 0 {
			to = e.DeletedCandidates[R.Intn(len(e.DeletedCandidates))].PubKey
			note = "aimed-move-to-deleted"
		} else {
			R.Read(to[:])
		}
		if snd, ok := g.signerFor(st.owner); ok {
			out = append(out, &draft{t: tx.TypeMoveStake, kind: "valid", note: note, sender: &snd,
				data: tx.MoveStakeData{FromPubKey: st.pub, ToPubKey: to, Coin: st.coin, Value: part(st.value)}})
		}
	case 2, 3: // a locked account tries to get its stake out: unbond, move to a candidate, move to a random key
		var locked []types.Address
		for _, a := range e.Accounts {
			if a.LockStakeUntilBlock > h {
				if _, ok := g.signerFor(a.Address); ok && len(stakesOf(a.Address)) > 0 {
					locked = append(locked, a.Address)
				}
			}
		}
		if len(locked) == 0 {
			if family == "locktime" {
				// lock somebody who has a stake
				if st := g.pickStake(); st != nil {
					if snd, ok := g.signerFor(st.owner); ok {
						out = append(out, &draft{t: tx.TypeLockStake, kind: "valid", note: "aimed-lockstake", sender: &snd, data: tx.LockStakeData{}})
					}
				}
			}
			break
		}
		a := locked[R.Intn(len(locked))]
		l := stakesOf(a)
		st := l[R.Intn(len(l))]
		snd, _ := g.signerFor(a)
		out = append(out, &draft{t: tx.TypeUnbond, kind: "valid", note: "aimed-locked-unbond", sender: &snd,
			data: tx.UnbondDataV3{PubKey: st.pub, Coin: st.coin, Value: part(st.value)}})
		if to := g.cand(); to != nil && to.pub != st.pub {
			toPub := to.pub
			note := "aimed-locked-move"
			if R.Intn(3) == 0 {
				R.Read(toPub[:])
				note = "aimed-locked-move-to-random-key"
			}
			out = append(out, &draft{t: tx.TypeMoveStake, kind: "valid", note: note, sender: &snd,
				data: tx.MoveStakeData{FromPubKey: st.pub, ToPubKey: toPub, Coin: st.coin, Value: part(st.value)}})
		}
	case 4: // unbond everything that sits in a waitlist
		for _, w := range e.Waitlist {
			if snd, ok := g.signerFor(w.Owner); ok && R.Intn(2) == 0 {
				for _, c := range e.Candidates {
					if c.ID == w.CandidateID {
						out = append(out, &draft{t: tx.TypeUnbond, kind: "valid", note: "aimed-unbond-waitlist", sender: &snd,
							data: tx.UnbondDataV3{PubKey: c.PubKey, Coin: types.CoinID(w.Coin), Value: BI(w.Value)}})
					}
				}
				break
			}
		}
	}
	for _, x := range out {
		x.price1 = true
		zero := types.CoinID(0)
		x.gas = &zero
	}
	return out
}

// c16Block is Driver.Block with aimed transactions in front.
func c16Block(d *Driver, family string) *BlockRes {
	req := d.NextReq()
	aimed := c16Aimed(d, family)
	n := len(aimed) + d.R.Intn(d.MaxTxs+1)
	return d.S.RunBlock(req, nil, func(i int) ([]byte, TxMeta, bool) {
		if i > 0 {
			res := d.S.CurRes.Deliver[i-1]
			pm := d.S.Metas[i-1]
			d.G.Learn(&pm, res.Code, Tags(&res))
		}
		if i >= n {
			return nil, TxMeta{}, false
		}
		if i < len(aimed) {
			b, m := d.G.Envelope(aimed[i])
			return b, m, true
		}
		b, m := d.G.Next()
		return b, m, true
	})
}

// requireClasses makes a run that never observed one of the essential situation classes count as having observed nothing.
func requireClasses(total *WorkerResult, prefixes ...string) {
	for _, p := range prefixes {
		found := false
		for k := range total.Distinct {
			if len(k) >= len(p) && k[:len(p)] == p {
				found = true
				break
			}
		}
		if !found {
			total.Notes = append(total.Notes, "essential class never observed: "+p+" (evaluations reset to 0: the run is broken)")
			total.Evaluations = 0
		}
	}
}

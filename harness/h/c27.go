package h

// C27: fees are exactly the price table times the gas price.
//
// Oracle (MonFees): for every delivered harness-made transaction the monitor recomputes, from the price table in the
// export of the previous commit and from what the harness itself put into the transaction (type, payload and service
// data length, gas price, gas coin, number of multisend items, route length, ticker length):
//   price   = gasPrice * (typePrice + bytes * payloadByte)                      -> tx.commission_price (table coin units)
//   base    = price, or the reference pool quote (table coin -> base) when the table is denominated in a custom coin
//   amount  = base (gas coin = base coin), else min(reference pool quote, reference bancor quote) where both exist
// and compares with the tags, the payer's balance decrease (gas coin), the growth of the block's reward pool read
// between DeliverTx calls and, for ticker creation, the zero address.  Failed transactions: the same with the
// failed-tx price, capped at the payer's balance.
// References: the constant-product pool with 0.2% fee (0.1% burned) written from its definition on the reserves
// read before the transaction, and HPBancor (h/highprec.go) for the reserve route.  Pool quotes that touched limit
// orders (fills in the tags, or a pool that carries orders and a quote differing from the pure pool) are not judged for
// their amount (C14 judges the order book); the route choice against the bancor reference still is.

import (
	"fmt"
	"math/big"
	"math/rand"
	"os"
	"strings"

	"github.com/MinterTeam/minter-go-node/coreV2/check"
	tx "github.com/MinterTeam/minter-go-node/coreV2/transaction"
	"github.com/MinterTeam/minter-go-node/coreV2/types"
	"github.com/MinterTeam/minter-go-node/rlp"
	abci "github.com/tendermint/tendermint/abci/types"
)

// ---------------------------------------------------------------------------------------------------
// reference arithmetic

func ceilDiv(a *big.Int, d int64) *big.Int {
	q, m := new(big.Int).QuoRem(a, big.NewInt(d), new(big.Int))
	if m.Sign() > 0 {
		q.Add(q, big.NewInt(1))
	}
	return q
}

// refPoolSell: what a taker receives for selling x into a pool with reserves (rIn, rOut): 0.1% of x is burned, 0.2% of the
// rest stays in the pool as fee, the constant product must not decrease, and one unit is kept back. nil = nothing.
func refPoolSell(rIn, rOut, x *big.Int) *big.Int {
	if x.Sign() <= 0 {
		return nil
	}
	x1 := new(big.Int).Sub(x, ceilDiv(x, 1000))
	if x1.Sign() <= 0 {
		return nil
	}
	k := new(big.Int).Mul(rIn, rOut)
	k.Mul(k, big.NewInt(1000000))
	den := new(big.Int).Add(rIn, x1)
	den.Mul(den, big.NewInt(1000))
	den.Sub(den, new(big.Int).Mul(x1, big.NewInt(2)))
	den.Mul(den, big.NewInt(1000))
	out := new(big.Int).Sub(rOut, new(big.Int).Quo(k, den))
	out.Sub(out, big.NewInt(1))
	if out.Sign() <= 0 {
		return nil
	}
	return out
}

// refPoolBuy: what a taker must sell to receive exactly y from a pool with reserves (rIn, rOut). nil = impossible.
func refPoolBuy(rIn, rOut, y *big.Int) *big.Int {
	if y.Sign() <= 0 || y.Cmp(rOut) >= 0 {
		return nil
	}
	k := new(big.Int).Mul(rIn, rOut)
	k.Mul(k, big.NewInt(1000000))
	den := new(big.Int).Sub(rOut, y)
	den.Mul(den, big.NewInt(1000))
	x1 := new(big.Int).Quo(k, den)
	x1.Sub(x1, new(big.Int).Mul(rIn, big.NewInt(1000)))
	x1.Quo(x1, big.NewInt(998))
	x1.Add(x1, big.NewInt(1))
	if x1.Sign() <= 0 {
		return nil
	}
	return x1.Add(x1, ceilDiv(x1, 999))
}

var c27MinReserve = Bip(10000)

// feePrices is the price table as numbers.
type feePrices struct {
	Coin uint64
	m    map[string]*big.Int
}

func (f *feePrices) g(k string) *big.Int { return f.m[k] }

func parsePrices(c *types.Commission) *feePrices {
	return &feePrices{Coin: c.Coin, m: map[string]*big.Int{
		"payload_byte": BI(c.PayloadByte), "send": BI(c.Send), "buy_bancor": BI(c.BuyBancor), "sell_bancor": BI(c.SellBancor), "sell_all_bancor": BI(c.SellAllBancor),
		"buy_pool_base": BI(c.BuyPoolBase), "buy_pool_delta": BI(c.BuyPoolDelta), "sell_pool_base": BI(c.SellPoolBase), "sell_pool_delta": BI(c.SellPoolDelta),
		"sell_all_pool_base": BI(c.SellAllPoolBase), "sell_all_pool_delta": BI(c.SellAllPoolDelta),
		"ticker3": BI(c.CreateTicker3), "ticker4": BI(c.CreateTicker4), "ticker5": BI(c.CreateTicker5), "ticker6": BI(c.CreateTicker6), "ticker7_10": BI(c.CreateTicker7_10),
		"create_coin": BI(c.CreateCoin), "create_token": BI(c.CreateToken), "recreate_coin": BI(c.RecreateCoin), "recreate_token": BI(c.RecreateToken),
		"declare_candidacy": BI(c.DeclareCandidacy), "delegate": BI(c.Delegate), "unbond": BI(c.Unbond), "redeem_check": BI(c.RedeemCheck),
		"set_candidate_on": BI(c.SetCandidateOn), "set_candidate_off": BI(c.SetCandidateOff), "create_multisig": BI(c.CreateMultisig),
		"multisend_base": BI(c.MultisendBase), "multisend_delta": BI(c.MultisendDelta), "edit_candidate": BI(c.EditCandidate), "set_halt_block": BI(c.SetHaltBlock),
		"edit_ticker_owner": BI(c.EditTickerOwner), "edit_multisig": BI(c.EditMultisig), "edit_candidate_public_key": BI(c.EditCandidatePublicKey),
		"create_swap_pool": BI(c.CreateSwapPool), "add_liquidity": BI(c.AddLiquidity), "remove_liquidity": BI(c.RemoveLiquidity),
		"edit_candidate_commission": BI(c.EditCandidateCommission), "mint_token": BI(c.MintToken), "burn_token": BI(c.BurnToken),
		"vote_commission": BI(c.VoteCommission), "vote_update": BI(c.VoteUpdate), "failed_tx": BI(c.FailedTx), "add_limit_order": BI(c.AddLimitOrder),
		"remove_limit_order": BI(c.RemoveLimitOrder), "move_stake": BI(c.MoveStake), "lock_stake": BI(c.LockStake), "lock": BI(c.Lock)}}
}

// feeFacts is what the harness knows about a transaction from its own bytes.
type feeFacts struct {
	typ      byte
	gasPrice uint32
	gas      types.CoinID // coin the fee is paid in
	bytes    int64        // payload + service data
	n        int          // multisend items / coins of a pool route
	symLen   int          // ticker length (create coin / token)
	// the transaction's own debit of the payer in the gas coin (besides the fee); known=false when it depends on the node's arithmetic
	ownSpend *big.Int
	known    bool
}

func tickerKey(n int) string {
	switch n {
	case 3:
		return "ticker3"
	case 4:
		return "ticker4"
	case 5:
		return "ticker5"
	case 6:
		return "ticker6"
	}
	return "ticker7_10"
}

// typePrice is the price-table entry (table coin units, before gas price and bytes) of a transaction.
func (f *feeFacts) typePrice(p *feePrices) (*big.Int, bool) {
	lin := func(base, delta string, k int) *big.Int {
		return new(big.Int).Add(p.g(base), new(big.Int).Mul(p.g(delta), big.NewInt(int64(k))))
	}
	simple := map[byte]string{0x01: "send", 0x02: "sell_bancor", 0x03: "sell_all_bancor", 0x04: "buy_bancor", 0x06: "declare_candidacy", 0x07: "delegate", 0x08: "unbond",
		0x09: "redeem_check", 0x0A: "set_candidate_on", 0x0B: "set_candidate_off", 0x0C: "create_multisig", 0x0E: "edit_candidate", 0x0F: "set_halt_block",
		0x10: "recreate_coin", 0x11: "edit_ticker_owner", 0x12: "edit_multisig", 0x14: "edit_candidate_public_key", 0x15: "add_liquidity", 0x16: "remove_liquidity",
		0x1A: "edit_candidate_commission", 0x1B: "move_stake", 0x1C: "mint_token", 0x1D: "burn_token", 0x1F: "recreate_token", 0x20: "vote_commission", 0x21: "vote_update",
		0x22: "create_swap_pool", 0x23: "add_limit_order", 0x24: "remove_limit_order", 0x25: "lock_stake", 0x26: "lock"}
	if k, ok := simple[f.typ]; ok {
		return new(big.Int).Set(p.g(k)), true
	}
	switch f.typ {
	case 0x05:
		return new(big.Int).Add(p.g("create_coin"), p.g(tickerKey(f.symLen))), true
	case 0x1E:
		return new(big.Int).Add(p.g("create_token"), p.g(tickerKey(f.symLen))), true
	case 0x0D:
		return lin("multisend_base", "multisend_delta", f.n-1), true
	case 0x17:
		return lin("sell_pool_base", "sell_pool_delta", f.n-2), true
	case 0x18:
		return lin("buy_pool_base", "buy_pool_delta", f.n-2), true
	case 0x19:
		return lin("sell_all_pool_base", "sell_all_pool_delta", f.n-2), true
	}
	return nil, false
}

func inCoins(c types.CoinID, l ...types.CoinID) bool {
	for _, x := range l {
		if x == c {
			return true
		}
	}
	return false
}

// factsOf reads the fee-relevant facts back from the bytes the harness made.
func factsOf(s *Sim, bz []byte, meta *TxMeta) (*feeFacts, bool) {
	t, ok := decodeEnvelope(bz)
	if !ok {
		return nil, false
	}
	f := &feeFacts{typ: byte(t.Type), gasPrice: t.GasPrice, gas: t.GasCoin, bytes: int64(len(t.Payload) + len(t.ServiceData)), ownSpend: new(big.Int), known: true}
	snd := addrOf(meta.Sender)
	spendIf := func(coin types.CoinID, v *big.Int) {
		if coin == f.gas && v != nil {
			f.ownSpend.Add(f.ownSpend, v)
		}
	}
	dec := func(v interface{}) bool { return rlp.DecodeBytes(t.Data, v) == nil }
	switch t.Type {
	case tx.TypeSend:
		var d tx.SendData
		if !dec(&d) {
			return nil, false
		}
		if d.To != snd {
			spendIf(d.Coin, d.Value)
		}
	case tx.TypeMultisend:
		var d tx.MultisendData
		if !dec(&d) {
			return nil, false
		}
		f.n = len(d.List)
		for _, it := range d.List {
			if it.To != snd {
				spendIf(it.Coin, it.Value)
			}
		}
	case tx.TypeSellCoin, tx.TypeBuyCoin, tx.TypeSellAllCoin, tx.TypeSellSwapPool, tx.TypeBuySwapPool, tx.TypeSellAllSwapPool:
		tr, ok := decodeTrade(bz)
		if !ok {
			return nil, false
		}
		f.n = len(tr.Coins)
		f.gas = tr.GasCoin
		f.known = !inCoins(f.gas, tr.Coins...)
	case tx.TypeCreateCoin:
		var d tx.CreateCoinData
		if !dec(&d) {
			return nil, false
		}
		f.symLen = len(d.Symbol.String())
		spendIf(0, d.InitialReserve)
	case tx.TypeRecreateCoin:
		var d tx.RecreateCoinData
		if !dec(&d) {
			return nil, false
		}
		spendIf(0, d.InitialReserve)
	case tx.TypeCreateToken:
		var d tx.CreateTokenData
		if !dec(&d) {
			return nil, false
		}
		f.symLen = len(d.Symbol.String())
	case tx.TypeDeclareCandidacy:
		var d tx.DeclareCandidacyData
		if !dec(&d) {
			return nil, false
		}
		spendIf(d.Coin, d.Stake)
	case tx.TypeDelegate:
		var d tx.DelegateDataV260
		if !dec(&d) {
			return nil, false
		}
		spendIf(d.Coin, d.Value)
	case tx.TypeLock:
		var d tx.LockData
		if !dec(&d) {
			return nil, false
		}
		spendIf(d.Coin, d.Value)
	case tx.TypeBurnToken:
		var d tx.BurnTokenDataV260
		if !dec(&d) {
			return nil, false
		}
		spendIf(d.Coin, d.Value)
	case tx.TypeMintToken:
		var d tx.MintTokenData
		if !dec(&d) {
			return nil, false
		}
		if d.Coin == f.gas && d.Value != nil {
			f.ownSpend.Sub(f.ownSpend, d.Value)
		}
	case tx.TypeAddLimitOrder:
		var d tx.AddLimitOrderData
		if !dec(&d) {
			return nil, false
		}
		spendIf(d.CoinToSell, d.ValueToSell)
	case tx.TypeCreateSwapPool:
		var d tx.CreateSwapPoolData
		if !dec(&d) {
			return nil, false
		}
		spendIf(d.Coin0, d.Volume0)
		spendIf(d.Coin1, d.Volume1)
	case tx.TypeAddLiquidity:
		var d tx.AddLiquidityDataV260
		if !dec(&d) {
			return nil, false
		}
		spendIf(d.Coin0, d.Volume0)
		f.known = d.Coin1 != f.gas && !isLPCoin(s, f.gas)
	case tx.TypeRemoveLiquidity:
		var d tx.RemoveLiquidityV240
		if !dec(&d) {
			return nil, false
		}
		f.known = !inCoins(f.gas, d.Coin0, d.Coin1) && !isLPCoin(s, f.gas)
	case tx.TypeRemoveLimitOrder:
		f.known = false
	case tx.TypeRedeemCheck:
		var d tx.RedeemCheckData
		if !dec(&d) {
			return nil, false
		}
		c, err := check.DecodeFromBytes(d.RawCheck)
		if err != nil {
			return nil, false
		}
		spendIf(c.Coin, c.Value)
	}
	return f, true
}

func isLPCoin(s *Sim, c types.CoinID) bool {
	if m := s.N.App.CurrentState().Coins().GetCoin(c); m != nil {
		return strings.HasPrefix(m.GetFullSymbol(), "LP-")
	}
	return false
}

// ---------------------------------------------------------------------------------------------------
// monitor

type feeObs struct {
	f        *feeFacts
	payer    types.Address
	bal0     map[types.CoinID]*big.Int
	rew0     *big.Int
	zero0    *big.Int
	gasPool  [2]*big.Int // reserves (gas coin, base) before; nil = no pool
	tabPool  [2]*big.Int // reserves (table coin, base) before
	vol, res *big.Int    // bancor volume / reserve of the gas coin before
	crr      int
	isCoin   bool
}

// MonFees implements C27.
type MonFees struct {
	BaseMon
	Res       *WorkerResult
	cur       *feeObs
	dirtyPool map[string]bool // pools that received a limit order in the current block
}

func (m *MonFees) Name() string { return "C27" }

func (m *MonFees) BeforeBlock(s *Sim, req *BlockReq) { m.dirtyPool = map[string]bool{} }

func poolKey(a, b types.CoinID) string {
	if a > b {
		a, b = b, a
	}
	return fmt.Sprintf("%d-%d", a, b)
}

// poolHasOrders: the last export lists orders of that pool, or one was placed in this block.
func (m *MonFees) poolHasOrders(s *Sim, a, b types.CoinID) bool {
	if m.dirtyPool[poolKey(a, b)] {
		return true
	}
	if a > b {
		a, b = b, a
	}
	for _, p := range s.Post.Pools {
		if types.CoinID(p.Coin0) == a && types.CoinID(p.Coin1) == b {
			return len(p.Orders) > 0
		}
	}
	return false
}

func livePool(s *Sim, a, b types.CoinID) [2]*big.Int {
	r0, r1, _ := s.N.App.CurrentState().Swap().SwapPool(a, b)
	if r0 == nil || r1 == nil {
		return [2]*big.Int{}
	}
	return [2]*big.Int{new(big.Int).Set(r0), new(big.Int).Set(r1)}
}

func (m *MonFees) BeforeTx(s *Sim, i int, bz []byte, meta *TxMeta) {
	m.cur = nil
	if meta.Kind == "mutated" || meta.Kind == "raw" || meta.Kind == "replay" || meta.Sender == "" || s.Post == nil {
		return
	}
	f, ok := factsOf(s, bz, meta)
	if !ok {
		return
	}
	payer, _ := payerOf(meta)
	cs := s.N.App.CurrentState()
	o := &feeObs{f: f, payer: payer, bal0: balancesOf(s, payer), rew0: new(big.Int).Set(s.N.App.GetCurrentRewards()),
		zero0: new(big.Int).Set(cs.Accounts().GetBalance(types.Address{}, 0))}
	if f.gas != 0 {
		gm := cs.Coins().GetCoin(f.gas)
		if gm == nil {
			return // unknown gas coin: rejected before anything is charged
		}
		o.isCoin = gm.Crr() > 0
		o.crr = int(gm.Crr())
		o.vol, o.res = new(big.Int).Set(gm.Volume()), new(big.Int).Set(gm.Reserve())
		o.gasPool = livePool(s, f.gas, 0)
	}
	if tc := types.CoinID(s.Post.Commission.Coin); tc != 0 {
		o.tabPool = livePool(s, tc, 0)
	}
	m.cur = o
}

func (m *MonFees) viol(s *Sim, i int, rule, site, detail string) {
	o := m.cur
	s.Report(Violation{Property: "C27", Rule: rule, Site: site, Height: s.CurReq.Height, TxIndex: i,
		Detail: fmt.Sprintf("type %02x gas coin %d gas price %d bytes %d payer %s: %s", o.f.typ, o.f.gas, o.f.gasPrice, o.f.bytes, o.payer.String(), detail)})
}

// toBase converts a table-coin amount to base coin: (value, exact). exact=false when the table pool carries orders (then the conversion is not judged).
func (m *MonFees) toBase(s *Sim, pool [2]*big.Int, p *big.Int) (*big.Int, bool) {
	tc := types.CoinID(s.Post.Commission.Coin)
	if tc == 0 || p.Sign() == 0 {
		return new(big.Int).Set(p), true
	}
	if pool[0] == nil {
		return nil, false
	}
	v := refPoolSell(pool[0], pool[1], p)
	return v, !m.poolHasOrders(s, tc, 0)
}

func (m *MonFees) AfterTx(s *Sim, i int, bz []byte, meta *TxMeta, res *abci.ResponseDeliverTx) {
	o := m.cur
	if o == nil {
		return
	}
	defer func() { m.cur = nil }()
	f := o.f
	tags := Tags(res)
	if res.Code == 0 && f.typ == 0x23 {
		var d tx.AddLimitOrderData
		if t, ok := decodeEnvelope(bz); ok && rlp.DecodeBytes(t.Data, &d) == nil {
			m.dirtyPool[poolKey(d.CoinToSell, d.CoinToBuy)] = true
		}
	}
	tab := parsePrices(&s.Post.Commission)
	failed := res.Code != 0
	_, charged := tags["tx.fail_fee"]
	if failed && !charged {
		m.Res.Count("rejected_without_fee", 1)
		return
	}
	site := fmt.Sprintf("type %02x", f.typ)
	// 1. price in table units
	var unit *big.Int
	if failed {
		unit = new(big.Int).Set(tab.g("failed_tx"))
		site = "failed-tx"
	} else {
		tp, ok := f.typePrice(tab)
		if !ok {
			m.Res.Count("type_without_reference_price", 1)
			return
		}
		unit = tp
	}
	unit.Add(unit, new(big.Int).Mul(big.NewInt(f.bytes), tab.g("payload_byte")))
	price := new(big.Int).Mul(unit, big.NewInt(int64(f.gasPrice)))
	m.Res.Evaluations++
	if !failed {
		if got := tags["tx.commission_price"]; got != price.String() {
			m.viol(s, i, "commission-price", site, fmt.Sprintf("tx.commission_price=%s, price table gives %s (table coin %d)", got, price, tab.Coin))
			m.Res.Count("wrong_price_followed", 1)
			if g := BI(got); g.Sign() >= 0 {
				price = g // judge the conversions of the price the node really used: one defect, one signature
			}
		}
		if got := tags["tx.commission_price_coin"]; got != fmt.Sprint(tab.Coin) {
			m.viol(s, i, "commission-price", "price-coin", fmt.Sprintf("tx.commission_price_coin=%s, table coin is %d", got, tab.Coin))
		}
	}
	// 2. base coin value
	base, baseExact := m.toBase(s, o.tabPool, price)
	if base == nil {
		m.Res.Inconcl = append(m.Res.Inconcl, fmt.Sprintf("height %d tx %d: price %s of table coin %d not convertible by the reference", s.CurReq.Height, i, price, tab.Coin))
		return
	}
	// 3. observed charge
	var fee, inBase *big.Int
	det := ParsePoolTag(tags["tx.commission_details"])
	route := "base"
	if f.gas != 0 {
		route = "bancor"
		if det != nil {
			route = "pool"
		}
	}
	if failed {
		fee = BI(tags["tx.fail_fee"])
		switch route {
		case "pool":
			inBase = BI(det.ValueOut)
		case "bancor":
			inBase = BI(tags["tx.fail_fee_reserve"])
		default:
			inBase = new(big.Int).Set(fee)
		}
	} else {
		fee = BI(tags["tx.commission_amount"])
		inBase = BI(tags["tx.commission_in_base_coin"])
		if got := tags["tx.commission_coin"]; got != fmt.Sprint(uint32(f.gas)) {
			m.viol(s, i, "commission-coin", site, fmt.Sprintf("tx.commission_coin=%s, fee coin of the transaction is %d", got, f.gas))
		}
		if route == "pool" && (BI(det.ValueIn).Cmp(fee) != 0 || BI(det.ValueOut).Cmp(inBase) != 0 || types.CoinID(det.CoinIn) != f.gas || det.CoinOut != 0) {
			m.viol(s, i, "commission-details", site, fmt.Sprintf("tx.commission_details %s->%s coins %d->%d, tags say amount %s base %s", det.ValueIn, det.ValueOut, det.CoinIn, det.CoinOut, fee, inBase))
		}
	}
	fills := det != nil && det.Details != nil && len(det.Details.Orders) > 0
	// reference quotes of both routes on the state before the transaction
	var qP, qB *big.Int
	var bref BancorRef
	if f.gas != 0 && base.Sign() > 0 {
		if o.gasPool[0] != nil {
			qP = refPoolBuy(o.gasPool[0], o.gasPool[1], base)
		}
		if o.isCoin && new(big.Int).Sub(o.res, base).Cmp(c27MinReserve) >= 0 {
			bref = HPBancor(BSaleAmount, o.vol, o.res, o.crr, base)
			qB = bref.Floor
		}
	}
	capped := false
	cls := ""
	near := func(a, b *big.Int, ref *BancorRef) bool {
		return new(big.Int).Abs(new(big.Int).Sub(a, b)).Cmp(c12Tol(ref)) <= 0
	}
	switch {
	case f.gas == 0:
		want := new(big.Int).Set(base)
		if failed && bget(o.bal0, 0).Cmp(want) < 0 {
			want = new(big.Int).Set(bget(o.bal0, 0))
			capped = true
		}
		cls = "gas=base"
		if !baseExact {
			cls += " (table pool carries orders: conversion not judged)"
		} else if fee.Cmp(want) != 0 {
			m.viol(s, i, "base-value", site, fmt.Sprintf("fee %s in base coin, reference %s (price %s of table coin %d, capped=%v)", fee, want, price, tab.Coin, capped))
		}
		if inBase.Cmp(fee) != 0 {
			m.viol(s, i, "base-value", site, fmt.Sprintf("tx.commission_in_base_coin=%s but the fee in base coin is %s", inBase, fee))
		}
	case base.Sign() == 0:
		cls = "zero price"
		if fee.Sign() != 0 || inBase.Sign() != 0 {
			m.viol(s, i, "gas-coin-amount", site, fmt.Sprintf("price 0 but fee %s / base %s", fee, inBase))
		}
	default:
		if failed && bget(o.bal0, f.gas).Cmp(fee) == 0 && ((route == "pool" && qP != nil && fee.Cmp(qP) < 0) || (route == "bancor" && qB != nil && fee.Cmp(qB) < 0 && !near(fee, qB, &bref))) {
			capped = true
		}
		poolOrders := m.poolHasOrders(s, f.gas, 0)
		switch route {
		case "pool":
			cls = "gas=custom route=pool"
			if qB != nil {
				cls += " (bancor also possible)"
			}
			if o.gasPool[0] == nil {
				m.viol(s, i, "route", site, "fee converted through a pool that does not exist")
				break
			}
			if !baseExact {
				cls += " table-pool-orders"
			}
			switch {
			case capped:
				cls += " capped"
				if !fills {
					if want := refPoolSell(o.gasPool[0], o.gasPool[1], fee); want == nil || want.Cmp(inBase) != 0 {
						m.viol(s, i, "base-value", site, fmt.Sprintf("capped fee %s sold through the pool gives %v by the reference, node says %s", fee, want, inBase))
					}
				}
			case fills || (poolOrders && (qP == nil || fee.Cmp(qP) != 0)):
				cls += " orders-involved (amount not judged)"
				if baseExact && qB != nil && fee.Cmp(new(big.Int).Add(qB, c12Tol(&bref))) > 0 {
					m.viol(s, i, "route", site, fmt.Sprintf("pool route charged %s although the bancor route costs %s", fee, qB))
				}
			case baseExact:
				if qP == nil || fee.Cmp(qP) != 0 {
					m.viol(s, i, "gas-coin-amount", site, fmt.Sprintf("pool route charged %s, reference quote for %s base coin on reserves %s/%s is %v", fee, base, o.gasPool[0], o.gasPool[1], qP))
				} else if want := refPoolSell(o.gasPool[0], o.gasPool[1], fee); want == nil || want.Cmp(inBase) != 0 {
					m.viol(s, i, "base-value", site, fmt.Sprintf("selling the fee %s through the pool gives %v by the reference, node says %s", fee, want, inBase))
				}
				if qB != nil && qP != nil && qP.Cmp(new(big.Int).Add(qB, c12Tol(&bref))) > 0 {
					m.viol(s, i, "route", site, fmt.Sprintf("pool route charged %s although the bancor route costs %s", fee, qB))
				}
			}
			// (what the swap of the quoted amount returns is compared with the reference above; it may fall short of the price by
			// the pool's rounding, which is worth a few units of the dearer coin - counted, not judged)
			if !capped && baseExact && inBase.Cmp(base) < 0 {
				m.Res.Count("fee_swap_returns_less_than_price_by_rounding", 1)
			}
		case "bancor":
			cls = "gas=custom route=bancor"
			if qP != nil {
				cls += " (pool also possible)"
			}
			if !o.isCoin {
				m.viol(s, i, "route", site, "fee converted through the reserve of a coin without reserve")
				break
			}
			if !baseExact {
				cls += " table-pool-orders (not judged)"
				break
			}
			if capped {
				cls += " capped"
				r := HPBancor(BSaleReturn, o.vol, o.res, o.crr, fee)
				if !near(inBase, r.Floor, &r) {
					m.viol(s, i, "base-value", site, fmt.Sprintf("capped fee %s sold to the reserve gives %s by the reference, node says %s", fee, r.Floor, inBase))
				}
				break
			}
			if qB == nil || !near(fee, qB, &bref) {
				m.viol(s, i, "gas-coin-amount", site, fmt.Sprintf("bancor route charged %s, reference for %s base coin (volume %s reserve %s crr %d) is %v", fee, base, o.vol, o.res, o.crr, qB))
			}
			if inBase.Cmp(base) != 0 {
				m.viol(s, i, "base-value", site, fmt.Sprintf("base value %s, price table gives %s", inBase, base))
			}
			if qP != nil && qB != nil {
				// the pool would have been chosen if it were not dearer (judged only when the pool quote cannot involve orders)
				if poolOrders {
					cls += " pool-has-orders (choice not judged)"
				} else if new(big.Int).Add(qP, c12Tol(&bref)).Cmp(qB) < 0 {
					m.viol(s, i, "route", site, fmt.Sprintf("bancor route charged %s although the pool route costs %s", fee, qP))
				}
			}
		}
	}
	// 4. the payer pays exactly the fee (plus what the transaction itself spends in that coin)
	paid := new(big.Int).Sub(bget(o.bal0, f.gas), balanceNow(s, o.payer, f.gas))
	if det != nil {
		paid.Add(paid, det.CreditsTo(o.payer.String())) // the payer may own an order its own fee swap filled
	}
	switch {
	case failed:
		if paid.Cmp(fee) != 0 {
			m.viol(s, i, "payer-debit", site, fmt.Sprintf("payer's balance of coin %d fell by %s, fee is %s", f.gas, paid, fee))
		}
	case f.known:
		if want := new(big.Int).Add(fee, f.ownSpend); paid.Cmp(want) != 0 {
			m.viol(s, i, "payer-debit", site, fmt.Sprintf("payer's balance of coin %d fell by %s, fee %s + own spend %s", f.gas, paid, fee, f.ownSpend))
		}
	default:
		m.Res.Count("payer_debit_not_separable", 1)
	}
	// 5. reward pool / zero address
	dRew := new(big.Int).Sub(s.N.App.GetCurrentRewards(), o.rew0)
	dZero := new(big.Int).Sub(s.N.App.CurrentState().Accounts().GetBalance(types.Address{}, 0), o.zero0)
	burned := new(big.Int)
	if !failed && (f.typ == 0x05 || f.typ == 0x1E) {
		cls += " ticker"
		tp := new(big.Int).Mul(tab.g(tickerKey(f.symLen)), big.NewInt(int64(f.gasPrice)))
		var after [2]*big.Int
		if tab.Coin != 0 {
			after = livePool(s, types.CoinID(tab.Coin), 0)
		}
		want, ex := m.toBase(s, after, tp)
		burned = BI(tags["tx.burned_for_symbol"])
		if want != nil && ex && burned.Cmp(want) != 0 {
			m.viol(s, i, "ticker-burn", site, fmt.Sprintf("tx.burned_for_symbol=%s, ticker price of %d letters is %s base coin", burned, f.symLen, want))
		}
		if o.payer != (types.Address{}) && dZero.Cmp(burned) != 0 {
			m.viol(s, i, "ticker-burn", "zero-address", fmt.Sprintf("zero address grew by %s, ticker fee is %s", dZero, burned))
		}
	} else {
		if _, has := tags["tx.burned_for_symbol"]; has {
			m.viol(s, i, "ticker-burn", site, "tx.burned_for_symbol on a transaction that creates no ticker")
		}
		if dZero.Sign() != 0 && o.payer != (types.Address{}) && !(f.typ == 0x01 || f.typ == 0x0D || f.typ == 0x09) {
			m.viol(s, i, "ticker-burn", "zero-address", fmt.Sprintf("zero address balance moved by %s", dZero))
		}
	}
	if want := new(big.Int).Sub(inBase, burned); dRew.Cmp(want) != 0 {
		m.viol(s, i, "reward-pool", site, fmt.Sprintf("reward pool grew by %s, fee in base coin %s minus burned %s", dRew, inBase, burned))
	}
	// evidence
	if capped {
		m.Res.Count("capped_failed_fee", 1)
	}
	kind := "accepted"
	if failed {
		kind = "failed"
	}
	tcls := "table=base"
	if tab.Coin != 0 {
		tcls = "table=custom"
	}
	pl := "0"
	switch {
	case f.bytes >= 10000:
		pl = ">=10000"
	case f.bytes >= 1000:
		pl = ">=1000"
	case f.bytes > 0:
		pl = ">0"
	}
	gp := "1"
	if f.gasPrice > 1 {
		gp = ">1"
	}
	if f.gasPrice >= 100 {
		gp = ">=100"
	}
	m.Res.Seen(fmt.Sprintf("%s type %02x %s", kind, f.typ, tcls))
	m.Res.Seen(fmt.Sprintf("%s %s %s", kind, tcls, cls))
	m.Res.Seen(fmt.Sprintf("%s bytes %s gasprice %s", kind, pl, gp))
	m.Res.Count("judged/"+kind+"/"+tcls, 1)
	m.Res.Sample(map[string]interface{}{"height": s.CurReq.Height, "type": fmt.Sprintf("%02x", f.typ), "code": res.Code, "gas_coin": uint32(f.gas), "gas_price": f.gasPrice, "bytes": f.bytes,
		"table_coin": tab.Coin, "price": price.String(), "base": base.String(), "fee": fee.String(), "route": route, "reward_pool_delta": dRew.String()}, 8)
}

func balanceNow(s *Sim, a types.Address, c types.CoinID) *big.Int {
	return s.N.App.CurrentState().Accounts().GetBalance(a, c)
}

// ---------------------------------------------------------------------------------------------------
// workload

// c27Table builds a vote with all prices distinct: default * num/den + small distinct offsets; zero defaults get their own values.
func c27Table(pub types.Pubkey, height uint64, coin types.CoinID, num, den int64, salt int64) tx.VoteCommissionDataV3 {
	c := DefaultCommission()
	i := int64(0)
	m := func(s string) *big.Int {
		i++
		v := BI(s)
		if v.Sign() == 0 {
			v = Bip(2 + i%5) // create_coin / create_token are free by default: give them different prices
		}
		v.Mul(v, big.NewInt(num))
		v.Quo(v, big.NewInt(den))
		// distinct low digits so that no two entries coincide
		v.Add(v, big.NewInt((i*1000+salt)*1000003))
		return v
	}
	return tx.VoteCommissionDataV3{PubKey: pub, Height: height, Coin: coin,
		PayloadByte: m(c.PayloadByte), Send: m(c.Send), BuyBancor: m(c.BuyBancor), SellBancor: m(c.SellBancor), SellAllBancor: m(c.SellAllBancor),
		BuyPoolBase: m(c.BuyPoolBase), BuyPoolDelta: m(c.BuyPoolDelta), SellPoolBase: m(c.SellPoolBase), SellPoolDelta: m(c.SellPoolDelta),
		SellAllPoolBase: m(c.SellAllPoolBase), SellAllPoolDelta: m(c.SellAllPoolDelta), CreateTicker3: m(c.CreateTicker3), CreateTicker4: m(c.CreateTicker4),
		CreateTicker5: m(c.CreateTicker5), CreateTicker6: m(c.CreateTicker6), CreateTicker7to10: m(c.CreateTicker7_10), CreateCoin: m(c.CreateCoin),
		CreateToken: m(c.CreateToken), RecreateCoin: m(c.RecreateCoin), RecreateToken: m(c.RecreateToken), DeclareCandidacy: m(c.DeclareCandidacy),
		Delegate: m(c.Delegate), Unbond: m(c.Unbond), RedeemCheck: m(c.RedeemCheck), SetCandidateOn: m(c.SetCandidateOn), SetCandidateOff: m(c.SetCandidateOff),
		CreateMultisig: m(c.CreateMultisig), MultisendBase: m(c.MultisendBase), MultisendDelta: m(c.MultisendDelta), EditCandidate: m(c.EditCandidate),
		SetHaltBlock: m(c.SetHaltBlock), EditTickerOwner: m(c.EditTickerOwner), EditMultisig: m(c.EditMultisig), EditCandidatePublicKey: m(c.EditCandidatePublicKey),
		CreateSwapPool: m(c.CreateSwapPool), AddLiquidity: m(c.AddLiquidity), RemoveLiquidity: m(c.RemoveLiquidity), EditCandidateCommission: m(c.EditCandidateCommission),
		MintToken: m(c.MintToken), BurnToken: m(c.BurnToken), VoteCommission: m(c.VoteCommission), VoteUpdate: m(c.VoteUpdate), FailedTx: m(c.FailedTx),
		AddLimitOrder: m(c.AddLimitOrder), RemoveLimitOrder: m(c.RemoveLimitOrder), MoveStake: m(c.MoveStake), LockStake: m(c.LockStake), Lock: m(c.Lock)}
}

func c27Mons(res *WorkerResult) []Monitor { return []Monitor{&MonFees{Res: res}} }

func init() {
	MonitorsFor["C27"] = c27Mons
	Register(&CheckDef{
		ID: "C27", Level: "exploration",
		Rule: "generated histories of all transaction types over all genesis families; ~45% of the generated transactions are re-enveloped by the harness (same data, re-signed) with payload length 0/1/999/1000/10000, service data 0/1/128 bytes and gas price 1/2/250; gas coins of every kind (base, bancor coin, token with a pool, coin with both routes); after ~10 blocks all validators vote in a price table whose 47 entries are pairwise distinct (so a mixed-up entry is visible), denominated in the base coin or in a custom coin that has a pool with the base coin (USDT, a token, or a bancor coin whose pool carries orders), a second table follows in a quarter of the histories. Oracle per delivered transaction: price = gas price x (entry of its type incl. multisend/route deltas and ticker length + bytes x byte price) from the export's table vs tx.commission_price; base value by the reference pool; amount in the gas coin = min(reference pool quote, HPBancor reserve quote) vs tx.commission_amount / tx.fail_fee; payer's gas-coin balance decrease; growth of the reward pool read between deliveries = base value, ticker prices go to the zero address instead; failed transactions pay the failed-tx price capped at the balance. One evaluation = one charged transaction judged; distinct = (accepted|failed, tx type, table coin kind), (gas coin route class), (payload/gas price class)",
		Assumptions: []string{"pool quotes that involved limit orders (fills reported in tx.commission_details, or a differing quote on a pool that carries orders) are not judged for their amount - the order book is judged by C14; the same holds for the table-coin conversion when the table coin's pool carries orders",
			"the payer's debit is compared exactly only where the transaction's own spending in the gas coin is known from its data (not for trades/liquidity that move the gas coin by a node-computed amount; C15/C13 judge those)",
			"bancor amounts are compared within the C12 closeness tolerance"},
		Quick: 56, Thorough: 560, MinEval: 6000, MinDistinct: 120,
		Run: runC27,
	})
}

// reEnvelope re-signs a generated transaction with another payload / service data / gas price.
func reEnvelope(s *Sim, g *TxGen, r *rand.Rand, bz []byte, meta TxMeta) ([]byte, TxMeta) {
	if strings.HasPrefix(meta.Kind, "msig:") || meta.Kind == "invalid:msig-dup" {
		return bz, meta
	}
	t, ok := decodeEnvelope(bz)
	if !ok {
		return bz, meta
	}
	snd, ok := g.signerFor(addrOf(meta.Sender))
	if !ok {
		return bz, meta
	}
	sp := &TxSpec{Nonce: t.Nonce, ChainID: t.ChainID, GasPrice: t.GasPrice, GasCoin: t.GasCoin, Type: t.Type, Data: []byte(t.Data), Signer: snd.K, Multisig: snd.M}
	sp.Payload = make([]byte, []int{0, 1, 999, 1000, 10000, 0, 37}[r.Intn(7)])
	r.Read(sp.Payload)
	sp.ServiceData = make([]byte, []int{0, 0, 1, 128}[r.Intn(4)])
	if t.Type != tx.TypeRedeemCheck {
		sp.GasPrice = []uint32{1, 1, 2, 250, 17}[r.Intn(5)]
	}
	meta.GasPrice = sp.GasPrice
	meta.PayLen = len(sp.Payload) + len(sp.ServiceData)
	return sp.Encode(), meta
}

func runC27(ctx *WorkCtx, idx int) {
	r := Rng(ctx.Seed, "C27", idx)
	blocks := 30
	sc := StdScenario(idx, r, blocks)
	if sc.Family == "crowded" || sc.Family == "filler" {
		blocks = 22
	}
	s, d := sc.Build("C27", ctx.Seed, idx, r, c27Mons(ctx.Res)...)
	defer s.Finish()
	if s.Dead {
		ctx.Collect(s, idx)
		return
	}
	d.MaxTxs = 12
	d.G.PInvalid, d.G.PBound = 0.12, 0.15
	d.G.PGasCustom = 0.55
	d.G.MaxGasPrice = 3
	d.G.SetWeight(tx.TypeAddLimitOrder, 6)
	d.G.SetWeight(tx.TypeSellSwapPool, 10)
	d.G.SetWeight(tx.TypeBuySwapPool, 10)
	d.G.SetWeight(tx.TypeCreateCoin, 16)
	d.G.SetWeight(tx.TypeCreateToken, 16)
	d.PByz, d.PAbsent, d.PAbsentRun = 0, 0.002, 0
	// the tables to vote in: (block index at which the votes are sent, coin, scale)
	type vote struct {
		at       int
		coin     types.CoinID
		num, den int64
		salt     int64
	}
	customCoin := func(k int) types.CoinID {
		cands := []types.CoinID{CoinUSDT, TokU, CoinA}
		for j := 0; j < 3; j++ {
			c := cands[(k+j)%3]
			for _, p := range s.Post.Pools {
				if p.Coin0 == 0 && types.CoinID(p.Coin1) == c {
					return c
				}
			}
		}
		return 0
	}
	scaleFor := func(c types.CoinID) (int64, int64) {
		if c == 0 {
			return int64(2 + r.Intn(3)), 1
		}
		for _, p := range s.Post.Pools {
			if p.Coin0 == 0 && types.CoinID(p.Coin1) == c {
				// price of one base coin in the custom coin ~ r1/r0, in 1/10000
				q := new(big.Int).Mul(BI(p.Reserve1), big.NewInt(10000))
				q.Quo(q, BI(p.Reserve0))
				if q.Sign() == 0 {
					q.SetInt64(1)
				}
				return q.Int64() * int64(1+r.Intn(2)), 10000
			}
		}
		return 1, 1
	}
	var votes []vote
	mk := func(at int, c types.CoinID, salt int64) {
		n, dn := scaleFor(c)
		votes = append(votes, vote{at: at, coin: c, num: n, den: dn, salt: salt})
	}
	switch idx % 4 {
	case 0:
		mk(6, 0, 1)
	case 1:
		mk(6, customCoin(0), 2)
	case 2:
		mk(6, customCoin(2), 3)
	case 3:
		mk(5, customCoin(1), 4)
		mk(14, 0, 5)
	}
	lazyNonce := func(k *Key) uint64 { return s.N.App.CurrentState().Accounts().GetNonce(k.Addr) + 1 }
	for b := 0; b < blocks && !s.Dead && !s.Stopped; b++ {
		req := d.NextReq()
		// own transactions of this block (built lazily: nonces are read when the slot comes up)
		var own []func() ([]byte, TxMeta)
		ownTx := func(k *Key, t tx.TxType, data interface{}, gas types.CoinID, note string) {
			own = append(own, func() ([]byte, TxMeta) {
				sp := &TxSpec{Nonce: lazyNonce(k), ChainID: types.CurrentChainID, GasPrice: 1, GasCoin: gas, Type: t, Data: data, Signer: k}
				return sp.Encode(), TxMeta{Type: byte(t), Sender: fmt.Sprintf("%x", k.Addr[:]), Nonce: sp.Nonce, GasCoin: uint32(gas), GasPrice: 1, Kind: "valid", Note: note, Chain: byte(types.CurrentChainID)}
			})
		}
		for _, v := range votes {
			if v.at != b {
				continue
			}
			target := uint64(req.Height + 3)
			val := map[types.Pubkey]bool{}
			for _, vv := range s.Post.Validators {
				val[vv.PubKey] = true
			}
			for _, c := range s.Post.Candidates {
				if !val[c.PubKey] {
					continue
				}
				if sg, ok := d.G.signerFor(c.OwnerAddress); ok && sg.K != nil {
					// a voter that ran out of base coin is funded by the richest user first (the vote costs one table unit)
					if need := Bip(200); d.G.bal(sg.K.Addr, 0).Cmp(need) < 0 {
						var rich *Key
						for _, k := range s.W.Users {
							if rich == nil || d.G.bal(k.Addr, 0).Cmp(d.G.bal(rich.Addr, 0)) > 0 {
								rich = k
							}
						}
						if rich != nil && rich != sg.K {
							ownTx(rich, tx.TypeSend, tx.SendData{Coin: 0, To: sg.K.Addr, Value: Bip(1000)}, 0, "fund-voter")
						}
					}
					ownTx(sg.K, tx.TypeVoteCommission, c27Table(c.PubKey, target, v.coin, v.num, v.den, v.salt), 0, "table-vote")
				}
			}
		}
		if b == 2 || b == 16 {
			// harmless governance transactions of a single validator, far in the future: their prices get judged
			if len(s.Post.Candidates) > 0 {
				c := s.Post.Candidates[0]
				if sg, ok := d.G.signerFor(c.OwnerAddress); ok && sg.K != nil {
					gas := types.CoinID(0)
					if b == 16 {
						gas = CoinA
					}
					ownTx(sg.K, tx.TypeSetHaltBlock, tx.SetHaltBlockData{PubKey: c.PubKey, Height: uint64(req.Height) + 5000000}, gas, "far-halt-vote")
					ownTx(sg.K, tx.TypeVoteUpdate, tx.VoteUpdateDataV230{Version: "v399", PubKey: c.PubKey, Height: uint64(req.Height) + 5000000}, gas, "far-update-vote")
				}
			}
		}
		n := len(own) + 2 + r.Intn(d.MaxTxs)
		s.RunBlock(req, nil, func(i int) ([]byte, TxMeta, bool) {
			if i > 0 {
				res := s.CurRes.Deliver[i-1]
				pm := s.Metas[i-1]
				d.G.Learn(&pm, res.Code, Tags(&res))
			}
			if i >= n {
				return nil, TxMeta{}, false
			}
			if i < len(own) {
				bz, meta := own[i]()
				return bz, meta, true
			}
			bz, meta := d.G.Next()
			if r.Intn(100) < 45 {
				bz, meta = reEnvelope(s, d.G, r, bz, meta)
			}
			return bz, meta, true
		})
		if s.CurRes != nil {
			for i, dl := range s.CurRes.Deliver {
				if i < len(s.Metas) && s.Metas[i].Note == "table-vote" {
					ctx.Res.Count(fmt.Sprintf("table_vote/%s", codeClass(dl.Code)), 1)
					if dl.Code != 0 && os.Getenv("C27_DEBUG") != "" {
						fmt.Fprintf(os.Stderr, "VOTE h=%d code=%d log=%s\n", req.Height, dl.Code, dl.Log)
					}
				}
			}
		}
	}
	ctx.Res.Count("blocks", s.H-s.W.InitialHeight+1)
	if s.Post != nil {
		ctx.Res.Count(fmt.Sprintf("final_table_coin/%d", s.Post.Commission.Coin), 1)
		if s.Post.Commission.Send == DefaultCommission().Send {
			ctx.Res.Count("table_never_changed", 1)
		}
	}
	ctx.Collect(s, idx)
}

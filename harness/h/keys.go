package h

import (
	"crypto/ecdsa"
	"crypto/sha256"
	"encoding/binary"
	"fmt"
	"math/big"
	"math/rand"

	"github.com/MinterTeam/minter-go-node/coreV2/types"
	"github.com/MinterTeam/minter-go-node/crypto"
	"github.com/tendermint/tendermint/crypto/ed25519"
)

// Key is a deterministic secp256k1 account key.
type Key struct {
	Priv *ecdsa.PrivateKey
	Addr types.Address
	Name string
}

// NewKey derives key number i of a namespace.
func NewKey(ns string, i int) *Key {
	for c := 0; ; c++ {
		s := sha256.Sum256([]byte(fmt.Sprintf("verif-key/%s/%d/%d", ns, i, c)))
		k, err := crypto.ToECDSA(s[:])
		if err != nil {
			continue
		}
		return &Key{Priv: k, Addr: crypto.PubkeyToAddress(k.PublicKey), Name: fmt.Sprintf("%s%d", ns, i)}
	}
}

// ValKey is a validator public key (ed25519 bytes; never signs in this harness).
type ValKey struct {
	Pub  types.Pubkey
	Addr types.TmAddress
}

// NewValKey derives validator key i.
func NewValKey(ns string, i int) ValKey {
	s := sha256.Sum256([]byte(fmt.Sprintf("verif-val/%s/%d", ns, i)))
	var v ValKey
	copy(v.Pub[:], s[:])
	copy(v.Addr[:], ed25519.PubKey(v.Pub[:]).Address().Bytes())
	return v
}

// TmAddrOf returns the Tendermint address of a candidate public key.
func TmAddrOf(p types.Pubkey) (a types.TmAddress) {
	copy(a[:], ed25519.PubKey(p[:]).Address().Bytes())
	return
}

// Rng returns a PRNG keyed by (seed, label, index): all random choices derive from here.
func Rng(seed int64, label string, idx int) *rand.Rand {
	var b [16]byte
	binary.LittleEndian.PutUint64(b[:8], uint64(seed))
	binary.LittleEndian.PutUint64(b[8:], uint64(idx))
	s := sha256.Sum256(append(b[:], []byte(label)...))
	return rand.New(rand.NewSource(int64(binary.LittleEndian.Uint64(s[:8]))))
}

// Bip returns n·10^18.
func Bip(n int64) *big.Int {
	return new(big.Int).Mul(big.NewInt(n), big.NewInt(1e18))
}

// BI parses a decimal big integer (panics on garbage; "" => 0).
func BI(s string) *big.Int {
	if s == "" {
		return new(big.Int)
	}
	v, ok := new(big.Int).SetString(s, 10)
	if !ok {
		panic("bad bigint " + s)
	}
	return v
}

// RandBig returns a uniformly random integer in [0, max).
func RandBig(r *rand.Rand, max *big.Int) *big.Int {
	if max.Sign() <= 0 {
		return new(big.Int)
	}
	n := (max.BitLen() + 7) / 8
	b := make([]byte, n+8)
	r.Read(b)
	v := new(big.Int).SetBytes(b)
	return v.Mod(v, max)
}

// RandLog returns a log-uniform integer in [1, 10^maxExp].
func RandLog(r *rand.Rand, maxExp int) *big.Int {
	e := r.Intn(maxExp + 1)
	hi := new(big.Int).Exp(big.NewInt(10), big.NewInt(int64(e)), nil)
	lo := new(big.Int).Div(hi, big.NewInt(10))
	v := RandBig(r, new(big.Int).Sub(hi, lo))
	v.Add(v, lo)
	if v.Sign() == 0 {
		v.SetInt64(1)
	}
	return v
}

package h

import (
	"encoding/hex"
	"encoding/json"
	"fmt"
	"math/rand"
	"os"
	"sort"
	"strings"
	"time"

	"github.com/MinterTeam/minter-go-node/coreV2/types"
	abci "github.com/tendermint/tendermint/abci/types"
	tmjson "github.com/tendermint/tendermint/libs/json"
)

// TxMeta is what the generator knows about a transaction it made.
type TxMeta struct {
	Type     byte   `json:"type"`
	Sender   string `json:"sender"` // hex address
	Nonce    uint64 `json:"nonce"`
	GasCoin  uint32 `json:"gas_coin"`
	GasPrice uint32 `json:"gas_price"`
	Kind     string `json:"kind"`            // valid | boundary | invalid:<why> | replay | raw
	Note     string `json:"note,omitempty"`  // free text (scenario)
	PayLen   int    `json:"pay_len"`         // payload + service data bytes
	Msig     bool   `json:"msig,omitempty"`
	Chain    byte   `json:"chain"`
	Payer    string `json:"payer,omitempty"` // who pays the fee if not the sender (check issuer)
}

// HTx is a transaction in a recorded history.
type HTx struct {
	Hex  string `json:"hex"`
	Meta TxMeta `json:"meta"`
}

// HVote is one vote in a recorded history.
type HVote struct {
	Addr   string `json:"addr"`
	Power  int64  `json:"power"`
	Signed bool   `json:"signed"`
}

// HBlock is one block of a recorded history.
type HBlock struct {
	Height  int64    `json:"height"`
	TimeNs  int64    `json:"time_ns"`
	Votes   []HVote  `json:"votes,omitempty"`
	Byz     []string `json:"byz,omitempty"`
	Txs     []HTx    `json:"txs,omitempty"`
	Restart bool     `json:"restart_before,omitempty"`
}

// History is a complete replay artefact.
type History struct {
	Property      string          `json:"property"`
	Seed          int64           `json:"seed"`
	Index         int             `json:"index"`
	ChainID       byte            `json:"chain_id"`
	InitialHeight int64           `json:"initial_height"`
	StakePeriod   uint64          `json:"stake_period"`
	ExpirePeriod  uint64          `json:"expire_period"`
	KeepLast      int64           `json:"keep_last_states"`
	T0Ns          int64           `json:"t0_ns"`
	Genesis       json.RawMessage `json:"genesis"`
	Blocks        []HBlock        `json:"blocks"`
	Violations    []Violation     `json:"violations,omitempty"`
}

// Violation is one monitor verdict "violated".
type Violation struct {
	Property string `json:"property"`
	Rule     string `json:"rule"`
	Site     string `json:"site"`
	Detail   string `json:"detail"`
	Height   int64  `json:"height"`
	TxIndex  int    `json:"tx_index"`
}

// Sig is the signature used to match known findings.
func (v *Violation) Sig() string { return v.Property + "/" + v.Rule + "/" + v.Site }

// Monitor observes a simulation.
type Monitor interface {
	Name() string
	Init(s *Sim)
	BeforeBlock(s *Sim, req *BlockReq)
	AfterBegin(s *Sim, req *BlockReq)
	BeforeTx(s *Sim, i int, tx []byte, meta *TxMeta)
	AfterTx(s *Sim, i int, tx []byte, meta *TxMeta, res *abci.ResponseDeliverTx)
	AfterBlock(s *Sim, req *BlockReq, res *BlockRes)
	Finish(s *Sim)
}

// BaseMon is a no-op monitor to embed.
type BaseMon struct{}

func (BaseMon) Init(*Sim)                                                          {}
func (BaseMon) BeforeBlock(*Sim, *BlockReq)                                        {}
func (BaseMon) AfterBegin(*Sim, *BlockReq)                                         {}
func (BaseMon) BeforeTx(*Sim, int, []byte, *TxMeta)                                {}
func (BaseMon) AfterTx(*Sim, int, []byte, *TxMeta, *abci.ResponseDeliverTx)        {}
func (BaseMon) AfterBlock(*Sim, *BlockReq, *BlockRes)                              {}
func (BaseMon) Finish(*Sim)                                                        {}

// ValSet is a Tendermint validator set: pubkey -> power.
type ValSet map[types.Pubkey]int64

func (v ValSet) clone() ValSet {
	o := ValSet{}
	for k, p := range v {
		o[k] = p
	}
	return o
}

// Sorted returns the keys in deterministic order.
func (v ValSet) Sorted() []types.Pubkey {
	var ks []types.Pubkey
	for k := range v {
		ks = append(ks, k)
	}
	sort.Slice(ks, func(i, j int) bool { return string(ks[i][:]) < string(ks[j][:]) })
	return ks
}

// Sim drives one node through a generated or recorded history with monitors attached.
type Sim struct {
	N    *Node
	W    *World
	R    *rand.Rand
	Opts NodeOpts

	H    int64 // last committed height
	T    time.Time
	T0   time.Time
	Step time.Duration

	Gen  *types.AppState
	Pre  *types.AppState // export after previous commit (live)
	Post *types.AppState // export after this commit (live)
	NoExport bool        // skip per-block exports (speed)
	DiskEvery int        // also export from disk every k blocks (0 = never)
	PostDisk *types.AppState

	valsets map[int64]ValSet // height -> set valid for that height
	lastSet ValSet

	Next   map[types.Address]uint64 // next nonce expected per sender (harness view)
	Mons   []Monitor
	Viol   []Violation
	Hist   *History
	Stats  map[string]int
	Metas  []TxMeta // metas of the current block
	Dead   bool
	Stopped bool
	CurReq *BlockReq
	CurRes *BlockRes

	TxHooks bool // call Before/AfterTx hooks
	Phase   func(p string) // optional: told which ABCI call is about to run (begin, deliver, end, commit, idle)
	restartNext bool
}

func (s *Sim) phase(p string) {
	if s.Phase != nil {
		s.Phase(p)
	}
}

// NewSim creates a node, sends InitChain and prepares monitoring.
func NewSim(prop string, seed int64, idx int, gen *types.AppState, w *World, opts NodeOpts, r *rand.Rand, mons ...Monitor) *Sim {
	s := &Sim{W: w, R: r, Opts: opts, Gen: gen, Mons: mons, Stats: map[string]int{}, Next: map[types.Address]uint64{}, valsets: map[int64]ValSet{}, Step: 5 * time.Second, TxHooks: true}
	s.N = NewNode(opts)
	s.T0 = GenesisT0
	s.T = s.T0
	bz, _ := tmjson.Marshal(gen)
	s.Hist = &History{Property: prop, Seed: seed, Index: idx, ChainID: byte(types.CurrentChainID), InitialHeight: w.InitialHeight,
		StakePeriod: opts.StakePeriod, ExpirePeriod: opts.ExpirePeriod, KeepLast: opts.KeepLastStates, T0Ns: s.T0.UnixNano(), Genesis: bz}
	resp, pi := s.N.InitChain(gen, w.InitialHeight, s.T0)
	if pi != nil {
		s.Report(Violation{Property: "C07", Rule: "panic", Site: "InitChain:" + pi.Site, Detail: pi.Value, Height: w.InitialHeight - 1, TxIndex: -1})
		s.Dead = true
		return s
	}
	vs := ValSet{}
	for _, u := range resp.Validators {
		var pk types.Pubkey
		copy(pk[:], u.PubKey.GetEd25519())
		vs[pk] = u.Power
	}
	s.lastSet = vs
	s.valsets[w.InitialHeight] = vs
	s.valsets[w.InitialHeight+1] = vs
	s.H = w.InitialHeight - 1
	for _, a := range gen.Accounts {
		s.Next[a.Address] = a.Nonce + 1
	}
	if !s.NoExport {
		// exports come from a fresh state object built from disk: the node itself never exports its live state, and
		// Candidates.Export() reloads stakes from the committed tree into the live objects (after InitChain that would
		// undo the still uncommitted second stake recalculation of updateValidators)
		if e, err := s.N.DiskExport(); err == nil {
			s.Post = e
		} else {
			s.Report(Violation{Property: "C07", Rule: "panic", Site: "Export:genesis", Detail: err.Error(), Height: w.InitialHeight - 1, TxIndex: -1})
			s.Dead = true
			return s
		}
	}
	for _, m := range mons {
		m.Init(s)
	}
	return s
}

// Report records a violation.
func (s *Sim) Report(v Violation) {
	s.Viol = append(s.Viol, v)
}

// ValSetAt returns the Tendermint validator set for height h.
func (s *Sim) ValSetAt(h int64) ValSet {
	if v, ok := s.valsets[h]; ok {
		return v
	}
	// latest known set before h
	best := int64(-1)
	for k := range s.valsets {
		if k <= h && k > best {
			best = k
		}
	}
	if best < 0 {
		return ValSet{}
	}
	return s.valsets[best]
}

func (s *Sim) applyUpdates(h int64, ups []abci.ValidatorUpdate) {
	if len(ups) == 0 {
		return
	}
	// updates of EndBlock(h) take effect at h+2
	base := s.ValSetAt(h + 2).clone()
	// pin the sets of the heights still needed (votes of block h+1 come from the set of h) before pruning
	for _, k := range []int64{h - 1, h, h + 1} {
		if _, ok := s.valsets[k]; !ok {
			s.valsets[k] = s.ValSetAt(k)
		}
	}
	for _, u := range ups {
		var pk types.Pubkey
		copy(pk[:], u.PubKey.GetEd25519())
		if u.Power == 0 {
			delete(base, pk)
		} else {
			base[pk] = u.Power
		}
	}
	s.valsets[h+2] = base
	for k := range s.valsets {
		if k < h-1 {
			delete(s.valsets, k)
		}
	}
}

// VotesFor builds the LastCommitInfo for block h: every validator of h-1 signs unless absent[pub].
func (s *Sim) VotesFor(h int64, absent func(pk types.Pubkey) bool) []Vote {
	if h <= s.W.InitialHeight {
		return nil
	}
	vs := s.ValSetAt(h - 1)
	var out []Vote
	for _, pk := range vs.Sorted() {
		signed := true
		if absent != nil && absent(pk) {
			signed = false
		}
		out = append(out, Vote{Addr: TmAddrOf(pk), Power: vs[pk], Signed: signed})
	}
	return out
}

// TxSource produces the i-th transaction of a block on demand (state-aware generation); ok=false ends the block.
type TxSource func(i int) (tx []byte, meta TxMeta, ok bool)

// RunBlock executes one block request with monitors; metas may be nil. If src is set, transactions are
// pulled from it one by one after BeginBlock (req.Txs is extended as they are produced).
func (s *Sim) RunBlock(req *BlockReq, metas []TxMeta, src TxSource) *BlockRes {
	if s.Dead || s.Stopped {
		return nil
	}
	if metas == nil {
		metas = make([]TxMeta, len(req.Txs))
		for i := range metas {
			metas[i].Kind = "raw"
		}
	}
	s.CurReq = req
	s.Hist.Blocks = append(s.Hist.Blocks, HBlock{Height: req.Height, TimeNs: req.Time.UnixNano(), Restart: s.restartNext})
	s.restartNext = false
	hb := &s.Hist.Blocks[len(s.Hist.Blocks)-1]
	for _, v := range req.Votes {
		hb.Votes = append(hb.Votes, HVote{Addr: hex.EncodeToString(v.Addr[:]), Power: v.Power, Signed: v.Signed})
	}
	for _, b := range req.Byzantine {
		hb.Byz = append(hb.Byz, hex.EncodeToString(b[:]))
	}
	res := &BlockRes{PanicTxI: -1}
	s.CurRes = res
	fail := func(pi *PanicInfo, txi int) *BlockRes {
		res.Panic = pi
		res.PanicTxI = txi
		s.Dead = true
		s.Metas = metas
		s.Report(Violation{Property: "C07", Rule: "panic", Site: pi.Call + ":" + pi.Site, Detail: firstLine(pi.Value), Height: req.Height, TxIndex: txi})
		// the node's own last-line defences firing are observations for the value properties too
		if strings.Contains(pi.Value, "negative balance") {
			s.Report(Violation{Property: "C02", Rule: "negative", Site: "balance-at-commit", Detail: firstLine(pi.Value), Height: req.Height, TxIndex: txi})
		}
		if strings.Contains(pi.Value, "cannot encode negative") {
			// a negative stake / update / waitlist / fund value cannot be written: the node dies in Commit
			s.Report(Violation{Property: "C02", Rule: "negative", Site: "value-at-commit", Detail: firstLine(pi.Value), Height: req.Height, TxIndex: txi})
		}
		if strings.Contains(pi.Value, "invariants error") {
			s.Report(Violation{Property: "C01", Rule: "node-checker", Site: "invariants-error-at-commit", Detail: firstLine(pi.Value), Height: req.Height, TxIndex: txi})
		}
		for _, m := range s.Mons {
			if pm, ok := m.(PanicObserver); ok {
				pm.OnPanic(s, req, pi, txi)
			}
		}
		return res
	}

	for _, m := range s.Mons {
		m.BeforeBlock(s, req)
	}
	s.phase("begin")
	stopped, pi := s.N.Begin(req)
	if pi != nil {
		return fail(pi, -1)
	}
	if stopped {
		res.Stopped = true
		s.Stopped = true
		s.Metas = metas
		for _, m := range s.Mons {
			m.AfterBlock(s, req, res)
		}
		return res
	}
	for _, m := range s.Mons {
		m.AfterBegin(s, req)
	}
	for i := 0; ; i++ {
		var tx []byte
		if src != nil {
			t, meta, ok := src(i)
			if !ok {
				break
			}
			tx = t
			req.Txs = append(req.Txs, tx)
			metas = append(metas, meta)
		} else {
			if i >= len(req.Txs) {
				break
			}
			tx = req.Txs[i]
		}
		s.Metas = metas
		hb.Txs = append(hb.Txs, HTx{Hex: hex.EncodeToString(tx), Meta: metas[i]})
		if s.TxHooks {
			for _, m := range s.Mons {
				m.BeforeTx(s, i, tx, &metas[i])
			}
		}
		s.phase("deliver")
		d, pi := s.N.Deliver(tx)
		if pi != nil {
			return fail(pi, i)
		}
		res.Deliver = append(res.Deliver, d)
		s.Stats[fmt.Sprintf("tx/%02x/%d", metas[i].Type, d.Code)]++
		if d.Code == 0 && metas[i].Sender != "" {
			var a types.Address
			bz, _ := hex.DecodeString(metas[i].Sender)
			copy(a[:], bz)
			s.Next[a] = metas[i].Nonce + 1
		}
		if s.TxHooks {
			for _, m := range s.Mons {
				m.AfterTx(s, i, tx, &metas[i], &res.Deliver[len(res.Deliver)-1])
			}
		}
	}
	s.Metas = metas
	s.phase("end")
	end, pi := s.N.End(req.Height)
	if pi != nil {
		return fail(pi, -1)
	}
	res.End = end
	s.phase("commit")
	cm, pi := s.N.Commit()
	s.phase("idle")
	if pi != nil {
		return fail(pi, -1)
	}
	res.Commit = cm
	s.H = req.Height
	s.T = req.Time
	s.applyUpdates(req.Height, res.End.ValidatorUpdates)
	if len(s.ValSetAt(req.Height+2)) == 0 {
		// Tendermint refuses validator updates that would empty the set (consensus failure): the history ends here
		s.Stopped = true
		s.Stats["ended/validator-set-empty"]++
		return res
	}
	s.Pre = s.Post
	s.PostDisk = nil
	if !s.NoExport {
		e, err := s.N.DiskExport()
		if err != nil {
			s.Dead = true
			s.Report(Violation{Property: "C07", Rule: "panic", Site: "Export:disk", Detail: firstLine(err.Error()), Height: req.Height, TxIndex: -1})
			return res
		}
		s.Post = e
		s.PostDisk = e
	}
	for _, m := range s.Mons {
		m.AfterBlock(s, req, res)
	}
	return res
}

// Restart replaces the node by a new application instance over the same (memdb) stores, as a process restart would.
// The next block of the recorded history is marked so that replays restart at the same point.
func (s *Sim) Restart() {
	if s.Dead || s.Stopped || s.N.Opts.Dir != "" {
		return
	}
	if pi := s.N.guard("Restart", func() { s.N = s.N.RebootSame() }); pi != nil {
		s.Dead = true
		s.Report(Violation{Property: "C09", Rule: "restart-panic", Site: pi.Site, Detail: firstLine(pi.Value), Height: s.H, TxIndex: -1})
		return
	}
	s.restartNext = true
	s.Stats["restarts"]++
}

// PanicObserver is implemented by monitors that want to attribute panics.
type PanicObserver interface {
	OnPanic(s *Sim, req *BlockReq, pi *PanicInfo, txIndex int)
}

func firstLine(s string) string {
	for i, c := range s {
		if c == '\n' {
			return s[:i]
		}
	}
	if len(s) > 300 {
		return s[:300]
	}
	return s
}

// Finish calls monitors' Finish and closes the node.
func (s *Sim) Finish() {
	if !s.Dead {
		for _, m := range s.Mons {
			m.Finish(s)
		}
	}
	s.N.Destroy()
}

// SaveReplay writes the history (with violations) to path.
func (s *Sim) SaveReplay(path string) error {
	s.Hist.Violations = s.Viol
	bz, err := json.Marshal(s.Hist)
	if err != nil {
		return err
	}
	return os.WriteFile(path, bz, 0o644)
}

// LoadHistory reads a replay artefact.
func LoadHistory(path string) (*History, error) {
	bz, err := os.ReadFile(path)
	if err != nil {
		return nil, err
	}
	var h History
	if err := json.Unmarshal(bz, &h); err != nil {
		return nil, err
	}
	return &h, nil
}

// Req converts a recorded block back into a request.
func (b *HBlock) Req() (*BlockReq, []TxMeta) {
	req := &BlockReq{Height: b.Height, Time: time.Unix(0, b.TimeNs).UTC()}
	for _, v := range b.Votes {
		var a types.TmAddress
		bz, _ := hex.DecodeString(v.Addr)
		copy(a[:], bz)
		req.Votes = append(req.Votes, Vote{Addr: a, Power: v.Power, Signed: v.Signed})
	}
	for _, x := range b.Byz {
		var a types.TmAddress
		bz, _ := hex.DecodeString(x)
		copy(a[:], bz)
		req.Byzantine = append(req.Byzantine, a)
	}
	var metas []TxMeta
	for _, t := range b.Txs {
		bz, _ := hex.DecodeString(t.Hex)
		req.Txs = append(req.Txs, bz)
		metas = append(metas, t.Meta)
	}
	return req, metas
}

// GenesisOf decodes the genesis of a history.
func (h *History) GenesisOf() *types.AppState {
	var g types.AppState
	if err := tmjson.Unmarshal(h.Genesis, &g); err != nil {
		panic(err)
	}
	return &g
}

package h

import (
	"fmt"
	"math/big"
	"math/rand"

	"github.com/MinterTeam/minter-go-node/coreV2/dao"
	"github.com/MinterTeam/minter-go-node/coreV2/developers"
	"github.com/MinterTeam/minter-go-node/coreV2/events"
	tx "github.com/MinterTeam/minter-go-node/coreV2/transaction"
	"github.com/MinterTeam/minter-go-node/coreV2/types"
	abci "github.com/tendermint/tendermint/abci/types"
)

// C19: rewards are distributed proportionally and never over-paid.
//
// The reference is written from the statement: what a block has to distribute is the block reward plus the
// base-coin value of the fees the block's transactions reported in their tags plus what dropped validators had
// accrued; it is split between the validators whose vote was recorded as signed, floor-proportionally to their
// stake, the rest goes to the total-slashed pool.  At payout heights every RewardEvent of the height is compared
// with the 10% / 10% / commission / bip-proportional split of what the validator had accrued.
// The inputs are observations: votes the driver sent, tags, accessor reads of the live state right before
// EndBlock (validator stakes, accruals, drop marks, delegators' bip values, commissions, locks), the exports
// before/after the block, the emission counter and the events of the height.

var c19Cap = BI("10000000000000000000000000000") // emission cap, 10^10 BIP

type c19Val struct {
	Pub   types.Pubkey
	Addr  types.TmAddress
	Stake *big.Int
	Accum *big.Int
	Drop  bool
}

type c19Stake struct {
	Owner types.Address
	Coin  uint64
	Bip   *big.Int
	Value *big.Int
	Lock  uint64
}

type c19Cand struct {
	Commission uint32
	Reward     types.Address
	Stakes     []c19Stake
}

type c19View struct {
	Vals    []c19Val
	Cands   map[types.Pubkey]*c19Cand // payout heights only; absent key = no candidate with that public key
	Slashed *big.Int
}

// MonRewards is the C19 monitor.
type MonRewards struct {
	BaseMon
	Res *WorkerResult

	view       *c19View
	fees       *big.Int
	feeUnknown string
	pool       *big.Int // fee pool as read after the previous step
	emission   *big.Int
	reward0    *big.Int
	rewardSafe *big.Int
	slashedBeg *big.Int
}

func (m *MonRewards) Name() string { return "C19" }

func (m *MonRewards) payoutHeight(s *Sim, h int64) bool {
	p := s.Opts.StakePeriod
	if p == 0 {
		p = 720
	}
	return uint64(h)%p == 0
}

func (m *MonRewards) take(s *Sim, h int64) {
	cs := s.N.App.CurrentState()
	v := &c19View{Slashed: new(big.Int).Set(cs.App().GetTotalSlashed())}
	for _, val := range cs.Validators().GetValidators() {
		v.Vals = append(v.Vals, c19Val{Pub: val.PubKey, Addr: val.GetAddress(), Stake: val.GetTotalBipStake(), Accum: val.GetAccumReward(), Drop: val.IsToDrop()})
	}
	if m.payoutHeight(s, h) {
		v.Cands = map[types.Pubkey]*c19Cand{}
		for _, val := range v.Vals {
			c := cs.Candidates().GetCandidate(val.Pub)
			if c == nil {
				continue
			}
			cc := &c19Cand{Commission: c.Commission, Reward: c.RewardAddress}
			for _, st := range cs.Candidates().GetStakes(val.Pub) {
				if st == nil {
					continue
				}
				cc.Stakes = append(cc.Stakes, c19Stake{Owner: st.Owner, Coin: uint64(st.Coin), Bip: new(big.Int).Set(st.BipValue), Value: new(big.Int).Set(st.Value),
					Lock: cs.Accounts().GetLockStakeUntilBlock(st.Owner)})
			}
			v.Cands[val.Pub] = cc
		}
	}
	m.view = v
}

func (m *MonRewards) BeforeBlock(s *Sim, req *BlockReq) {
	m.view = nil
	m.fees = new(big.Int)
	m.feeUnknown = ""
}

func (m *MonRewards) AfterBegin(s *Sim, req *BlockReq) {
	cs := s.N.App.CurrentState()
	m.emission = new(big.Int).Set(s.N.App.GetEmission())
	m.reward0, m.rewardSafe = cs.App().Reward()
	m.pool = new(big.Int).Set(s.N.App.GetCurrentRewards())
	if m.pool.Sign() != 0 {
		s.Report(Violation{Property: "C19", Rule: "fee-pool", Site: "not-empty-after-begin", Height: req.Height, TxIndex: -1, Detail: "fee pool after BeginBlock is " + m.pool.String()})
	}
	m.take(s, req.Height)
}

// c19Fee derives the base-coin value a transaction added to the block's fee pool from its tags.
func c19Fee(res *abci.ResponseDeliverTx) (fee *big.Int, route string) {
	tags := Tags(res)
	if res.Code == 0 {
		v, ok := tags["tx.commission_in_base_coin"]
		if !ok {
			return nil, "ok/no-tag"
		}
		fee = BI(v)
		route = "ok"
		if b, ok := tags["tx.burned_for_symbol"]; ok {
			fee.Sub(fee, BI(b))
			route = "ok/symbol-burned"
		}
		return fee, route
	}
	if _, charged := tags["tx.fail"]; !charged {
		return new(big.Int), "failed/not-charged"
	}
	if v, ok := tags["tx.fail_fee_reserve"]; ok {
		return BI(v), "failed/bancor"
	}
	if v, ok := tags["tx.commission_details"]; ok {
		p := ParsePoolTag(v)
		if p == nil {
			return nil, "failed/pool-unparsed"
		}
		return BI(p.ValueOut), "failed/pool"
	}
	if tags["tx.commission_coin"] == "0" {
		return BI(tags["tx.fail_fee"]), "failed/base"
	}
	return nil, "failed/unknown-route"
}

func (m *MonRewards) AfterTx(s *Sim, i int, raw []byte, meta *TxMeta, res *abci.ResponseDeliverTx) {
	now := new(big.Int).Set(s.N.App.GetCurrentRewards())
	delta := new(big.Int).Sub(now, m.pool)
	m.pool = now
	fee, route := c19Fee(res)
	if fee == nil {
		m.feeUnknown = route
		m.Res.Count("fee_route_unknown/"+route, 1)
	} else {
		m.fees.Add(m.fees, fee)
		m.Res.Count("fee_route/"+route, 1)
		if fee.Cmp(delta) != 0 {
			s.Report(Violation{Property: "C19", Rule: "fee-pool", Site: "tags-vs-pool/" + route, Height: s.CurReq.Height, TxIndex: i,
				Detail: fmt.Sprintf("tx type %02x code %d reported a fee of %s base pips in its tags but the block's fee pool changed by %s", meta.Type, res.Code, fee, delta)})
		}
	}
	m.take(s, s.CurReq.Height)
}

func c19Floor(a, num, den *big.Int) *big.Int {
	x := new(big.Int).Mul(a, num)
	return x.Div(x, den)
}

func (m *MonRewards) AfterBlock(s *Sim, req *BlockReq, res *BlockRes) {
	if res.Stopped || m.view == nil || s.Post == nil || s.Pre == nil {
		return
	}
	m.judgeBlock(s, req, s.Post.Validators, BI(s.Post.TotalSlashed), false)
}

// OnPanic: when the node's own consistency check refuses to commit, EndBlock has run; an ordinary (non-payout)
// block can still be judged from the live validators and the live total-slashed counter.
func (m *MonRewards) OnPanic(s *Sim, req *BlockReq, pi *PanicInfo, txIndex int) {
	if pi.Call != "Commit" || m.view == nil || m.payoutHeight(s, req.Height) {
		return
	}
	defer func() { recover() }()
	cs := s.N.App.CurrentState()
	var vals []types.Validator
	for _, val := range cs.Validators().GetValidators() {
		vals = append(vals, types.Validator{PubKey: val.PubKey, TotalBipStake: val.GetTotalBipStake().String(), AccumReward: val.GetAccumReward().String()})
	}
	m.Res.Count("blocks_judged_after_commit_panic", 1)
	m.judgeBlock(s, req, vals, new(big.Int).Set(cs.App().GetTotalSlashed()), true)
}

func (m *MonRewards) judgeBlock(s *Sim, req *BlockReq, postVals []types.Validator, postSlashed *big.Int, afterPanic bool) {
	h := req.Height
	v := m.view
	signed := map[types.TmAddress]bool{}
	for _, vt := range req.Votes {
		if vt.Signed {
			signed[vt.Addr] = true
		}
	}
	belowCap := m.emission.Cmp(c19Cap) < 0
	reward := new(big.Int)
	if belowCap {
		reward.Set(m.reward0)
	}
	pool := new(big.Int).Add(reward, m.fees)
	returned := new(big.Int)
	nDrop, nPresent, nAbsent := 0, 0, 0
	total := new(big.Int)
	for _, val := range v.Vals {
		if val.Drop {
			nDrop++
			returned.Add(returned, val.Accum)
			continue
		}
		if signed[val.Addr] {
			nPresent++
			total.Add(total, val.Stake)
		} else {
			nAbsent++
		}
	}
	pool.Add(pool, returned)
	if total.Sign() == 0 {
		total.SetInt64(1)
	}
	remainder := new(big.Int).Set(pool)
	accrued := map[types.Pubkey]*big.Int{} // what each validator holds after this block's accrual
	for _, val := range v.Vals {
		a := new(big.Int)
		if !val.Drop {
			a.Set(val.Accum)
			if signed[val.Addr] {
				r := c19Floor(pool, val.Stake, total)
				remainder.Sub(remainder, r)
				a.Add(a, r)
			}
		}
		accrued[val.Pub] = a
	}
	cls := "accrual:"
	switch {
	case pool.Sign() == 0:
		cls += " zero-pool"
	case reward.Sign() == 0:
		cls += " fees-only"
	case m.fees.Sign() == 0:
		cls += " reward-only"
	default:
		cls += " reward+fees"
	}
	if nAbsent > 0 {
		cls += " some-absent"
	}
	if nPresent == 0 {
		cls += " none-present"
	}
	if nDrop > 0 {
		cls += " dropped"
		if returned.Sign() > 0 {
			cls += "-with-accrual"
		}
	}
	if len(req.Byzantine) > 0 {
		cls += " evidence"
	}
	if !belowCap {
		cls += " emission-capped"
	}
	if m.feeUnknown != "" {
		// the fee of one transaction could not be read from its tags: nothing about this block's amounts can be judged
		m.Res.Inconcl = append(m.Res.Inconcl, fmt.Sprintf("height %d: fee route %s not derivable from tags", h, m.feeUnknown))
		return
	}
	post := map[types.Pubkey]*types.Validator{}
	for i := range postVals {
		post[postVals[i].PubKey] = &postVals[i]
	}
	inView := map[types.Pubkey]bool{}
	for _, val := range v.Vals {
		inView[val.Pub] = true
	}
	payout := m.payoutHeight(s, h)
	endSlashed := new(big.Int).Sub(postSlashed, v.Slashed)
	wantSlashed := new(big.Int).Set(remainder)
	lockedAnywhere := false

	if !payout {
		for _, val := range v.Vals {
			p, ok := post[val.Pub]
			if !ok {
				// left the set in this block: what it held is not paid to anybody
				wantSlashed.Add(wantSlashed, accrued[val.Pub])
				if accrued[val.Pub].Sign() > 0 {
					cls += " removed-with-accrual"
				}
				continue
			}
			if BI(p.AccumReward).Cmp(accrued[val.Pub]) != 0 {
				site := "present"
				if val.Drop {
					site = "dropped"
				} else if !signed[val.Addr] {
					site = "absent"
				}
				s.Report(Violation{Property: "C19", Rule: "accrual", Site: site, Height: h, TxIndex: -1,
					Detail: fmt.Sprintf("validator %s: accrued reward after the block is %s, expected %s (before %s, stake %s of present total %s, pool %s = reward %s + fees %s + returned %s)",
						val.Pub.String(), p.AccumReward, accrued[val.Pub], val.Accum, val.Stake, total, pool, reward, m.fees, returned)})
			}
		}
		for pk, p := range post {
			if !inView[pk] && BI(p.AccumReward).Sign() != 0 {
				s.Report(Violation{Property: "C19", Rule: "accrual", Site: "new-validator", Height: h, TxIndex: -1,
					Detail: fmt.Sprintf("validator %s entered the set with an accrued reward of %s", pk.String(), p.AccumReward)})
			}
		}
	} else {
		lockedAnywhere = m.judgePayout(s, h, v, accrued, post, wantSlashed, belowCap, &cls)
	}
	if !lockedAnywhere {
		if endSlashed.Cmp(wantSlashed) != 0 {
			site := "plain-block"
			if payout {
				site = "payout-block"
			}
			s.Report(Violation{Property: "C19", Rule: "remainder", Site: site, Height: h, TxIndex: -1,
				Detail: fmt.Sprintf("total slashed grew by %s in EndBlock, expected %s (block remainder %s of pool %s)", endSlashed, wantSlashed, remainder, pool)})
		}
	}
	if afterPanic {
		cls += " (commit refused by the node)"
	}
	m.Res.Evaluations++
	m.Res.Seen(cls)
	m.Res.Count("blocks_judged", 1)
	if payout {
		m.Res.Count("payout_blocks", 1)
	}
}

type c19Ev struct {
	role   string
	addr   types.Address
	amount *big.Int
	coin   uint64
}

// judgePayout compares the RewardEvents of a payout height with the reference split; it adds what must reach the
// total-slashed pool to wantSlashed and reports whether any paid delegator had an active stake lock.
func (m *MonRewards) judgePayout(s *Sim, h int64, v *c19View, accrued map[types.Pubkey]*big.Int, post map[types.Pubkey]*types.Validator, wantSlashed *big.Int, belowCap bool, cls *string) bool {
	evs := map[types.Pubkey][]c19Ev{}
	var loaded events.Events
	if pi := s.N.guard("LoadEvents", func() { loaded = s.N.App.GetEventsDB().LoadEvents(uint32(h)) }); pi != nil {
		s.Report(Violation{Property: "C19", Rule: "panic", Site: "LoadEvents:" + pi.Site, Height: h, TxIndex: -1, Detail: firstLine(pi.Value)})
		return true
	}
	for _, e := range loaded {
		if re, ok := e.(*events.RewardEvent); ok {
			evs[re.ValidatorPubKey] = append(evs[re.ValidatorPubKey], c19Ev{role: re.Role, addr: re.Address, amount: BI(re.Amount), coin: re.ForCoin})
		}
	}
	lockedAnywhere := false
	totalPaid, totalAccrued := new(big.Int), new(big.Int)
	known := map[types.Pubkey]bool{}
	for _, val := range v.Vals {
		known[val.Pub] = true
		A := accrued[val.Pub]
		cand := v.Cands[val.Pub]
		list := evs[val.Pub]
		viol := func(rule, site, detail string) {
			s.Report(Violation{Property: "C19", Rule: rule, Site: site, Height: h, TxIndex: -1, Detail: fmt.Sprintf("validator %s (accrued %s, stake %s): %s", val.Pub.String(), A, val.Stake, detail)})
		}
		if cand == nil {
			// no candidate under this key any more (key changed in this block): nobody can be paid, the accrual must not vanish
			if len(list) > 0 {
				viol("payout", "events-without-candidate", fmt.Sprintf("%d reward events", len(list)))
			}
			wantSlashed.Add(wantSlashed, A)
			*cls += " payout:key-changed"
			continue
		}
		m.Res.Count("payouts_judged", 1)
		switch {
		case cand.Commission <= 1 || cand.Commission >= 99:
			m.Res.Seen(fmt.Sprintf("payout: commission=%d", cand.Commission))
		default:
			m.Res.Seen("payout: commission 2..98")
		}
		dao0 := c19Floor(A, big.NewInt(10), big.NewInt(100))
		dev0 := c19Floor(A, big.NewInt(10), big.NewInt(100))
		rest := new(big.Int).Sub(A, dao0)
		rest.Sub(rest, dev0)
		valR := c19Floor(rest, big.NewInt(int64(cand.Commission)), big.NewInt(100))
		rest2 := new(big.Int).Sub(rest, valR)
		locked := false
		type key struct {
			a types.Address
			c uint64
		}
		want := map[key]*big.Int{}
		isLocked := map[key]bool{}
		sumBip := new(big.Int)
		custom := false
		for _, st := range cand.Stakes {
			sumBip.Add(sumBip, st.Bip)
			if st.Coin != 0 {
				custom = true
			}
			k := key{st.Owner, st.Coin}
			if belowCap && uint64(h) < st.Lock {
				locked = true
				isLocked[k] = true
				continue
			}
			if st.Bip.Sign() == 0 || val.Stake.Sign() == 0 {
				continue
			}
			share := c19Floor(rest2, st.Bip, val.Stake)
			if share.Sign() > 0 {
				want[k] = share
			} else {
				m.Res.Seen("payout: share rounds to zero")
			}
		}
		if locked {
			lockedAnywhere = true
			m.Res.Seen("payout: locked delegator")
		}
		if custom {
			m.Res.Seen("payout: custom-coin stake")
		}
		if c := sumBip.Cmp(val.Stake); c < 0 {
			m.Res.Seen("payout: stakes sum below validator stake (unbonded since last recalculation)")
		} else if c > 0 {
			m.Res.Seen("payout: stakes sum above validator stake")
		}
		if A.Sign() == 0 {
			m.Res.Seen("payout: nothing accrued")
		}
		if val.Drop {
			m.Res.Seen("payout: dropped validator")
		}
		paid := new(big.Int)
		var nDAO, nDev, nVal int
		got := map[key]*big.Int{}
		for _, e := range list {
			paid.Add(paid, e.amount)
			switch e.role {
			case "DAO":
				nDAO++
				if e.addr != dao.Address {
					viol("payout", "dao-address", "paid to "+e.addr.String())
				}
				if !locked && e.amount.Cmp(dao0) != 0 {
					viol("payout", "dao-share", fmt.Sprintf("DAO got %s, 10%% is %s", e.amount, dao0))
				}
			case "Developers":
				nDev++
				if e.addr != developers.Address {
					viol("payout", "developers-address", "paid to "+e.addr.String())
				}
				if !locked && e.amount.Cmp(dev0) != 0 {
					viol("payout", "developers-share", fmt.Sprintf("developers got %s, 10%% is %s", e.amount, dev0))
				}
			case "Validator":
				nVal++
				if e.addr != cand.Reward {
					viol("payout", "validator-address", "commission paid to "+e.addr.String()+" instead of "+cand.Reward.String())
				}
				if e.amount.Cmp(valR) != 0 {
					viol("payout", "validator-commission", fmt.Sprintf("validator got %s, %d%% of %s is %s", e.amount, cand.Commission, rest, valR))
				}
			case "Delegator":
				k := key{e.addr, e.coin}
				if got[k] != nil {
					viol("payout", "delegator-paid-twice", fmt.Sprintf("%s coin %d", e.addr.String(), e.coin))
				}
				got[k] = e.amount
			default:
				viol("payout", "unknown-role", e.role)
			}
		}
		zeroSkip := val.Stake.Sign() == 0 && A.Sign() == 0
		if !zeroSkip || len(list) > 0 {
			if nDAO != 1 || nDev != 1 || nVal != 1 {
				viol("payout", "role-count", fmt.Sprintf("DAO x%d developers x%d validator x%d", nDAO, nDev, nVal))
			}
		} else {
			m.Res.Seen("payout: punished validator without stake and accrual")
		}
		for k, w := range want {
			g := got[k]
			if g == nil {
				viol("payout", "delegator-share", fmt.Sprintf("%s coin %d got nothing, share is %s (bip %s of rest %s)", k.a.String(), k.c, w, "?", rest2))
				continue
			}
			if g.Cmp(w) != 0 {
				viol("payout", "delegator-share", fmt.Sprintf("%s coin %d got %s, proportional share of %s is %s", k.a.String(), k.c, g, rest2, w))
			}
		}
		for k, g := range got {
			if want[k] == nil && !isLocked[k] {
				viol("payout", "delegator-share", fmt.Sprintf("%s coin %d got %s but holds no paying stake", k.a.String(), k.c, g))
			}
		}
		if !locked {
			if paid.Cmp(A) > 0 {
				viol("overpaid", "validator", fmt.Sprintf("paid %s in total", paid))
			}
			wantSlashed.Add(wantSlashed, new(big.Int).Sub(A, paid))
		}
		totalPaid.Add(totalPaid, paid)
		totalAccrued.Add(totalAccrued, A)
	}
	for pk, l := range evs {
		if !known[pk] {
			s.Report(Violation{Property: "C19", Rule: "payout", Site: "events-for-non-validator", Height: h, TxIndex: -1, Detail: fmt.Sprintf("%d reward events for %s", len(l), pk.String())})
		}
	}
	// emission side: only locked stakes may add to it
	dEm := new(big.Int).Sub(s.N.App.GetEmission(), m.emission)
	if belowCap {
		dEm.Sub(dEm, m.rewardSafe)
	}
	if !lockedAnywhere {
		if dEm.Sign() != 0 {
			s.Report(Violation{Property: "C19", Rule: "overpaid", Site: "emission-without-locked-stakes", Height: h, TxIndex: -1,
				Detail: fmt.Sprintf("emission grew by %s beyond the block's own reward although no paid delegator holds a lock", dEm)})
		}
	} else {
		limit := new(big.Int).Add(totalAccrued, dEm)
		if totalPaid.Cmp(limit) > 0 {
			s.Report(Violation{Property: "C19", Rule: "overpaid", Site: "locked-stakes", Height: h, TxIndex: -1,
				Detail: fmt.Sprintf("paid %s, accrued %s, emission surplus %s", totalPaid, totalAccrued, dEm)})
		}
		if dEm.Sign() > 0 {
			m.Res.Seen("payout: emission surplus for locked stakes")
		}
	}
	for pk, p := range post {
		if BI(p.AccumReward).Sign() != 0 {
			s.Report(Violation{Property: "C19", Rule: "payout", Site: "accrual-left-after-payout", Height: h, TxIndex: -1,
				Detail: fmt.Sprintf("validator %s still holds %s after the payout", pk.String(), p.AccumReward)})
		}
	}
	return lockedAnywhere
}

// c19Tweak rewrites the base-coin stakes of the genesis validators with vectors of primes, powers of two,
// one-pip stakes beside 10^9 BIP, and gives some delegators an active stake lock.
func c19Tweak(gen *types.AppState, w *World, idx int, r *rand.Rand) string {
	mode := []string{"plain", "primes", "extremes", "pow2", "locks", "plain", "extremes+locks", "plain", "primes+locks", "plain"}[idx%10]
	h0 := uint64(w.InitialHeight - 1)
	valIdx := map[types.Pubkey]int{}
	for i := range gen.Validators {
		valIdx[gen.Validators[i].PubKey] = i
	}
	setStakes := func(c *types.Candidate, vals []*big.Int) {
		// keep custom-coin stakes, replace base-coin ones
		var keep []types.Stake
		for _, st := range c.Stakes {
			if st.Coin != 0 {
				keep = append(keep, st)
			}
		}
		total := new(big.Int)
		for _, st := range keep {
			total.Add(total, BI(st.BipValue))
		}
		var out []types.Stake
		for j, v := range vals {
			owner := w.Users[(j*3+int(c.ID))%len(w.Users)].Addr
			dup := false
			for _, o := range out {
				if o.Owner == owner {
					dup = true
				}
			}
			if dup {
				continue
			}
			out = append(out, types.Stake{Owner: owner, Coin: 0, Value: v.String(), BipValue: v.String()})
			total.Add(total, v)
		}
		c.Stakes = append(out, keep...)
		c.TotalBipStake = total.String()
		if i, ok := valIdx[c.PubKey]; ok {
			gen.Validators[i].TotalBipStake = total.String()
		}
	}
	primes := []int64{1009, 1013, 7919, 104729, 1299709, 15485863, 2147483647}
	for i := range gen.Candidates {
		c := &gen.Candidates[i]
		if _, ok := valIdx[c.PubKey]; !ok {
			continue
		}
		switch {
		case mode == "primes" || mode == "primes+locks":
			var vs []*big.Int
			for j := 0; j < 4; j++ {
				p := primes[r.Intn(len(primes))]
				vs = append(vs, new(big.Int).Add(Bip(p), big.NewInt(p))) // prime BIP + prime pips
			}
			setStakes(c, vs)
		case mode == "pow2":
			var vs []*big.Int
			for j := 0; j < 4; j++ {
				vs = append(vs, new(big.Int).Lsh(big.NewInt(1), uint(70+r.Intn(25))))
			}
			setStakes(c, vs)
		case mode == "extremes" || mode == "extremes+locks":
			vs := []*big.Int{Bip(int64(1000 + r.Intn(5000))), big.NewInt(1), big.NewInt(3)}
			if i%2 == 0 {
				vs[0] = Bip(1000000000)
			}
			setStakes(c, vs)
		}
		c.Commission = uint64([]int{0, 1, 10, 50, 99, 100}[r.Intn(6)])
	}
	if mode == "locks" || mode == "extremes+locks" || mode == "primes+locks" {
		for i := range gen.Accounts {
			a := &gen.Accounts[i]
			if a.MultisigData != nil {
				continue
			}
			if r.Intn(3) == 0 {
				a.LockStakeUntilBlock = h0 + uint64(5+r.Intn(90))
			}
		}
	}
	return mode
}

func init() {
	mons := func(res *WorkerResult) []Monitor { return []Monitor{&MonRewards{Res: res}} }
	MonitorsFor["C19"] = mons
	Register(&CheckDef{
		ID: "C19", Level: "exploration",
		Rule:        "generated histories (genesis families of the standard scenarios with validator stake vectors rewritten to primes, powers of two, 1-pip stakes beside 10^9 BIP, commissions 0/1/10/50/99/100, delegators with active and expiring stake locks; state-aware transactions of all types with delegate/unbond/switch/commission-edit/lock weights raised; absences, absence runs, evidence; stake periods 6..60); one evaluation = one committed block whose accrual per validator (floor share of reward+fees+returned accruals among the validators recorded present, remainder to total-slashed) and, at payout heights, every RewardEvent (10% DAO, 10% developers, commission, bip-proportional delegator shares, nothing above the accrued amount except the emission surplus of locked stakes) was compared with the reference; distinct = block classes (pool kind x absences x drops x evidence x cap) and payout classes (commission value, locks, custom-coin stakes, zero accrual, rounding to zero, key change)",
		Assumptions: []string{"the fee a transaction adds to the block pool is read from its tags (cross-checked against the pool counter after every DeliverTx)", "stakes, accruals, drop marks, commissions and locks are read through the state accessors after the last DeliverTx of the block", "the block reward itself (C28) is taken as the node reports it"},
		Quick:       42, Thorough: 420, MinEval: 2500, MinDistinct: 25,
		Post: func(total *WorkerResult) {
			RequireSeen(total, "accrual: reward+fees some-absent", "accrual: reward-only", "accrual: zero-pool", "accrual: fees-only", "payout: commission=0", "payout: commission=100",
				"payout: locked delegator", "payout: emission surplus for locked stakes", "payout: share rounds to zero", "payout: custom-coin stake", "payout: nothing accrued")
			if total.Counters["payouts_judged"] < 300 {
				total.Notes = append(total.Notes, "fewer than 300 validator payouts judged")
				total.Distinct = map[string]int64{}
			}
		},
		Run: func(ctx *WorkCtx, idx int) {
			r := Rng(ctx.Seed, "C19", idx)
			blocks := 130
			sc := StdScenario(idx, r, blocks)
			if idx%10 == 2 || idx%10 == 6 {
				sc.Family = "locktime"
				sc.Spec.InitialHeight = 10197400 + int64(r.Intn(1000))
			}
			sc.Opts.StakePeriod = uint64([]int{6, 12, 24, 30}[r.Intn(4)])
			gen, w := BuildGenesis(sc.Spec, r)
			mode := c19Tweak(gen, w, idx, r)
			if err := gen.Verify(); err != nil {
				panic("c19 genesis: " + err.Error())
			}
			w.StakePeriod, w.ExpirePeriod = sc.Opts.StakePeriod, sc.Opts.ExpirePeriod
			s := NewSim("C19", ctx.Seed, idx, gen, w, sc.Opts, r, mons(ctx.Res)...)
			d := NewDriver(s, r)
			d.PAbsent = []float64{0.01, 0.05, 0.15}[r.Intn(3)]
			d.PAbsentRun = 0.004
			d.PByz = 0.004
			for _, t := range []tx.TxType{tx.TypeDelegate, tx.TypeUnbond, tx.TypeSetCandidateOffline, tx.TypeSetCandidateOnline, tx.TypeEditCandidateCommission, tx.TypeMoveStake} {
				d.G.SetWeight(t, 25)
			}
			if sc.Family == "locktime" {
				d.G.SetWeight(tx.TypeLockStake, 25)
			} else {
				d.G.SetWeight(tx.TypeLockStake, 1)
			}
			d.Run(sc.Blocks)
			ctx.Res.Count("blocks", s.H-s.W.InitialHeight+1)
			ctx.Res.Count("family/"+sc.Family, 1)
			ctx.Res.Count("stakes/"+mode, 1)
			ctx.Collect(s, idx)
			s.Finish()
		},
	})
}

package h

import (
	"encoding/hex"
	"fmt"
	"math/big"
	"math/rand"
	"reflect"
	"sort"
	"unsafe"

	"github.com/MinterTeam/minter-go-node/coreV2/dao"
	"github.com/MinterTeam/minter-go-node/coreV2/developers"
	"github.com/MinterTeam/minter-go-node/coreV2/events"
	"github.com/MinterTeam/minter-go-node/coreV2/state/candidates"
	tx "github.com/MinterTeam/minter-go-node/coreV2/transaction"
	"github.com/MinterTeam/minter-go-node/coreV2/types"
	abci "github.com/tendermint/tendermint/abci/types"
)

// C17: validator set and powers follow the stake ranking; candidate limit; delegator slots.
//
// Reference (from the statement, computed on observations only):
//  * after InitChain and after every EndBlock that returns validator updates, the exported candidates that are
//    online with a total stake of at least 1000 BIP, ranked by total stake, first 64 (any choice among equal stakes
//    at the cut) are exactly the exported validators and exactly the keys of the Tendermint set accumulated from the
//    returned updates, with power max(1, floor(stake*10^8/sum));
//  * nothing is lost or invented by a recalculation: for every (candidate, owner, coin) what was staked, pending or
//    paid as reward before EndBlock is afterwards staked, or in the waitlist (never split), or - for a removed
//    candidate - frozen until h+unbond period;
//  * a candidate is removed only if at least 100 others rank above-or-equal, never while it is a current validator,
//    and no surviving non-validator has 100 candidates strictly above it;
//  * stakes are pushed to the waitlist only when the 1000 slots are full, never a larger one while a smaller one
//    stays, and an incoming stake equal to the smallest one takes its place.

var (
	c17MinStake = Bip(1000)
	c17Pow      = big.NewInt(100000000)
)

const (
	c17MaxVals  = 64
	c17MaxCands = 100
	c17Slots    = 1000
)

type c17Key struct {
	cand  uint64
	owner types.Address
	coin  uint64
}

// c17View is what was observable right before the recalculation.
type c17View struct {
	Cands   []types.Candidate
	WL      map[c17Key]*big.Int
	FF      map[c17Key]*big.Int // frozen until FFHeight
	FFH     uint64
	CurVals map[types.Pubkey]bool
	Drop    bool
	Genesis bool
}

// MonValSet is the C17 monitor.
type MonValSet struct {
	BaseMon
	Res        *WorkerResult
	view       *c17View
	keyChanged bool
	prevSet    ValSet
}

func (m *MonValSet) Name() string { return "C17" }

func c17Period(s *Sim) uint64 {
	if s.Opts.StakePeriod == 0 {
		return 720
	}
	return s.Opts.StakePeriod
}

func c17Add(mp map[c17Key]*big.Int, k c17Key, v *big.Int) {
	if mp[k] == nil {
		mp[k] = new(big.Int)
	}
	mp[k].Add(mp[k], v)
}

func c17Get(mp map[c17Key]*big.Int, k c17Key) *big.Int {
	if v := mp[k]; v != nil {
		return v
	}
	return new(big.Int)
}

// take reads the live state through accessors (candidates with stakes and pending updates, waitlists of everybody
// who holds or awaits a stake or may receive a reward, funds frozen until h+unbond, current validators).
func (m *MonValSet) take(s *Sim, h int64) {
	cs := s.N.App.CurrentState()
	v := &c17View{WL: map[c17Key]*big.Int{}, FF: map[c17Key]*big.Int{}, CurVals: map[types.Pubkey]bool{}, FFH: uint64(h) + types.GetUnbondPeriod()}
	for _, val := range cs.Validators().GetValidators() {
		v.CurVals[val.PubKey] = true
		if val.IsToDrop() {
			v.Drop = true
		}
	}
	// NOTE: Candidates().Export() must not be used here: it reloads every stake from the committed tree and thereby
	// reverts the uncommitted changes of the running block.  Stakes are read through GetStakes, the pending updates
	// (no accessor exists) by reflection.
	for _, c := range cs.Candidates().GetCandidates() {
		ec := types.Candidate{ID: uint64(c.ID), PubKey: c.PubKey, RewardAddress: c.RewardAddress, OwnerAddress: c.OwnerAddress, ControlAddress: c.ControlAddress,
			Status: uint64(c.Status), Commission: uint64(c.Commission), TotalBipStake: c.GetTotalBipStake().String()}
		for _, st := range cs.Candidates().GetStakes(c.PubKey) {
			if st == nil {
				continue
			}
			ec.Stakes = append(ec.Stakes, types.Stake{Owner: st.Owner, Coin: uint64(st.Coin), Value: st.Value.String(), BipValue: st.BipValue.String()})
		}
		ec.Updates = c17PendingUpdates(c)
		v.Cands = append(v.Cands, ec)
	}
	seen := map[types.Address]bool{}
	addr := func(a types.Address) {
		if seen[a] {
			return
		}
		seen[a] = true
		if wl := cs.WaitList().GetByAddress(a); wl != nil {
			for _, it := range wl.List {
				c17Add(v.WL, c17Key{uint64(it.CandidateId), a, uint64(it.Coin)}, it.Value)
			}
		}
	}
	addr(dao.Address)
	addr(developers.Address)
	for i := range v.Cands {
		c := &v.Cands[i]
		addr(c.RewardAddress)
		for _, x := range c.Stakes {
			addr(x.Owner)
		}
		for _, x := range c.Updates {
			addr(x.Owner)
		}
	}
	if ff := cs.FrozenFunds().GetFrozenFunds(v.FFH); ff != nil {
		for _, it := range ff.List {
			if it.GetMoveToCandidateID() != 0 {
				continue
			}
			c17Add(v.FF, c17Key{uint64(it.CandidateID), it.Address, uint64(it.Coin)}, it.Value)
		}
	}
	m.view = v
}

// c17PendingUpdates reads the unexported list of pending stake updates of a live candidate.
func c17PendingUpdates(c *candidates.Candidate) []types.Stake {
	f := reflect.ValueOf(c).Elem().FieldByName("updates")
	if !f.IsValid() {
		panic("candidates.Candidate has no field updates")
	}
	f = reflect.NewAt(f.Type(), unsafe.Pointer(f.UnsafeAddr())).Elem()
	var out []types.Stake
	for i := 0; i < f.Len(); i++ {
		p := f.Index(i)
		if p.IsNil() {
			continue
		}
		e := p.Elem()
		owner := e.FieldByName("Owner").Interface().(types.Address)
		coin := e.FieldByName("Coin").Interface().(types.CoinID)
		val := e.FieldByName("Value").Interface().(*big.Int)
		bip := e.FieldByName("BipValue").Interface().(*big.Int)
		st := types.Stake{Owner: owner, Coin: uint64(coin), Value: "0", BipValue: "0"}
		if val != nil {
			st.Value = val.String()
		}
		if bip != nil {
			st.BipValue = bip.String()
		}
		out = append(out, st)
	}
	return out
}

func (m *MonValSet) need(s *Sim, h int64) bool {
	if uint64(h)%c17Period(s) == 0 || m.keyChanged {
		return true
	}
	for _, val := range s.N.App.CurrentState().Validators().GetValidators() {
		if val.IsToDrop() {
			return true
		}
	}
	return false
}

func (m *MonValSet) Init(s *Sim) {
	if s.Post == nil || s.Dead {
		return
	}
	g := s.Gen
	h0 := uint64(s.W.InitialHeight - 1)
	v := &c17View{Cands: g.Candidates, WL: map[c17Key]*big.Int{}, FF: map[c17Key]*big.Int{}, CurVals: map[types.Pubkey]bool{}, FFH: h0 + types.GetUnbondPeriod(), Genesis: true}
	for _, x := range g.Validators {
		v.CurVals[x.PubKey] = true
	}
	for _, w := range g.Waitlist {
		c17Add(v.WL, c17Key{w.CandidateID, w.Owner, w.Coin}, BI(w.Value))
	}
	for _, f := range g.FrozenFunds {
		if f.Height == v.FFH && f.MoveToCandidateID == 0 {
			c17Add(v.FF, c17Key{f.CandidateID, f.Address, f.Coin}, BI(f.Value))
		}
	}
	m.view = v
	m.judge(s, s.W.InitialHeight-1, s.ValSetAt(s.W.InitialHeight), nil, false)
	m.view = nil
}

func (m *MonValSet) BeforeBlock(s *Sim, req *BlockReq) {
	m.view = nil
	m.keyChanged = false
}

func (m *MonValSet) AfterBegin(s *Sim, req *BlockReq) {
	if m.need(s, req.Height) {
		m.take(s, req.Height)
	}
}

func (m *MonValSet) AfterTx(s *Sim, i int, raw []byte, meta *TxMeta, res *abci.ResponseDeliverTx) {
	if res.Code == 0 && tx.TxType(meta.Type) == tx.TypeEditCandidatePublicKey {
		m.keyChanged = true
	}
	if res.Code == 0 && meta.Type == 0 {
		// replayed histories without metas: decode the type from the tags
		if Tags(res)["tx.type"] == hex.EncodeToString([]byte{byte(tx.TypeEditCandidatePublicKey)}) {
			m.keyChanged = true
		}
	}
	if m.need(s, s.CurReq.Height) {
		m.take(s, s.CurReq.Height)
	}
}

func (m *MonValSet) AfterBlock(s *Sim, rq *BlockReq, res *BlockRes) {
	if res.Stopped || s.Post == nil {
		return
	}
	h := rq.Height
	ups := res.End.ValidatorUpdates
	expected := uint64(h)%c17Period(s) == 0 || (m.view != nil && (m.view.Drop || m.keyChanged))
	if len(ups) == 0 {
		if expected {
			s.Report(Violation{Property: "C17", Rule: "set", Site: "no-update", Height: h, TxIndex: -1, Detail: "EndBlock returned no validator updates at a height where the set has to be recomputed"})
		}
		return
	}
	if m.view == nil {
		m.Res.Inconcl = append(m.Res.Inconcl, fmt.Sprintf("height %d: validator updates without a pre-EndBlock view", h))
		return
	}
	var evs events.Events
	if pi := s.N.guard("LoadEvents", func() { evs = s.N.App.GetEventsDB().LoadEvents(uint32(h)) }); pi != nil {
		s.Report(Violation{Property: "C17", Rule: "panic", Site: "LoadEvents:" + pi.Site, Height: h, TxIndex: -1, Detail: firstLine(pi.Value)})
		return
	}
	if evs == nil {
		evs = events.Events{}
	}
	// the events of InitChain (kicks and removals of the genesis recalculation) are stored with the first block:
	// there the kick / removal events cannot be told apart, only the reward events are used
	m.judge(s, h, s.ValSetAt(h+2), evs, h != s.W.InitialHeight)
}

type c17Rank struct {
	id    uint64
	pub   types.Pubkey
	total *big.Int // nil = unknown
}

// judge compares the state after a recalculation (s.Post, accumulated Tendermint set) with the reference.
// evs == nil: no events are available (InitChain).
func (m *MonValSet) judge(s *Sim, h int64, tmSet ValSet, evs events.Events, evCheck bool) {
	post := s.Post
	v := m.view
	where := "end-block"
	if v.Genesis {
		where = "init-chain"
		// the harness exports from disk; right after InitChain the elected validator list only exists in memory
		// (it is committed with the first block), so it is read through the accessor
		cp := *s.Post
		cp.Validators = nil
		for _, val := range s.N.App.CurrentState().Validators().GetValidators() {
			cp.Validators = append(cp.Validators, types.Validator{TotalBipStake: val.GetTotalBipStake().String(), PubKey: val.PubKey, AccumReward: val.GetAccumReward().String(), AbsentTimes: val.AbsentTimes})
		}
		post = &cp
	}
	viol := func(rule, site, detail string) {
		s.Report(Violation{Property: "C17", Rule: rule, Site: site, Height: h, TxIndex: -1, Detail: where + ": " + detail})
	}
	m.Res.Evaluations++
	m.Res.Count("recalculations_judged/"+where, 1)

	// ---------- A. the set and its powers
	type el struct {
		pub   types.Pubkey
		stake *big.Int
	}
	var elig []el
	candByPub := map[types.Pubkey]*types.Candidate{}
	// InitChain recalculates twice (import, then the first validator update); the harness's export right after
	// InitChain reloads the candidates from the tree committed in between, so for candidates with custom-coin stakes
	// the exported total may be the one of the first pass while the validator records the second: rank with the latter.
	recorded := map[types.Pubkey]*big.Int{}
	if v.Genesis {
		for _, x := range post.Validators {
			recorded[x.PubKey] = BI(x.TotalBipStake)
		}
	}
	for i := range post.Candidates {
		c := &post.Candidates[i]
		candByPub[c.PubKey] = c
		t := BI(c.TotalBipStake)
		if rt := recorded[c.PubKey]; rt != nil && rt.Cmp(t) != 0 {
			m.Res.Seen("init-chain: total moved between the two genesis recalculations (custom-coin stakes)")
			custom := false
			for _, st := range c.Stakes {
				if st.Coin != 0 {
					custom = true
				}
			}
			if !custom {
				viol("set", "validator-stake", fmt.Sprintf("validator %s recorded with stake %s, candidate (base-coin stakes only) has %s", c.PubKey.String(), rt, t))
			}
		}
		sum := new(big.Int)
		for _, st := range c.Stakes {
			sum.Add(sum, BI(st.BipValue))
			if st.Coin == 0 && st.BipValue != st.Value {
				viol("stake-value", "base-coin-bip-value", fmt.Sprintf("candidate %d: base-coin stake of %s has value %s but bip value %s", c.ID, st.Owner.String(), st.Value, st.BipValue))
			}
		}
		if sum.Cmp(t) != 0 {
			viol("stake-value", "total-vs-stakes", fmt.Sprintf("candidate %d: total stake %s but its stakes sum to %s", c.ID, t, sum))
		}
		if len(c.Updates) != 0 {
			viol("stake-value", "updates-left", fmt.Sprintf("candidate %d still has %d pending stake updates after the recalculation", c.ID, len(c.Updates)))
		}
		if len(c.Stakes) > c17Slots {
			viol("slots", "more-than-1000", fmt.Sprintf("candidate %d has %d stakes", c.ID, len(c.Stakes)))
		}
		if rt := recorded[c.PubKey]; rt != nil {
			t = rt
		}
		if c.Status == 2 && t.Cmp(c17MinStake) >= 0 {
			elig = append(elig, el{c.PubKey, t})
		}
	}
	sort.SliceStable(elig, func(i, j int) bool { return elig[i].stake.Cmp(elig[j].stake) > 0 })
	must := map[types.Pubkey]bool{}
	may := map[types.Pubkey]bool{}
	wantN := len(elig)
	cls := fmt.Sprintf("set: %s eligible<=64", where)
	if len(elig) > c17MaxVals {
		wantN = c17MaxVals
		cut := elig[c17MaxVals-1].stake
		cls = fmt.Sprintf("set: %s eligible>64", where)
		if elig[c17MaxVals].stake.Cmp(cut) == 0 {
			cls += " tie-at-cut"
		}
		for _, e := range elig {
			switch c := e.stake.Cmp(cut); {
			case c > 0:
				must[e.pub] = true
			case c == 0:
				may[e.pub] = true
			}
		}
	} else {
		for _, e := range elig {
			must[e.pub] = true
		}
	}
	if len(elig) < len(post.Candidates) {
		cls += " some-ineligible"
	}
	m.Res.Seen(cls)
	got := map[types.Pubkey]*big.Int{}
	sumGot := new(big.Int)
	for _, x := range post.Validators {
		if got[x.PubKey] != nil {
			viol("set", "duplicate-validator", x.PubKey.String())
		}
		got[x.PubKey] = BI(x.TotalBipStake)
		sumGot.Add(sumGot, got[x.PubKey])
		c := candByPub[x.PubKey]
		switch {
		case c == nil:
			viol("set", "validator-without-candidate", x.PubKey.String())
		case !must[x.PubKey] && !may[x.PubKey]:
			why := "ranked below the first 64"
			if c.Status != 2 {
				why = "offline"
			} else if BI(c.TotalBipStake).Cmp(c17MinStake) < 0 {
				why = "stake below 1000 BIP"
			}
			viol("set", "unexpected-validator", fmt.Sprintf("%s (candidate %d, stake %s) is a validator although %s", x.PubKey.String(), c.ID, c.TotalBipStake, why))
		case !v.Genesis && BI(c.TotalBipStake).Cmp(got[x.PubKey]) != 0:
			viol("set", "validator-stake", fmt.Sprintf("validator %s recorded with stake %s, candidate has %s", x.PubKey.String(), x.TotalBipStake, c.TotalBipStake))
		}
	}
	for pk := range must {
		if got[pk] == nil {
			viol("set", "missing-validator", fmt.Sprintf("%s (candidate %d, stake %s, online) is among the top %d but not a validator", pk.String(), candByPub[pk].ID, candByPub[pk].TotalBipStake, wantN))
		}
	}
	if len(got) != wantN {
		viol("set", "size", fmt.Sprintf("%d validators, expected %d (eligible %d)", len(got), wantN, len(elig)))
	}
	// Tendermint's view
	for pk, p := range tmSet {
		st := got[pk]
		if st == nil {
			viol("set", "tendermint-extra", fmt.Sprintf("%s has power %d in the accumulated Tendermint set but is not an exported validator", pk.String(), p))
			continue
		}
		want := new(big.Int).Mul(st, c17Pow)
		if sumGot.Sign() > 0 {
			want.Div(want, sumGot)
		}
		if want.Sign() == 0 {
			want.SetInt64(1)
			m.Res.Seen("power: raised to 1")
		}
		if !want.IsInt64() || want.Int64() != p {
			viol("power", "value", fmt.Sprintf("%s: power %d, expected %s (stake %s of %s)", pk.String(), p, want, st, sumGot))
		}
	}
	for pk := range got {
		if _, ok := tmSet[pk]; !ok {
			viol("set", "tendermint-missing", fmt.Sprintf("exported validator %s is not in the accumulated Tendermint set", pk.String()))
		}
	}
	m.Res.Count("validators_compared", int64(len(got)))

	// ---------- B. conservation, removal, slots
	preByID := map[uint64]*types.Candidate{}
	idByPub := map[types.Pubkey]uint64{}
	for i := range v.Cands {
		preByID[v.Cands[i].ID] = &v.Cands[i]
		idByPub[v.Cands[i].PubKey] = v.Cands[i].ID
	}
	postByID := map[uint64]*types.Candidate{}
	for i := range post.Candidates {
		postByID[post.Candidates[i].ID] = &post.Candidates[i]
	}
	in := map[c17Key]*big.Int{}
	for _, c := range v.Cands {
		for _, st := range c.Stakes {
			c17Add(in, c17Key{c.ID, st.Owner, st.Coin}, BI(st.Value))
		}
		for _, st := range c.Updates {
			c17Add(in, c17Key{c.ID, st.Owner, st.Coin}, BI(st.Value))
		}
	}
	kicks := map[c17Key]*big.Int{}
	removedEv := map[types.Pubkey]bool{}
	for _, e := range evs {
		switch x := e.(type) {
		case *events.RewardEvent:
			if id, ok := idByPub[x.ValidatorPubKey]; ok {
				c17Add(in, c17Key{id, x.Address, 0}, BI(x.Amount))
			}
		case *events.StakeKickEvent:
			if id, ok := idByPub[x.ValidatorPubKey]; ok && BI(x.Amount).Sign() > 0 {
				c17Add(kicks, c17Key{id, x.Address, x.Coin}, BI(x.Amount))
			}
		case *events.RemoveCandidateEvent:
			removedEv[x.CandidatePubKey] = true
		}
	}
	postWL := map[c17Key]*big.Int{}
	for _, w := range post.Waitlist {
		c17Add(postWL, c17Key{w.CandidateID, w.Owner, w.Coin}, BI(w.Value))
	}
	postFF := map[c17Key]*big.Int{}
	for _, f := range post.FrozenFunds {
		if f.Height == v.FFH && f.MoveToCandidateID == 0 {
			c17Add(postFF, c17Key{f.CandidateID, f.Address, f.Coin}, BI(f.Value))
		}
	}
	postStake := map[c17Key]*big.Int{}
	for _, c := range post.Candidates {
		for _, st := range c.Stakes {
			c17Add(postStake, c17Key{c.ID, st.Owner, st.Coin}, BI(st.Value))
		}
		for _, st := range c.Updates {
			c17Add(postStake, c17Key{c.ID, st.Owner, st.Coin}, BI(st.Value))
		}
	}
	keys := map[c17Key]bool{}
	for k := range in {
		keys[k] = true
	}
	for k := range postStake {
		keys[k] = true
	}
	var removed []uint64
	for id := range preByID {
		if postByID[id] == nil {
			removed = append(removed, id)
		}
	}
	sort.Slice(removed, func(i, j int) bool { return removed[i] < removed[j] })
	losers := map[uint64][]c17Key{}
	nCons := 0
	for k := range keys {
		inV := c17Get(in, k)
		dWL := new(big.Int).Sub(c17Get(postWL, k), c17Get(v.WL, k))
		out := new(big.Int).Add(c17Get(postStake, k), dWL)
		site := "surviving-candidate"
		if preByID[k.cand] != nil && postByID[k.cand] == nil {
			site = "removed-candidate"
			out.Add(out, new(big.Int).Sub(c17Get(postFF, k), c17Get(v.FF, k)))
		}
		nCons++
		if inV.Cmp(out) != 0 {
			viol("conservation", site, fmt.Sprintf("candidate %d owner %s coin %d: %s staked/pending/rewarded before the recalculation, afterwards stake %s + waitlist change %s (+ frozen change for removed candidates) = %s",
				k.cand, k.owner.String(), k.coin, inV, c17Get(postStake, k), dWL, out))
			continue
		}
		if dWL.Sign() < 0 {
			viol("conservation", "waitlist-shrank", fmt.Sprintf("candidate %d owner %s coin %d: waitlist changed by %s", k.cand, k.owner.String(), k.coin, dWL))
		}
		if dWL.Sign() > 0 {
			if c17Get(postStake, k).Sign() > 0 {
				viol("slots", "partial-kick", fmt.Sprintf("candidate %d owner %s coin %d: %s moved to the waitlist while %s stays staked", k.cand, k.owner.String(), k.coin, dWL, c17Get(postStake, k)))
			}
			losers[k.cand] = append(losers[k.cand], k)
			if evCheck {
				if c17Get(kicks, k).Cmp(dWL) != 0 {
					viol("slots", "kick-event", fmt.Sprintf("candidate %d owner %s coin %d: %s went to the waitlist, StakeKickEvents report %s", k.cand, k.owner.String(), k.coin, dWL, c17Get(kicks, k)))
				}
			}
		} else if evCheck && c17Get(kicks, k).Sign() > 0 {
			viol("slots", "kick-event", fmt.Sprintf("candidate %d owner %s coin %d: StakeKickEvent for %s but the waitlist did not grow", k.cand, k.owner.String(), k.coin, c17Get(kicks, k)))
		}
	}
	m.Res.Count("stake_entries_balanced", int64(nCons))

	// slots
	for id, ls := range losers {
		pc := postByID[id]
		pre := preByID[id]
		if pc == nil || pre == nil {
			m.Res.Seen("slots: kicks in a removed candidate")
			continue
		}
		preStake := map[c17Key]bool{}
		zeroPre := 0
		for _, st := range pre.Stakes {
			preStake[c17Key{id, st.Owner, st.Coin}] = true
			if BI(st.Value).Sign() == 0 {
				zeroPre++
			}
		}
		if len(pc.Stakes)+zeroPre < c17Slots {
			viol("slots", "kick-with-free-slot", fmt.Sprintf("candidate %d: %d stakes moved to the waitlist although only %d of 1000 slots are taken", id, len(ls), len(pc.Stakes)))
			continue
		}
		min := (*big.Int)(nil)
		newSurvivors := 0
		for _, st := range pc.Stakes {
			b := BI(st.BipValue)
			if min == nil || b.Cmp(min) < 0 {
				min = b
			}
			if !preStake[c17Key{id, st.Owner, st.Coin}] {
				newSurvivors++
			}
		}
		m.Res.Count("kicks_judged", int64(len(ls)))
		for _, k := range ls {
			if k.coin != 0 {
				m.Res.Seen("slots: custom-coin loser (bip value not observable)")
				continue
			}
			val := c17Get(in, k)
			incoming := !preStake[k]
			kind := "existing"
			if incoming {
				kind = "incoming"
			}
			switch c := val.Cmp(min); {
			case c > 0:
				viol("slots", "larger-kicked", fmt.Sprintf("candidate %d: %s stake of %s (%s) is in the waitlist while a stake with bip value %s keeps its slot", id, kind, k.owner.String(), val, min))
			case c == 0 && incoming && newSurvivors == 0:
				viol("slots", "equal-incoming-kicked", fmt.Sprintf("candidate %d: incoming stake of %s (%s) equals the smallest stake (%s) but went to the waitlist", id, k.owner.String(), val, min))
			case c == 0:
				m.Res.Seen("slots: " + kind + " loser equal to the smallest survivor")
			default:
				m.Res.Seen("slots: " + kind + " loser smaller than every survivor")
			}
		}
		if newSurvivors > 0 {
			m.Res.Seen("slots: incoming stake took a slot of a full candidate")
		}
	}
	// full candidates without kicks are interesting too
	for id, pc := range postByID {
		if len(pc.Stakes) == c17Slots && len(losers[id]) == 0 {
			m.Res.Seen("slots: full candidate, nobody kicked")
		}
	}

	// removal / limit
	var ranks []c17Rank
	for _, c := range post.Candidates {
		ranks = append(ranks, c17Rank{c.ID, c.PubKey, BI(c.TotalBipStake)})
	}
	for _, id := range removed {
		pre := preByID[id]
		rk := c17Rank{id: id, pub: pre.PubKey}
		known := len(pre.Stakes)+len(pre.Updates) <= c17Slots
		t := new(big.Int)
		for k, val := range in {
			if k.cand != id {
				continue
			}
			if k.coin != 0 {
				known = false
			}
			t.Add(t, val)
		}
		if known {
			rk.total = t
		}
		ranks = append(ranks, rk)
		if v.CurVals[pre.PubKey] {
			viol("limit", "validator-removed", fmt.Sprintf("candidate %d (%s) was a current validator and has been removed", id, pre.PubKey.String()))
		}
		if evCheck && !removedEv[pre.PubKey] {
			viol("limit", "no-remove-event", fmt.Sprintf("candidate %d (%s) disappeared without a RemoveCandidateEvent", id, pre.PubKey.String()))
		}
		for _, d := range post.Candidates {
			if d.PubKey == pre.PubKey {
				viol("limit", "removed-key-reused", pre.PubKey.String())
			}
		}
	}
	if evCheck {
		for pk := range removedEv {
			id, ok := idByPub[pk]
			if !ok || postByID[id] != nil {
				viol("limit", "remove-event-without-removal", pk.String())
			}
		}
	}
	isRemoved := map[uint64]bool{}
	for _, id := range removed {
		isRemoved[id] = true
	}
	for _, r := range ranks {
		if isRemoved[r.id] {
			if r.total == nil {
				m.Res.Seen("limit: removed candidate with custom-coin stakes (rank not judged)")
				continue
			}
			ge := 0
			for _, o := range ranks {
				if o.id == r.id {
					continue
				}
				if o.total == nil || o.total.Cmp(r.total) >= 0 {
					ge++
				}
			}
			if ge < c17MaxCands {
				viol("limit", "removed-within-limit", fmt.Sprintf("candidate %d (stake %s) was removed although only %d of %d candidates have at least its stake", r.id, r.total, ge, len(ranks)))
			} else {
				m.Res.Seen("limit: candidate beyond rank 100 removed, stakes frozen")
			}
			continue
		}
		gt := 0
		for _, o := range ranks {
			if o.total != nil && o.total.Cmp(r.total) > 0 {
				gt++
			}
		}
		if gt >= c17MaxCands {
			if v.CurVals[r.pub] {
				m.Res.Seen("limit: current validator ranked beyond 100 kept")
			} else {
				viol("limit", "not-removed-beyond-limit", fmt.Sprintf("candidate %d (stake %s) survives although %d candidates have a larger stake and it is not a current validator", r.id, r.total, gt))
			}
		}
	}
	switch {
	case len(ranks) > c17MaxCands:
		m.Res.Seen("limit: " + where + " more than 100 candidates before removal")
	case len(ranks) == c17MaxCands:
		m.Res.Seen("limit: " + where + " exactly 100 candidates")
	}
	if len(removed) > 0 {
		m.Res.Count("candidates_removed", int64(len(removed)))
	}
}

// RequireSeen makes a run "broken" when a class the check is built to observe (key prefix) was never seen: the
// distinct classes are dropped so that the MinDistinct test fails, and a note names what is missing.
func RequireSeen(total *WorkerResult, prefixes ...string) {
	var missing []string
	for _, p := range prefixes {
		ok := false
		for k := range total.Distinct {
			if len(k) >= len(p) && k[:len(p)] == p {
				ok = true
				break
			}
		}
		if !ok {
			missing = append(missing, p)
		}
	}
	if len(missing) > 0 {
		total.Notes = append(total.Notes, fmt.Sprintf("required situation classes never observed: %q (had %d classes)", missing, len(total.Distinct)))
		total.Distinct = map[string]int64{}
	}
}

// ---------------------------------------------------------------- scenarios

type c17Plan struct {
	kind string
	sc   Scenario
	gen  *types.AppState
	w    *World
	xID  uint64 // the full offline candidate of the slot scenarios
	eKey []*Key // its delegators, ascending by stake
}

func c17SetBaseStakes(gen *types.AppState, c *types.Candidate, owners []types.Address, vals []*big.Int) {
	var keep []types.Stake
	total := new(big.Int)
	for _, st := range c.Stakes {
		if st.Coin != 0 {
			keep = append(keep, st)
			total.Add(total, BI(st.BipValue))
		}
	}
	var out []types.Stake
	for i, v := range vals {
		out = append(out, types.Stake{Owner: owners[i], Coin: 0, Value: v.String(), BipValue: v.String()})
		total.Add(total, v)
	}
	c.Stakes = append(out, keep...)
	c.TotalBipStake = total.String()
	for i := range gen.Validators {
		if gen.Validators[i].PubKey == c.PubKey {
			gen.Validators[i].TotalBipStake = total.String()
		}
	}
}

func c17Account(gen *types.AppState, a types.Address, bip int64) {
	for i := range gen.Accounts {
		if gen.Accounts[i].Address == a {
			return
		}
	}
	gen.Accounts = append(gen.Accounts, types.Account{Address: a, Balance: []types.Balance{{Coin: 0, Value: Bip(bip).String()}}})
	sort.Slice(gen.Accounts, func(i, j int) bool { return gen.Accounts[i].Address.Compare(gen.Accounts[j].Address) < 0 })
}

func c17Build(idx int, r *rand.Rand) *c17Plan {
	p := &c17Plan{}
	kinds := []string{"std", "std", "crowded", "bigset", "slots", "slots-genesis", "crowded", "std"}
	p.kind = kinds[idx%len(kinds)]
	sc := StdScenario(idx/len(kinds)*10+[]int{0, 7, 9, 1, 2, 4, 9, 5}[idx%len(kinds)], r, 100)
	sc.Opts.StakePeriod = uint64([]int{6, 12, 24}[r.Intn(3)])
	switch p.kind {
	case "crowded":
		sc.Family = "crowded"
		sc.Spec.Validators = 8
		sc.Spec.ExtraCands = 90 + r.Intn(9) // 98..106 candidates
		sc.Spec.Users = 20
	case "bigset":
		sc.Family = "bigset"
		sc.Spec.Validators = 58 + r.Intn(5)
		sc.Spec.ExtraCands = 10 + r.Intn(20)
		sc.Spec.Users = 20
	case "slots", "slots-genesis":
		sc.Family = p.kind
		sc.Spec.Validators = 4
		sc.Spec.ExtraCands = 3
		sc.Spec.BigDelegators = 1000
		sc.Spec.Users = 16
		sc.Opts.StakePeriod = uint64([]int{6, 12}[r.Intn(2)])
	}
	gen, w := BuildGenesis(sc.Spec, r)
	nv := sc.Spec.Validators
	if nv == 0 {
		nv = 4
	}
	switch p.kind {
	case "crowded":
		// extras: mostly online, stakes with many equal values around the 100th rank; one validator far down the ranking
		vals := []int64{1500, 1500, 1500, 1700, 1700, 2000, 2500, 3000, 3000, 4000}
		for i := nv; i < len(gen.Candidates); i++ {
			c := &gen.Candidates[i]
			c17SetBaseStakes(gen, c, []types.Address{c.OwnerAddress}, []*big.Int{Bip(vals[r.Intn(len(vals))] + int64(r.Intn(3))*100)})
			c.Status = 2
			if r.Intn(8) == 0 {
				c.Status = 1
			}
		}
		low := &gen.Candidates[nv-1]
		c17SetBaseStakes(gen, low, []types.Address{low.OwnerAddress}, []*big.Int{Bip(int64(1000 + r.Intn(400)))})
		// pending moves of the generic genesis are re-targeted to a validator: a move that matures towards a candidate
		// removed by the limit makes the node panic in BeginBlock (reported under C07/C16, not this property's business)
		for i := range gen.FrozenFunds {
			if gen.FrozenFunds[i].MoveToCandidateID != 0 {
				gen.FrozenFunds[i].MoveToCandidateID = gen.Candidates[0].ID
				if gen.FrozenFunds[i].CandidateID == gen.Candidates[0].ID {
					gen.FrozenFunds[i].MoveToCandidateID = gen.Candidates[1].ID
				}
			}
		}
	case "bigset":
		vals := []int64{5000, 5000, 5000, 7000, 7000, 9000, 12000, 12000}
		for i := nv; i < len(gen.Candidates); i++ {
			c := &gen.Candidates[i]
			c17SetBaseStakes(gen, c, []types.Address{c.OwnerAddress}, []*big.Int{Bip(vals[r.Intn(len(vals))])})
			c.Status = 2
			if r.Intn(10) == 0 {
				c.Status = 1
			}
			if r.Intn(10) == 0 {
				c17SetBaseStakes(gen, c, []types.Address{c.OwnerAddress}, []*big.Int{new(big.Int).Sub(Bip(1000), big.NewInt(int64(r.Intn(2))))}) // 1000 BIP or one pip less
			}
		}
		// one giant beside the others so that some powers round down to zero
		if r.Intn(2) == 0 {
			g := &gen.Candidates[0]
			c17SetBaseStakes(gen, g, []types.Address{g.OwnerAddress}, []*big.Int{Bip(3000000000000)})
		}
	case "slots", "slots-genesis":
		// base-coin stakes only in the genesis of these shapes: with custom-coin stakes and genesis kicks the two
		// recalculations of InitChain give different bip values, and the harness's export right after InitChain
		// (Candidates.Export reloads the stakes from the tree committed between the two) then leaves validators and
		// stakes inconsistent, which ends the history with a "Negative remainder" panic at the first payout
		for i := range gen.Candidates {
			c := &gen.Candidates[i]
			var keep []types.Stake
			total := new(big.Int)
			for _, st := range c.Stakes {
				if st.Coin == 0 {
					keep = append(keep, st)
					total.Add(total, BI(st.Value))
				}
			}
			c.Stakes = keep
			c.TotalBipStake = total.String()
			for j := range gen.Validators {
				if gen.Validators[j].PubKey == c.PubKey {
					gen.Validators[j].TotalBipStake = total.String()
				}
			}
		}
		x := &gen.Candidates[nv] // first extra candidate: offline, 1000 delegators with distinct static stakes
		x.Status = 1
		var owners []types.Address
		var vals []*big.Int
		for j := 0; j < c17Slots; j++ {
			k := NewKey("e", j)
			p.eKey = append(p.eKey, k)
			owners = append(owners, k.Addr)
			vals = append(vals, Bip(int64(200+2*j)))
		}
		x.Stakes = nil
		c17SetBaseStakes(gen, x, owners, vals)
		p.xID = x.ID
		for j := 0; j < 40; j++ {
			c17Account(gen, p.eKey[j].Addr, 100000)
		}
		// waitlist entries of the generic genesis may point at x: harmless
		if p.kind == "slots-genesis" {
			u := func(i int) types.Address { return w.Users[i%len(w.Users)].Addr }
			min := BI(vals[0].String())
			ups := []types.Stake{
				{Owner: u(1), Coin: 0, Value: min.String(), BipValue: min.String()},                                       // equal to the smallest: takes its place
				{Owner: u(2), Coin: 0, Value: new(big.Int).Sub(min, big.NewInt(1)).String(), BipValue: "0"},               // one pip smaller: waitlist
				{Owner: u(3), Coin: 0, Value: new(big.Int).Add(min, Bip(int64(1+r.Intn(50)))).String(), BipValue: "0"},    // larger
				{Owner: p.eKey[5+r.Intn(500)].Addr, Coin: 0, Value: Bip(int64(1 + r.Intn(1000))).String(), BipValue: "0"}, // top-up of an existing stake
			}
			switch r.Intn(3) {
			case 0:
				ups = ups[:1]
			case 1:
				ups = ups[1:]
			}
			x.Updates = ups
		}
	}
	fixVolumes(gen)
	if err := gen.Verify(); err != nil {
		panic("c17 genesis: " + err.Error())
	}
	w.StakePeriod, w.ExpirePeriod = sc.Opts.StakePeriod, sc.Opts.ExpirePeriod
	p.sc, p.gen, p.w = sc, gen, w
	return p
}

// c17Block runs one block: injected hand-made transactions first, then generated ones.
func c17Block(d *Driver, inject []func() ([]byte, TxMeta)) *BlockRes {
	rq := d.NextReq()
	n := len(inject) + d.R.Intn(d.MaxTxs+1)
	return d.S.RunBlock(rq, nil, func(i int) ([]byte, TxMeta, bool) {
		if i > 0 {
			res := d.S.CurRes.Deliver[i-1]
			pm := d.S.Metas[i-1]
			d.G.Learn(&pm, res.Code, Tags(&res))
		}
		if i >= n {
			return nil, TxMeta{}, false
		}
		if i < len(inject) {
			b, mt := inject[i]()
			return b, mt, true
		}
		b, mt := d.G.Next()
		return b, mt, true
	})
}

func c17Tx(s *Sim, k *Key, t tx.TxType, data interface{}, note string) func() ([]byte, TxMeta) {
	return func() ([]byte, TxMeta) {
		n := s.N.App.CurrentState().Accounts().GetNonce(k.Addr) + 1
		sp := &TxSpec{Nonce: n, ChainID: types.CurrentChainID, GasPrice: 1, GasCoin: 0, Type: t, Data: data, Signer: k}
		return sp.Encode(), TxMeta{Type: byte(t), Sender: hex.EncodeToString(k.Addr[:]), Nonce: n, GasPrice: 1, Kind: "valid", Note: note, Chain: byte(types.CurrentChainID)}
	}
}

// c17SlotTxs makes hand-made staking transactions around the smallest stakes of the full candidates.
func c17SlotTxs(p *c17Plan, s *Sim, r *rand.Rand, res *WorkerResult) []func() ([]byte, TxMeta) {
	if s.Post == nil {
		return nil
	}
	var out []func() ([]byte, TxMeta)
	keyOf := map[types.Address]*Key{}
	for _, k := range p.eKey[:40] {
		keyOf[k.Addr] = k
	}
	user := func() *Key { return p.w.Users[r.Intn(len(p.w.Users))] }
	for i := range s.Post.Candidates {
		c := &s.Post.Candidates[i]
		if len(c.Stakes) < c17Slots || r.Intn(3) != 0 {
			continue
		}
		// two smallest base-coin stakes
		type sv struct {
			o types.Address
			v *big.Int
		}
		var ss []sv
		for _, st := range c.Stakes {
			if st.Coin == 0 {
				ss = append(ss, sv{st.Owner, BI(st.BipValue)})
			}
		}
		sort.Slice(ss, func(a, b int) bool { return ss[a].v.Cmp(ss[b].v) < 0 })
		if len(ss) < 3 {
			continue
		}
		min, second := ss[0], ss[1]
		switch r.Intn(6) {
		case 0, 1: // a new delegator a little above the smallest stake
			v := new(big.Int).Add(min.v, big.NewInt(int64(1+r.Intn(3))))
			out = append(out, c17Tx(s, user(), tx.TypeDelegate, tx.DelegateDataV260{PubKey: c.PubKey, Coin: 0, Value: v}, "slot: just above the smallest"))
			res.Count("handmade/just-above-smallest", 1)
		case 2: // equal to the smallest: refused by the transaction itself
			out = append(out, c17Tx(s, user(), tx.TypeDelegate, tx.DelegateDataV260{PubKey: c.PubKey, Coin: 0, Value: new(big.Int).Set(min.v)}, "slot: equal to the smallest"))
			res.Count("handmade/equal-to-smallest", 1)
		case 3: // much larger
			out = append(out, c17Tx(s, user(), tx.TypeDelegate, tx.DelegateDataV260{PubKey: c.PubKey, Coin: 0, Value: new(big.Int).Add(second.v, Bip(int64(1+r.Intn(500))))}, "slot: larger"))
			res.Count("handmade/larger", 1)
		case 4, 5: // the tie: the smallest holder tops up, a newcomer brings exactly the second smallest stake
			k := keyOf[min.o]
			if k == nil || second.v.Cmp(min.v) == 0 {
				continue
			}
			out = append(out, c17Tx(s, k, tx.TypeDelegate, tx.DelegateDataV260{PubKey: c.PubKey, Coin: 0, Value: Bip(int64(3000 + r.Intn(1000)))}, "slot: smallest holder tops up"))
			out = append(out, c17Tx(s, user(), tx.TypeDelegate, tx.DelegateDataV260{PubKey: c.PubKey, Coin: 0, Value: new(big.Int).Set(second.v)}, "slot: newcomer equal to the next smallest"))
			res.Count("handmade/tie-with-next-smallest", 1)
		}
	}
	return out
}

func init() {
	mons := func(res *WorkerResult) []Monitor { return []Monitor{&MonValSet{Res: res}} }
	MonitorsFor["C17"] = mons
	Register(&CheckDef{
		ID: "C17", Level: "exploration",
		Rule:        "generated histories over six genesis shapes (standard families; 98..106 candidates with many equal stakes around rank 100 and one validator far down the ranking; 70..90 eligible candidates with equal stakes around rank 64, stakes of exactly 1000 BIP and 1000 BIP minus one pip, a giant stake that rounds other powers to zero; a validator with 1000+ delegators and an offline candidate with exactly 1000 delegators, with pending genesis updates equal to / one pip below / above the smallest stake) driven by the state-aware generator with staking transactions weighted up plus hand-made delegations around the smallest stake of full candidates (just above, equal, larger, the smallest holder tops up while a newcomer brings exactly the next smallest value); one evaluation = one recalculation (InitChain or an EndBlock that returned validator updates) whose resulting set, powers, per-stake conservation, removals and waitlist moves were compared with the reference; distinct = set classes (eligible <=/> 64, tie at the cut), limit classes (>100, exactly 100, removal, validator kept), slot classes (kinds of losers, incoming took a slot, full without kicks), power raised to 1",
		Assumptions: []string{"the state right before EndBlock is read through the candidates' own export, waitlist and frozen-fund accessors after the last DeliverTx", "total_bip_stake and per-stake bip values of custom coins are taken as exported (their computation is not part of this property); losers in custom coins are not ranked", "the Tendermint validator set is the accumulation of the returned updates"},
		Quick:       40, Thorough: 400, MinEval: 250, MinDistinct: 14,
		Post: func(total *WorkerResult) {
			RequireSeen(total, "set: end-block eligible>64", "limit: candidate beyond rank 100 removed, stakes frozen", "limit: current validator ranked beyond 100 kept",
				"slots: incoming stake took a slot of a full candidate", "slots: incoming loser smaller than every survivor", "slots: existing loser", "power: raised to 1")
		},
		Run: func(ctx *WorkCtx, idx int) {
			r := Rng(ctx.Seed, "C17", idx)
			p := c17Build(idx, r)
			s := NewSim("C17", ctx.Seed, idx, p.gen, p.w, p.sc.Opts, r, mons(ctx.Res)...)
			d := NewDriver(s, r)
			if p.sc.Family == "locktime" {
				d.G.SetWeight(tx.TypeLockStake, 10)
			} else {
				d.G.SetWeight(tx.TypeLockStake, 1)
			}
			for _, t := range []tx.TxType{tx.TypeDelegate, tx.TypeUnbond, tx.TypeSetCandidateOffline, tx.TypeSetCandidateOnline, tx.TypeMoveStake} {
				d.G.SetWeight(t, 30)
			}
			d.G.SetWeight(tx.TypeDeclareCandidacy, 30)
			d.G.SetWeight(tx.TypeEditCandidatePublicKey, 6)
			d.PAbsent = 0.02
			d.PByz = 0.004
			blocks := 72
			switch p.kind {
			case "crowded":
				d.G.SetWeight(tx.TypeDeclareCandidacy, 120)
				blocks = 60
				d.PByz = 0.06 // evidence against a validator while more than 100 candidates exist (seed C17-m1)
			case "bigset":
				blocks = 48
			case "slots", "slots-genesis":
				d.MaxTxs = 4
				blocks = 60
			}
			for i := 0; i < blocks && !s.Dead && !s.Stopped; i++ {
				var inj []func() ([]byte, TxMeta)
				if p.kind == "slots" || p.kind == "slots-genesis" {
					inj = c17SlotTxs(p, s, r, ctx.Res)
				}
				c17Block(d, inj)
			}
			ctx.Res.Count("blocks", s.H-s.W.InitialHeight+1)
			ctx.Res.Count("shape/"+p.kind, 1)
			ctx.Collect(s, idx)
			s.Finish()
		},
	})
}

package h

import (
	"bytes"
	"fmt"
	"runtime"
	"time"

	abci "github.com/tendermint/tendermint/abci/types"
)

// MonSnapshot implements C29: two producers snapshot at the same heights (one of them is restarted now and then);
// the snapshot of the first is restored into a fresh node which then follows the chain.
type MonSnapshot struct {
	BaseMon
	Res       *WorkerResult
	Interval  int64
	RestoreAt map[int64]bool // snapshot heights at which a fresh node is restored
	RebootP2  map[int64]bool // P2 is restarted after these heights
	p2        *Node
	p2dead    bool
	rs        []*Node // restored followers
	rsFrom    []int64

	BackToBack bool       // the second producer executes a snapshot block and the next block without a pause
	held       *heldBlock // block the second producer still has to execute
	pendSnap   *pendSnap  // first producer's snapshot waiting for the second producer's
}

func (m *MonSnapshot) Name() string { return "C29" }

func (m *MonSnapshot) rep(s *Sim, rule, site, detail string) {
	s.Report(Violation{Property: "C29", Rule: rule, Site: site, Height: s.H, TxIndex: -1, Detail: detail})
}

func (m *MonSnapshot) Init(s *Sim) {
	opts := s.Opts
	opts.AppDir = "" // a second instance never shares the first one's app DB directory
	opts.Dir, opts.Wrap = "", nil
	m.p2 = NewNode(opts)
	if _, pi := m.p2.InitChain(s.Gen, s.W.InitialHeight, s.T0); pi != nil {
		m.p2dead = true
	}
}

func findSnap(n *Node, h int64) *abci.Snapshot {
	for _, sn := range n.App.ListSnapshots(abci.RequestListSnapshots{}).Snapshots {
		if int64(sn.Height) == h {
			return sn
		}
	}
	return nil
}

// waitSnap waits until the snapshot of height h is listed. The node adds to its WaitGroup inside the snapshot goroutine,
// so the hook alone can return before the goroutine has started; polling closes that gap (bounded; a miss is inconclusive).
func waitSnap(n *Node, h int64) *abci.Snapshot {
	for i := 0; i < 3000; i++ {
		n.App.VerifWaitSnapshots()
		if sn := findSnap(n, h); sn != nil {
			return sn
		}
		time.Sleep(time.Millisecond)
	}
	return nil
}

func (m *MonSnapshot) AfterBlock(s *Sim, req *BlockReq, res *BlockRes) {
	if res.Stopped {
		return
	}
	h := req.Height
	// followers restored earlier execute the same block
	for i, r := range m.rs {
		if r == nil {
			continue
		}
		r2 := r.RunBlock(req, nil)
		if d := CompareBlocks(res, r2); d != "" {
			if r2.Panic != nil {
				d += " / " + r2.Panic.Call + ": " + firstLine(r2.Panic.Value)
			}
			m.rep(s, "restored-node-differs", siteClass(d), fmt.Sprintf("restored at %d, block %d: %s", m.rsFrom[i], h, d))
			r.Destroy()
			m.rs[i] = nil
			continue
		}
		m.Res.Count("restored_blocks_compared", 1)
	}
	if !m.p2dead && m.held == nil && m.BackToBack && h%m.Interval == 0 && !m.RebootP2[h] {
		// the second producer executes this block and the next one back to back (as in a replay or fast sync): its snapshot
		// goroutine of height h then competes with the commit of h+1 (lead: added after seed C29-m4; a harness that lets a
		// producer idle after every snapshot height never sees that interleaving)
		m.held = &heldBlock{req: req, res: res}
	} else if !m.p2dead {
		if hb := m.held; hb != nil {
			m.held = nil
			r2 := m.p2.RunBlock(hb.req, nil)
			if d := CompareBlocks(hb.res, r2); d != "" {
				m.p2dead = true
				m.rep(s, "producers-differ", siteClass(d), d)
			}
		}
		if !m.p2dead {
			r2 := m.p2.RunBlock(req, nil)
			if d := CompareBlocks(res, r2); d != "" {
				m.p2dead = true
				m.rep(s, "producers-differ", siteClass(d), d)
			}
		}
		if p := m.pendSnap; p != nil && !m.p2dead {
			m.pendSnap = nil
			m.compareP2(s, p.h, p.s1, p.chunks, p.kind+"/back-to-back")
		}
	}
	if h%m.Interval != 0 {
		if !m.p2dead && m.RebootP2[h] {
			m.p2.App.VerifWaitSnapshots()
			m.p2 = m.p2.RebootSame()
			m.Res.Count("p2_restarts", 1)
		}
		return
	}
	// a snapshot height: wait for the snapshot goroutines
	s1 := waitSnap(s.N, h)
	if s1 == nil {
		m.Res.Inconcl = append(m.Res.Inconcl, fmt.Sprintf("no snapshot listed at height %d", h))
		return
	}
	var chunks [][]byte
	for c := uint32(0); c < s1.Chunks; c++ {
		chunks = append(chunks, s.N.App.LoadSnapshotChunk(abci.RequestLoadSnapshotChunk{Height: s1.Height, Format: s1.Format, Chunk: c}).Chunk)
	}
	if m.held != nil {
		// the second producer has not executed this block yet: its snapshot is compared after the next block
		m.pendSnap = &pendSnap{h: h, s1: s1, chunks: chunks, kind: blockKind(s, req, res)}
	} else if !m.p2dead {
		m.compareP2(s, h, s1, chunks, blockKind(s, req, res))
		if m.RebootP2[h] {
			m.p2 = m.p2.RebootSame()
			m.Res.Count("p2_restarts", 1)
		}
	}
	if !m.RestoreAt[h] {
		return
	}
	// restore into a fresh node
	opts := s.Opts
	opts.AppDir = "" // a second instance never shares the first one's app DB directory
	opts.Dir, opts.Wrap, opts.SnapshotInterval = "", nil, 0
	r := NewNode(opts)
	r.EnableRestoreStore()
	var fail string
	pi := r.guard("Restore", func() {
		off := r.App.OfferSnapshot(abci.RequestOfferSnapshot{Snapshot: s1, AppHash: res.Commit.Data})
		if off.Result != abci.ResponseOfferSnapshot_ACCEPT {
			fail = "offer: " + off.Result.String()
			return
		}
		for c, ch := range chunks {
			ap := r.App.ApplySnapshotChunk(abci.RequestApplySnapshotChunk{Index: uint32(c), Chunk: ch, Sender: "p1"})
			if ap.Result != abci.ResponseApplySnapshotChunk_ACCEPT {
				fail = fmt.Sprintf("apply chunk %d: %s", c, ap.Result.String())
				return
			}
		}
	})
	if pi != nil {
		m.rep(s, "restore-panics", pi.Site, firstLine(pi.Value))
		r.Destroy()
		return
	}
	if fail != "" {
		m.rep(s, "restore-rejected", "abci", fail)
		r.Destroy()
		return
	}
	info, ip := r.Info()
	if ip != nil {
		m.rep(s, "restore-panics", "Info:"+ip.Site, firstLine(ip.Value))
		r.Destroy()
		return
	}
	if info.LastBlockHeight != h || !bytes.Equal(info.LastBlockAppHash, res.Commit.Data) {
		m.rep(s, "restored-info-differs", "Info", fmt.Sprintf("restored (%d,%x) producer (%d,%x)", info.LastBlockHeight, info.LastBlockAppHash, h, res.Commit.Data))
		r.Destroy()
		return
	}
	va, _ := s.N.View(h, 0)
	vb, vp := r.View(h, 0)
	if vp != nil {
		m.rep(s, "restore-panics", "query:"+vp.Site, firstLine(vp.Value))
		r.Destroy()
		return
	}
	vb.Events, va.Events = "", "" // events are not part of a snapshot
	if d := DiffView(va, vb); len(d) > 0 {
		m.rep(s, "restored-query-differs", fieldOf(d[0]), fmt.Sprint(clip(d, 3)))
		r.Destroy()
		return
	}
	if e, err := r.DiskExport(); err != nil {
		m.rep(s, "restore-panics", "disk-export", err.Error())
	} else if d := DiffExports(s.Post, e, 5); len(d) > 0 {
		m.rep(s, "restored-export-differs", pathClass(d[0]), fmt.Sprint(d))
	}
	m.Res.Evaluations++
	m.Res.Seen(fmt.Sprintf("restored/%s", blockKind(s, req, res)))
	m.rs = append(m.rs, r)
	m.rsFrom = append(m.rsFrom, h)
}

type heldBlock struct {
	req *BlockReq
	res *BlockRes
}

type pendSnap struct {
	h      int64
	s1     *abci.Snapshot
	chunks [][]byte
	kind   string
}

// compareP2 compares the second producer's snapshot of height h with the first producer's.
func (m *MonSnapshot) compareP2(s *Sim, h int64, s1 *abci.Snapshot, chunks [][]byte, kind string) {
	s2 := waitSnap(m.p2, h)
	switch {
	case s2 == nil:
		m.Res.Inconcl = append(m.Res.Inconcl, fmt.Sprintf("no snapshot listed on the second producer at height %d", h))
	case !bytes.Equal(s1.Hash, s2.Hash) || s1.Chunks != s2.Chunks || s1.Format != s2.Format || !bytes.Equal(s1.Metadata, s2.Metadata):
		m.rep(s, "snapshot-contents-differ", "metadata", fmt.Sprintf("height %d: hash %x vs %x, chunks %d vs %d", h, s1.Hash, s2.Hash, s1.Chunks, s2.Chunks))
	default:
		for c := uint32(0); c < s1.Chunks; c++ {
			c2 := m.p2.App.LoadSnapshotChunk(abci.RequestLoadSnapshotChunk{Height: s2.Height, Format: s2.Format, Chunk: c}).Chunk
			if !bytes.Equal(c2, chunks[c]) {
				m.rep(s, "snapshot-contents-differ", "chunk", fmt.Sprintf("height %d chunk %d differs (%d vs %d bytes)", h, c, len(chunks[c]), len(c2)))
				break
			}
		}
		m.Res.Evaluations++
		m.Res.Seen(fmt.Sprintf("snapshots compared/%s", kind))
	}
}

func (m *MonSnapshot) Finish(s *Sim) {
	for i, r := range m.rs {
		if r == nil {
			continue
		}
		if s.Post != nil {
			va, _ := s.N.View(s.H, 0)
			vb, vp := r.View(s.H, 0)
			va.Events, vb.Events = "", ""
			if vp != nil {
				m.rep(s, "restore-panics", "final-query:"+vp.Site, firstLine(vp.Value))
			} else if d := DiffView(va, vb); len(d) > 0 {
				m.rep(s, "restored-query-differs", "final:"+fieldOf(d[0]), fmt.Sprintf("restored at %d: %v", m.rsFrom[i], clip(d, 3)))
			}
			var live typesAppState
			if pi := r.guard("Export", func() { live = r.App.CurrentState().Export() }); pi != nil {
				m.rep(s, "restore-panics", "final-export:"+pi.Site, firstLine(pi.Value))
			} else if d := DiffExports(s.Post, &live, 5); len(d) > 0 {
				m.rep(s, "restored-export-differs", "final:"+pathClass(d[0]), fmt.Sprint(d))
			}
			m.Res.Evaluations++
		}
		r.Destroy()
	}
	if m.p2 != nil {
		m.p2.Destroy()
	}
}

func init() {
	Register(&CheckDef{
		ID: "C29", Level: "exploration",
		Rule:        "one case = one generated history with state-sync snapshots every 3-10 blocks on two producers (the second one restarted a few times); per snapshot height the metadata hash and every chunk must be byte-equal between the producers; at 2-3 snapshot heights (a payout height, a period start, a random one) a fresh node is restored through OfferSnapshot/ApplySnapshotChunk, must report the producer's (height, app hash), equal emission/versions/validators/price and export, and then executes all following blocks (payouts, price updates, pruning) with identical responses and app hashes and an equal final export; one evaluation = one snapshot pair compared, one restore compared or one follower compared at the end; distinct = (kind of comparison, kind of block)",
		Assumptions: []string{"snapshot completion is awaited through the hook VerifWaitSnapshots; chunks are transferred unmodified"},
		Quick:       30, Thorough: 300, MinEval: 150, MinDistinct: 6, MaxWorkers: 12,
		Run: func(ctx *WorkCtx, idx int) {
			r := Rng(ctx.Seed, "C29", idx)
			sc := StdScenario(idx, r, 90)
			iv := int64(3 + r.Intn(8))
			sc.Opts.SnapshotInterval = int(iv)
			sc.Opts.SnapshotKeep = 3
			ms := &MonSnapshot{Res: ctx.Res, Interval: iv, RestoreAt: map[int64]bool{}, RebootP2: map[int64]bool{}}
			first := sc.Spec.InitialHeight
			p := int64(sc.Opts.StakePeriod)
			var snaps []int64
			for h := first; h < first+70; h++ {
				if h%iv == 0 {
					snaps = append(snaps, h)
				}
				if r.Intn(15) == 0 {
					ms.RebootP2[h] = true
				}
			}
			if len(snaps) > 0 {
				ms.RestoreAt[snaps[r.Intn(len(snaps))]] = true
				for _, h := range snaps {
					if h%p == 0 || h%p == 1 {
						ms.RestoreAt[h] = true
						break
					}
				}
				ms.RestoreAt[snaps[0]] = true
			}
			grace := idx%9 == 4
			if grace {
				// restore inside the grace period of a voted update (H = first+128), then a validator crosses the absence limit
				// (lead: added after seed C29-m3)
				sc.Blocks = 185
				ms.RestoreAt, ms.RebootP2 = map[int64]bool{}, map[int64]bool{}
				for h := first + 129; h < first+129+2*iv; h++ {
					if h%iv == 0 {
						ms.RestoreAt[h] = true
						break
					}
				}
			}
			if idx%2 == 1 {
				// back-to-back execution on the second producer, on one processor (the snapshot goroutine then starts late)
				ms.BackToBack = true
				defer runtime.GOMAXPROCS(runtime.GOMAXPROCS(1))
				ctx.Res.Seen("second producer executes snapshot block and next block back to back on one processor")
			}
			s, d := sc.Build("C29", ctx.Seed, idx, r, ms)
			d.MaxTxs = 6
			d.PTimeJump = 0.06
			d.G.SetWeight(TxT(0x21), 2)
			if grace {
				graceHistory(ctx, s, d, first, sc.Blocks, first+129+2*iv+2, (idx/9)%3 == 2, r)
			} else {
				d.Run(sc.Blocks)
			}
			ctx.Res.Count("blocks", s.H-s.W.InitialHeight+1)
			ctx.Collect(s, idx)
			s.Finish()
			if s.Dead {
				ms.Finish(s)
			}
		},
	})
}

package h

// HighPrec (DESIGN.md E3): reference arithmetic for x^(a/b) with small integer a, b that shares no code with
// /repo/math (no Log, no Exp, no AGM): a b-th root by Newton iteration on 1024-bit big.Float followed by an
// integer power, an exact big.Int comparison of rational powers to settle floors that the float cannot decide,
// and an exact rational path when the exponent is an integer.  Only math/big and a float64 first guess are used.

import (
	"math"
	"math/big"
)

// HPPrec is the mantissa size of results; intermediate values carry HPGuard more bits.
const (
	HPPrec  = 1024
	HPGuard = 64
)

func hpF() *big.Float { return new(big.Float).SetPrec(HPPrec + HPGuard).SetMode(big.ToNearestEven) }

// HPFromRat returns num/den at working precision.
func HPFromRat(num, den *big.Int) *big.Float {
	n := hpF().SetInt(num)
	d := hpF().SetInt(den)
	return n.Quo(n, d)
}

// HPPowInt returns x^n (n >= 0) by binary exponentiation at the precision of x.
func HPPowInt(x *big.Float, n int) *big.Float {
	res := new(big.Float).SetPrec(x.Prec()).SetInt64(1)
	if n == 0 {
		return res
	}
	base := new(big.Float).SetPrec(x.Prec()).Set(x)
	for {
		if n&1 == 1 {
			res.Mul(res, base)
		}
		n >>= 1
		if n == 0 {
			break
		}
		base.Mul(base, base)
	}
	return res
}

// HPRoot returns the b-th root (b >= 1) of x > 0 with a relative error below 2^-(HPPrec+HPGuard-8).
// Newton: y <- ((b-1)*y + x / y^(b-1)) / b, started from a float64 guess; the working precision doubles per step.
func HPRoot(x *big.Float, b int) *big.Float {
	if x.Sign() <= 0 || b < 1 {
		panic("HPRoot: domain")
	}
	full := uint(HPPrec + HPGuard)
	if b == 1 {
		return new(big.Float).SetPrec(full).Set(x)
	}
	// first guess: x = m * 2^e, e = q*b + rem  =>  root = (m*2^rem)^(1/b) * 2^q
	mant := new(big.Float)
	e := x.MantExp(mant)
	q := e / b
	rem := e - q*b
	if rem < 0 {
		rem += b
		q--
	}
	mf, _ := mant.Float64()
	g := math.Pow(mf*math.Pow(2, float64(rem)), 1/float64(b)) // rem < b <= 100 stays well inside float64
	y := new(big.Float).SetPrec(full).SetFloat64(g)
	y.SetMantExp(y, q)

	bm1 := new(big.Float).SetPrec(full).SetInt64(int64(b - 1))
	bb := new(big.Float).SetPrec(full).SetInt64(int64(b))
	prec := uint(128)
	// relative error of the guess ~2^-50; each step squares it (times (b-1)/2 < 2^6): 50 -> 94 -> 182 -> 358 -> 710 -> 1414
	for it := 0; it < 40; it++ {
		if prec > full {
			prec = full
		}
		yy := new(big.Float).SetPrec(prec).Set(y)
		p := HPPowInt(yy, b-1)
		t := new(big.Float).SetPrec(prec).Quo(new(big.Float).SetPrec(prec).Set(x), p)
		n := new(big.Float).SetPrec(prec).Mul(bm1, yy)
		n.Add(n, t)
		n.Quo(n, bb)
		// step size relative to y
		d := new(big.Float).SetPrec(prec).Sub(n, yy)
		y = n
		if prec == full {
			if d.Sign() == 0 {
				break
			}
			// |d|/|y| <= 2^-(full/2+8)  =>  the next error (~ b/2 * d^2) is below the working precision
			if d.MantExp(nil)-y.MantExp(nil) < -int(full/2+8) {
				// one more step at full precision for certainty, then stop
				yy = new(big.Float).SetPrec(full).Set(y)
				p = HPPowInt(yy, b-1)
				t = new(big.Float).SetPrec(full).Quo(x, p)
				n = new(big.Float).SetPrec(full).Mul(bm1, yy)
				n.Add(n, t)
				y = n.Quo(n, bb)
				break
			}
		}
		prec *= 2
	}
	return y
}

// HPPowRat returns x^(a/b) for x > 0, a >= 0, b >= 1.
func HPPowRat(x *big.Float, a, b int) *big.Float {
	return HPPowInt(HPRoot(x, b), a)
}

// HPCmpPowRat returns the sign of (xn/xd)^(a/b) - tn/td, exactly (all arguments positive, tn may be zero).
func HPCmpPowRat(xn, xd *big.Int, a, b int, tn, td *big.Int) int {
	// (xn/xd)^a  vs  (tn/td)^b   <=>   xn^a * td^b  vs  tn^b * xd^a
	ea, eb := big.NewInt(int64(a)), big.NewInt(int64(b))
	l := new(big.Int).Exp(xn, ea, nil)
	l.Mul(l, new(big.Int).Exp(td, eb, nil))
	r := new(big.Int).Exp(tn, eb, nil)
	r.Mul(r, new(big.Int).Exp(xd, ea, nil))
	return l.Cmp(r)
}

func hpGcd(a, b int) int {
	for b != 0 {
		a, b = b, a%b
	}
	return a
}

// Bancor function ids.
const (
	BPurchaseReturn = iota // supply * ((1 + deposit/reserve)^(crr/100) - 1)
	BPurchaseAmount        // reserve * (((want+supply)/supply)^(100/crr) - 1)
	BSaleReturn            // reserve * (1 - (1 - sell/supply)^(100/crr))
	BSaleAmount            // supply * (1 - ((reserve-want)/reserve)^(crr/100))
)

// BancorNames are the function names used in signatures and keys.
var BancorNames = [4]string{"PurchaseReturn", "PurchaseAmount", "SaleReturn", "SaleAmount"}

// BancorRef is the reference value of one bancor formula.
type BancorRef struct {
	V     *big.Float // the real value to ~1000 bits
	Floor *big.Int   // floor of the real value (proven when Huge is false)
	Scale *big.Int   // supply or reserve: the factor in front of the bracket
	Exact bool       // the real value is an integer (or was computed by the exact rational path)
	Huge  bool       // value >= 2^600: Floor is V truncated (units are irrelevant at that size)
	Path  string     // "rat" (integer exponent, exact), "root" (Newton root), "root+cmp" (floor settled by exact comparison), "zero-base"
}

// HPBancor computes the reference for fn on (supply, reserve, crr, amount). Domain: supply, reserve >= 1, 1 <= crr <= 100,
// amount >= 0, and amount <= supply (SaleReturn) / amount <= reserve (SaleAmount).
func HPBancor(fn int, supply, reserve *big.Int, crr int, amount *big.Int) BancorRef {
	var xn, xd, scale *big.Int
	var a, b int
	purchase := false
	g := hpGcd(crr, 100)
	switch fn {
	case BPurchaseReturn:
		xn, xd, scale = new(big.Int).Add(reserve, amount), reserve, supply
		a, b = crr/g, 100/g
		purchase = true
	case BPurchaseAmount:
		xn, xd, scale = new(big.Int).Add(supply, amount), supply, reserve
		a, b = 100/g, crr/g
		purchase = true
	case BSaleReturn:
		xn, xd, scale = new(big.Int).Sub(supply, amount), supply, reserve
		a, b = 100/g, crr/g
	case BSaleAmount:
		xn, xd, scale = new(big.Int).Sub(reserve, amount), reserve, supply
		a, b = crr/g, 100/g
	default:
		panic("HPBancor: fn")
	}
	if xn.Sign() < 0 || xd.Sign() <= 0 {
		panic("HPBancor: outside the domain")
	}
	if xn.Sign() == 0 { // whole supply sold / whole reserve wanted: 1 - 0^(..) = 1
		return BancorRef{V: hpF().SetInt(scale), Floor: new(big.Int).Set(scale), Scale: scale, Exact: true, Path: "zero-base"}
	}
	if b == 1 {
		// exact: scale * |xn^a - xd^a| / xd^a
		ea := big.NewInt(int64(a))
		pn := new(big.Int).Exp(xn, ea, nil)
		pd := new(big.Int).Exp(xd, ea, nil)
		num := new(big.Int).Sub(pn, pd)
		num.Abs(num)
		num.Mul(num, scale)
		fl, rem := new(big.Int).QuoRem(num, pd, new(big.Int))
		return BancorRef{V: HPFromRat(num, pd), Floor: fl, Scale: scale, Exact: rem.Sign() == 0, Huge: fl.BitLen() > 600, Path: "rat"}
	}
	x := HPFromRat(xn, xd)
	p := HPPowRat(x, a, b)
	one := hpF().SetInt64(1)
	if purchase {
		p.Sub(p, one)
	} else {
		p.Sub(one, p)
	}
	v := p.Mul(p, hpF().SetInt(scale))
	if v.Sign() < 0 { // cannot happen for a correct root; keep the oracle honest
		panic("HPBancor: negative reference")
	}
	ref := BancorRef{V: v, Scale: scale, Path: "root"}
	if v.Sign() > 0 && v.MantExp(nil) > 600 {
		ref.Floor, _ = v.Int(nil)
		ref.Huge = true
		return ref
	}
	fl, _ := v.Int(nil) // truncation toward zero = floor for v >= 0
	// distance to the nearest integer
	frac := hpF().Sub(v, hpF().SetInt(fl))
	up := hpF().Sub(one, frac)
	near := new(big.Int).Set(fl)
	dist := frac
	if up.Cmp(frac) < 0 {
		dist = up
		near.Add(near, big.NewInt(1))
	}
	if dist.Sign() == 0 || dist.MantExp(nil) < -300 {
		// the float cannot decide: is value >= near ?  (exact integer comparison)
		ref.Path = "root+cmp"
		var c int
		if purchase {
			// x^(a/b) >= (scale+near)/scale
			c = HPCmpPowRat(xn, xd, a, b, new(big.Int).Add(scale, near), scale)
		} else {
			// x^(a/b) <= (scale-near)/scale   (near <= scale because the value is <= scale)
			t := new(big.Int).Sub(scale, near)
			if t.Sign() < 0 {
				c = -1 // value < near
			} else {
				c = -HPCmpPowRat(xn, xd, a, b, t, scale)
			}
		}
		if c >= 0 {
			fl = near
			ref.Exact = c == 0
		} else {
			fl = new(big.Int).Sub(near, big.NewInt(1))
		}
	}
	ref.Floor = fl
	return ref
}

package h

import (
	"fmt"
	"math/rand"
	"os"
	"path/filepath"
	"time"

	"github.com/MinterTeam/minter-go-node/coreV2/types"
)

// WorkCtx is the context of one worker.
type WorkCtx struct {
	Prop     string
	Tier     string
	Seed     int64
	VerifDir string
	Res      *WorkerResult
	TmpDir   string // scratch (removed by the parent)
}

// Thorough reports whether this is the thorough tier.
func (c *WorkCtx) Thorough() bool { return c.Tier == "thorough" }

// ReplayPath returns the path for a witness file.
func (c *WorkCtx) ReplayPath(idx int, n int) string {
	dir := filepath.Join(c.VerifDir, "replays")
	_ = os.MkdirAll(dir, 0o755)
	return filepath.Join(dir, fmt.Sprintf("%s-%d-%d-%d.json", c.Prop, c.Seed, idx, n))
}

// Collect stores the violations of a finished sim (with a replay file) into the result.
func (c *WorkCtx) Collect(s *Sim, idx int) {
	if len(s.Viol) == 0 {
		return
	}
	path := c.ReplayPath(idx, 0)
	if err := s.SaveReplay(path); err != nil {
		c.Res.Notes = append(c.Res.Notes, "cannot save replay: "+err.Error())
	}
	for _, v := range s.Viol {
		c.Res.Violations = append(c.Res.Violations, ReportedViol{Violation: v, Replay: path})
	}
}

// TempDir makes a scratch directory for on-disk nodes.
func (c *WorkCtx) TempDir(tag string) string {
	base := c.TmpDir
	if base == "" {
		base = os.Getenv("VERIF_TMP")
	}
	d, err := os.MkdirTemp(base, tag)
	if err != nil {
		panic(err)
	}
	return d
}

// Scenario is a generated setup: genesis family, node options, schedule.
type Scenario struct {
	Family string
	Spec   GenSpec
	Opts   NodeOpts
	Blocks int
	T0     time.Time
}

// StdScenario picks a scenario family by index: mostly "small", regularly the special families.
func StdScenario(idx int, r *rand.Rand, blocks int) Scenario {
	sc := Scenario{Family: "small", Blocks: blocks}
	sc.Spec = GenSpec{Family: "small", ExtraCands: 1 + r.Intn(4), Orders: r.Intn(6), InitialHeight: 1001 + int64(r.Intn(3))*1000}
	sc.Opts = NodeOpts{StakePeriod: uint64([]int{6, 12, 24, 60}[r.Intn(4)]), ExpirePeriod: uint64(20 + r.Intn(100)), KeepLastStates: int64(1 + r.Intn(5))}
	switch idx % 10 {
	case 3:
		sc.Family = "bare" // no USDT pool, initial height 1
		sc.Spec.NoUSDT = true
	case 5:
		sc.Family = "capped"
		sc.Spec.Emission = "9999999500000000000000000000" // just below 10^10 BIP
	case 7:
		sc.Family = "locktime" // LockStake is only available above block 10197360
		sc.Spec.InitialHeight = 10197400 + int64(r.Intn(1000))
	case 8:
		sc.Family = "filler" // contiguous coin ids 1..1993
		sc.Spec.Filler = true
	case 9:
		sc.Family = "crowded"
		sc.Spec.Validators = 8
		sc.Spec.ExtraCands = 91 // 99 candidates: declarations push the set over the 100-candidate limit
		sc.Spec.Users = 20
	}
	return sc
}

// Build creates genesis, world and sim for a scenario.
func (sc *Scenario) Build(prop string, seed int64, idx int, r *rand.Rand, mons ...Monitor) (*Sim, *Driver) {
	gen, w := BuildGenesis(sc.Spec, r)
	if err := gen.Verify(); err != nil {
		panic("harness genesis invalid: " + err.Error())
	}
	w.StakePeriod, w.ExpirePeriod = sc.Opts.StakePeriod, sc.Opts.ExpirePeriod
	if sc.Opts.Dir == "" && sc.Opts.AppDir == "" {
		base := os.Getenv("VERIF_TMP")
		if base == "" {
			base = "/dev/shm"
		}
		if d, err := os.MkdirTemp(base, "app"); err == nil {
			sc.Opts.AppDir = d // app DB on disk (removed by Sim.Finish): restarts then work like real ones
		}
	}
	s := NewSim(prop, seed, idx, gen, w, sc.Opts, r, mons...)
	d := NewDriver(s, r)
	if sc.Family == "locktime" {
		d.G.SetWeight(0x25, 10)
	} else {
		d.G.SetWeight(0x25, 1)
	}
	return s, d
}

// SetChain sets the global chain id (testnet constants give short periods).
func SetChain(testnet bool) {
	if testnet {
		types.CurrentChainID = types.ChainTestnet
	} else {
		types.CurrentChainID = types.ChainMainnet
	}
}

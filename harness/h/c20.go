package h

import (
	"encoding/json"
	"fmt"
	"os"
	"math/big"
	"math/rand"

	tx "github.com/MinterTeam/minter-go-node/coreV2/transaction"
	"github.com/MinterTeam/minter-go-node/coreV2/types"
)

// c20Case is one voted height: which validators vote for which proposal, who is present.
type c20Case struct {
	target  int64
	votes   map[int]int // validator index -> proposal id (1..)
	absent  map[int]bool
}

// stakeVectors returns stake vectors (in pip) for n validators designed to hit the 2/3 boundary.
func stakeVectors(n int, r *rand.Rand) [][]*big.Int {
	k := Bip(2000)
	mul := func(ws ...int64) []*big.Int {
		var out []*big.Int
		for _, w := range ws {
			out = append(out, new(big.Int).Mul(k, big.NewInt(w)))
		}
		return out
	}
	var vs [][]*big.Int
	eq := make([]int64, n)
	for i := range eq {
		eq[i] = 1
	}
	vs = append(vs, mul(eq...))
	switch n {
	case 2:
		vs = append(vs, mul(2, 1), mul(1, 2))
	case 3:
		vs = append(vs, mul(2, 2, 2), mul(4, 1, 1), mul(3, 2, 1), mul(1, 1, 4))
	case 4:
		vs = append(vs, mul(3, 1, 1, 1), mul(2, 2, 1, 1), mul(5, 2, 2, 3))
	case 5:
		vs = append(vs, mul(4, 2, 1, 1, 1), mul(2, 2, 2, 2, 1), mul(6, 3, 1, 1, 1))
	case 6:
		vs = append(vs, mul(2, 2, 2, 1, 1, 1), mul(4, 4, 1, 1, 1, 1), mul(6, 2, 1, 1, 1, 1))
	}
	// one pip / tiny relative perturbations of the first validator around every base vector
	base := len(vs)
	for i := 0; i < base; i++ {
		for _, d := range []int64{1, -1, 3} {
			v := make([]*big.Int, n)
			for j := range v {
				v[j] = new(big.Int).Set(vs[i][j])
			}
			v[0].Add(v[0], big.NewInt(d))
			vs = append(vs, v)
		}
	}
	// random weights
	for i := 0; i < 3; i++ {
		ws := make([]int64, n)
		for j := range ws {
			ws[j] = int64(1 + r.Intn(7))
		}
		vs = append(vs, mul(ws...))
	}
	return vs
}

func init() {
	Register(&CheckDef{
		ID: "C20", Level: "exploration",
		Rule: "small-scope enumeration: genesis with n=1..6 validators whose stakes are chosen so that subsets hold exactly 2/3, 2/3 +- 1 pip and random fractions of the voting power; every subset (all 2^n, plus competing second proposals and absent voters) votes for its own target height with one of the three governance transactions (network update, commission table, halt); the expected decision is computed in exact integers (3*support > 2*present power, largest support wins) from the stakes and the vote/presence sets the driver itself sent, and compared with what the node does at the target height (versions list/UpdateNetworkEvent, commission table in the export, VerifStopped()); votes for past heights and duplicate votes must be rejected; one evaluation = one voted height decided; distinct = (kind, n, relation of support to 2/3, competing?, absentees?)",
		Assumptions: []string{"validator stakes are pure base-coin stakes fixed for the whole history (no payout inside it)", "an accepted halt only sets the stopped flag here (stub node); os.Exit is not exercised"},
		Quick: 36, Thorough: 360, MinEval: 300, MinDistinct: 12,
		Run: runC20,
	})
}

func runC20(ctx *WorkCtx, idx int) {
	r := Rng(ctx.Seed, "C20", idx)
	n := 1 + idx%6
	kind := []string{"update", "commission", "halt"}[(idx/6)%3]
	vecs := stakeVectors(n, r)
	vec := vecs[(idx/18)%len(vecs)]
	if ctx.Thorough() || idx >= 18 {
		vec = vecs[r.Intn(len(vecs))]
	}
	spec := GenSpec{Family: "c20", Validators: n, ExtraCands: 0, InitialHeight: 5001, Users: 12}
	gen, w := BuildGenesis(spec, r)
	total := new(big.Int)
	for i := 0; i < n; i++ {
		c := &gen.Candidates[i]
		c.Stakes = []types.Stake{{Owner: c.OwnerAddress, Coin: 0, Value: vec[i].String(), BipValue: vec[i].String()}}
		c.Updates = nil
		c.TotalBipStake = vec[i].String()
		c.Status = 2
		gen.Validators[i].TotalBipStake = vec[i].String()
		total.Add(total, vec[i])
	}
	// custom-coin stakes would have been part of the volume: recompute volumes of the coins we removed stakes of
	fixVolumes(gen)
	if err := gen.Verify(); err != nil {
		panic("c20 genesis: " + err.Error())
	}
	opts := NodeOpts{StakePeriod: 100000, KeepLastStates: 2}
	if d, err := os.MkdirTemp(os.Getenv("VERIF_TMP"), "app"); err == nil {
		opts.AppDir = d // app DB on disk so that Sim.Restart() is a real restart (removed by Finish)
	}
	s := NewSim("C20", ctx.Seed, idx, gen, w, opts, r)
	defer s.Finish()
	if s.Dead {
		ctx.Collect(s, idx)
		return
	}
	// plan: every subset gets its own target height; effective halts end the history, so they come last
	type plan struct {
		c    c20Case
		supp []*big.Int // support per proposal
	}
	first := int64(5001)
	var cases []c20Case
	subsets := 1 << uint(n)
	tgt := first + 6
	for m := 1; m < subsets; m++ {
		c := c20Case{target: tgt, votes: map[int]int{}, absent: map[int]bool{}}
		for i := 0; i < n; i++ {
			if m&(1<<uint(i)) != 0 {
				c.votes[i] = 1
			} else if r.Intn(4) == 0 {
				c.votes[i] = 2 // competing proposal
			}
		}
		if n > 2 && r.Intn(4) == 0 {
			c.absent[r.Intn(n)] = true
		}
		cases = append(cases, c)
		tgt += 2
	}
	r.Shuffle(len(cases), func(i, j int) { cases[i], cases[j] = cases[j], cases[i] })
	// reassign ascending targets after the shuffle
	tgt = first + 6
	for i := range cases {
		cases[i].target = tgt
		tgt += 2
	}
	decide := func(c *c20Case) (winner int, effective bool, cls string) {
		present := new(big.Int)
		sup := map[int]*big.Int{1: new(big.Int), 2: new(big.Int)}
		for i := 0; i < n; i++ {
			if c.absent[i] {
				continue
			}
			present.Add(present, vec[i])
			if p, ok := c.votes[i]; ok {
				sup[p].Add(sup[p], vec[i])
			}
		}
		winner = 1
		if sup[2].Cmp(sup[1]) > 0 {
			winner = 2
		}
		l := new(big.Int).Mul(sup[winner], big.NewInt(3))
		rr := new(big.Int).Mul(present, big.NewInt(2))
		effective = l.Cmp(rr) > 0
		switch {
		case l.Cmp(rr) == 0:
			cls = "exactly-2/3"
		case new(big.Int).Abs(new(big.Int).Sub(l, rr)).Cmp(big.NewInt(20)) < 0:
			cls = "within-pips-of-2/3"
			if effective {
				cls += "-above"
			} else {
				cls += "-below"
			}
		case effective:
			cls = "above"
		default:
			cls = "below"
		}
		if sup[1].Sign() > 0 && sup[2].Sign() > 0 {
			cls += "/competing"
			if sup[1].Cmp(sup[2]) == 0 {
				cls += "-tied"
			}
		}
		if len(c.absent) > 0 {
			cls += "/absentees"
		}
		return
	}
	type lazyTx func() []byte
	mk := func(owner *Key, t tx.TxType, data interface{}) lazyTx {
		return func() []byte {
			// nonce read when the slot comes up: rejected votes do not consume one
			nn := s.N.App.CurrentState().Accounts().GetNonce(owner.Addr) + 1
			sp := &TxSpec{Nonce: nn, ChainID: types.CurrentChainID, GasPrice: 1, GasCoin: 0, Type: t, Data: data, Signer: owner}
			return sp.Encode()
		}
	}
	g := &TxGen{S: s, R: r}
	versions := []string{"v310", "v320", "v330", "v300"}
	voteTx := func(c *c20Case, i int, prop int) lazyTx {
		pub := gen.Candidates[i].PubKey
		owner := w.ValOwner[pub]
		switch kind {
		case "update":
			return mk(owner, tx.TypeVoteUpdate, tx.VoteUpdateDataV230{Version: versions[(int(c.target)+prop)%4], PubKey: pub, Height: uint64(c.target)})
		case "commission":
			return mk(owner, tx.TypeVoteCommission, g.commissionVote(pub, uint64(c.target), 0, int64(2+2*(c.target-5001)+int64(prop))))
		default:
			return mk(owner, tx.TypeSetHaltBlock, tx.SetHaltBlockData{PubKey: pub, Height: uint64(c.target)})
		}
	}
	byTarget := map[int64]*c20Case{}
	for i := range cases {
		byTarget[cases[i].target] = &cases[i]
	}
	last := cases[len(cases)-1].target
	verCount := len(s.N.App.UpdateVersions())
	comm, _ := json.Marshal(s.Post.Commission)
	for h := first; h <= last+1 && !s.Dead && !s.Stopped; h++ {
		if r.Intn(10) == 0 {
			s.Restart() // pending votes must survive a restart, duplicates must still be refused (lead: added after seed C20-m2)
		}
		req := &BlockReq{Height: h, Time: s.T.Add(s.Step)}
		c := byTarget[h]
		req.Votes = s.VotesFor(h, func(pk types.Pubkey) bool {
			if c == nil {
				return false
			}
			for i := 0; i < n; i++ {
				if gen.Candidates[i].PubKey == pk && c.absent[i] {
					return true
				}
			}
			return false
		})
		// votes for the case whose target is 3 blocks ahead are sent now
		var metas []TxMeta
		var lazies []lazyTx
		var lateDup *c20Case
		var expectReject []bool
		type vref struct {
			c *c20Case
			i int
		}
		var refs []*vref
		for _, ahead := range []int64{1, 2} {
			if vc2 := byTarget[h+ahead]; vc2 != nil && lateDup == nil && r.Intn(2) == 0 {
				lateDup = vc2
			}
		}
		if vc := byTarget[h+3]; vc != nil {
			for i := 0; i < n; i++ {
				if p, ok := vc.votes[i]; ok {
					if kind == "halt" && p == 2 {
						continue // a halt has no competing proposal
					}
					lazies = append(lazies, voteTx(vc, i, p))
					metas = append(metas, TxMeta{Type: 0x21, Kind: "vote"})
					expectReject = append(expectReject, false)
					refs = append(refs, &vref{vc, i})
					if r.Intn(5) == 0 { // duplicate vote of the same candidate for the same height
						lazies = append(lazies, voteTx(vc, i, p))
						metas = append(metas, TxMeta{Type: 0x21, Kind: "duplicate-vote"})
						expectReject = append(expectReject, true)
						refs = append(refs, nil)
					}
				}
			}
			if r.Intn(3) == 0 { // a vote for a past height
				past := c20Case{target: h - 1 - int64(r.Intn(3))}
				lazies = append(lazies, voteTx(&past, r.Intn(n), 1))
				metas = append(metas, TxMeta{Type: 0x21, Kind: "past-vote"})
				expectReject = append(expectReject, true)
				refs = append(refs, nil)
			}
		}
		if lateDup != nil {
			for i, p := range lateDup.votes {
				if kind == "halt" && p == 2 {
					continue
				}
				lazies = append(lazies, voteTx(lateDup, i, p))
				metas = append(metas, TxMeta{Type: 0x21, Kind: "duplicate-vote-in-a-later-block"})
				expectReject = append(expectReject, true)
				refs = append(refs, nil)
				break
			}
		}
		res := s.RunBlock(req, nil, func(i int) ([]byte, TxMeta, bool) {
			if i >= len(lazies) {
				return nil, TxMeta{}, false
			}
			return lazies[i](), metas[i], true
		})
		if res == nil || res.Panic != nil {
			break
		}
		for i, d := range res.Deliver {
			if i < len(expectReject) {
				if expectReject[i] && d.Code == 0 {
					s.Report(Violation{Property: "C20", Rule: "invalid-vote-accepted", Site: kind + "/" + metas[i].Kind, Height: h, TxIndex: i, Detail: "vote accepted"})
				}
				if !expectReject[i] && d.Code != 0 {
					ctx.Res.Count("valid_vote_rejected/"+fmt.Sprint(d.Code), 1)
					if refs[i] != nil {
						delete(refs[i].c.votes, refs[i].i) // a rejected vote is no vote
					}
				}
				ctx.Res.Seen(fmt.Sprintf("vote tx %s/%s code %d", kind, metas[i].Kind, d.Code))
			}
		}
		if c == nil {
			if res.Stopped {
				s.Report(Violation{Property: "C20", Rule: "halt-without-vote", Site: kind, Height: h, TxIndex: -1, Detail: "node stopped at a height nobody voted for"})
			}
			continue
		}
		// decide and compare
		winner, eff, cls := decide(c)
		if kind == "halt" {
			// only proposal 1 exists
			sup1 := *c
			sup1.votes = map[int]int{}
			for i, p := range c.votes {
				if p == 1 {
					sup1.votes[i] = 1
				}
			}
			winner, eff, cls = decide(&sup1)
		}
		_ = winner
		var got bool
		switch kind {
		case "halt":
			got = res.Stopped
		case "update":
			vs := s.N.App.UpdateVersions()
			got = len(vs) > verCount
			if got {
				lastV := vs[len(vs)-1]
				want := versions[(int(c.target)+winner)%4]
				if lastV.Name != want || lastV.Height != uint64(h) {
					s.Report(Violation{Property: "C20", Rule: "wrong-proposal-won", Site: kind, Height: h, TxIndex: -1, Detail: fmt.Sprintf("version %s@%d adopted, expected %s@%d", lastV.Name, lastV.Height, want, h)})
				}
			}
			verCount = len(vs)
		case "commission":
			cur, _ := json.Marshal(s.Post.Commission)
			got = string(cur) != string(comm)
			if got {
				want := new(big.Int).Mul(BI(DefaultCommission().Send), big.NewInt(2+2*(c.target-5001)+int64(winner)))
				if s.Post.Commission.Send != want.String() {
					s.Report(Violation{Property: "C20", Rule: "wrong-proposal-won", Site: kind, Height: h, TxIndex: -1, Detail: fmt.Sprintf("send price %s, expected %s", s.Post.Commission.Send, want)})
				}
			}
			comm = cur
		}
		ctx.Res.Evaluations++
		ctx.Res.Seen(fmt.Sprintf("%s n=%d %s", kind, n, cls))
		if got != eff {
			rule := "took-effect-without-two-thirds"
			if eff {
				rule = "did-not-take-effect-with-two-thirds"
			}
			s.Report(Violation{Property: "C20", Rule: rule, Site: kind + "/" + cls, Height: h, TxIndex: -1,
				Detail: fmt.Sprintf("n=%d stakes=%v votes=%v absent=%v", n, vec, c.votes, c.absent)})
		}
		if kind == "commission" && got {
			// the new table multiplies the prices; keep paying validators able: nothing to do (balances are large)
		}
	}
	ctx.Res.Count("blocks", s.H-first+1)
	ctx.Collect(s, idx)
}

// fixVolumes recomputes custom coin volumes from the holdings of a (modified) genesis.
func fixVolumes(gen *types.AppState) {
	w := ComputeWealth(gen)
	for i := range gen.Coins {
		v := w.PerCoin[gen.Coins[i].ID]
		if v == nil {
			v = new(big.Int)
		}
		gen.Coins[i].Volume = v.String()
	}
}

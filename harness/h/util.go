package h

import (
	"hash"

	"golang.org/x/crypto/sha3"
)

func newKeccak() hash.Hash { return sha3.NewLegacyKeccak256() }

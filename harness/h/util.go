package h

import (
	abci "github.com/tendermint/tendermint/abci/types"
	"github.com/MinterTeam/minter-go-node/coreV2/types"
	"hash"

	"golang.org/x/crypto/sha3"
)

func newKeccak() hash.Hash { return sha3.NewLegacyKeccak256() }

type typesAppState = types.AppState

var abciInfoReq = abci.RequestInfo{}

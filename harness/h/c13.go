package h

// C13 (package level): swap pools never lose value to traders.
//
// The real coreV2/state/swap package is driven through a bare state.State on a memdb.  Every
// PairCreate / PairMint / PairBurn / PairSellWithOrders / PairBuyWithOrders is bracketed by
// Reserves() snapshots and judged with big-integer arithmetic written here (no call of the code
// under test is used as its own oracle; the Calculate*/Check* functions are only used as the
// *pre-checks* the transaction layer uses to decide whether a call may be issued at all).

import (
	"encoding/json"
	"fmt"
	"io"
	"log"
	"math/big"
	"math/rand"
	"os"
	"runtime"
	"runtime/debug"
	"strings"
	"time"

	"github.com/MinterTeam/minter-go-node/coreV2/events"
	"github.com/MinterTeam/minter-go-node/coreV2/state"
	"github.com/MinterTeam/minter-go-node/coreV2/state/swap"
	"github.com/MinterTeam/minter-go-node/coreV2/transaction"
	"github.com/MinterTeam/minter-go-node/coreV2/types"
	"github.com/MinterTeam/minter-go-node/rlp"
	dbm "github.com/tendermint/tm-db"
)

// ---------------------------------------------------------------------------------------------
// shared helpers for the package-level swap checks (C13, C14)
// ---------------------------------------------------------------------------------------------

// capEvents is an events DB that just records what the state emits.
type capEvents struct{ evs []events.Event }

func (e *capEvents) AddEvent(ev events.Event)        { e.evs = append(e.evs, ev) }
func (e *capEvents) LoadEvents(uint32) events.Events { return nil }
func (e *capEvents) CommitEvents(uint32) error       { return nil }
func (e *capEvents) Close() error                    { return nil }
func (e *capEvents) take() (out []events.Event)      { out, e.evs = e.evs, nil; return }

// bareState is a state.State (V3 = SwapV2) on a memdb that can be committed and re-opened from disk.
type bareState struct {
	DB  *dbm.MemDB
	Ev  *capEvents
	St  *state.State
	Ver int64
}

func newBareState() *bareState {
	b := &bareState{DB: dbm.NewMemDB(), Ev: &capEvents{}}
	st, err := state.NewStateV3(0, b.DB, b.Ev, 2048, 1, 0)
	if err != nil {
		panic("harness: cannot create bare state: " + err.Error())
	}
	b.St = st
	return b
}

// Commit writes the state to the db (one "block").
func (b *bareState) Commit() {
	if _, err := b.St.Commit(); err != nil {
		panic("harness: commit failed: " + err.Error())
	}
	b.Ver = b.St.Tree().Version()
}

// Reload drops every in-memory cache: a fresh state is opened on the db at the last committed version.
func (b *bareState) Reload() {
	st, err := state.NewStateV3(uint64(b.Ver), b.DB, b.Ev, 2048, 1, 0)
	if err != nil {
		panic("harness: reload failed: " + err.Error())
	}
	b.St = st
}

var swapBurnAddress = types.HexToAddress("Mx00cedde786b34d733d1dc96559253081572df2c6")

var (
	big0       = big.NewInt(0)
	big1       = big.NewInt(1)
	bigMinVol  = big.NewInt(1e10)
	bigMaxCoin = BI("1000000000000000000000000000000000") // 10^15 BIP = maxCoinSupply of the transaction layer
)

func pow10(e int) *big.Int { return new(big.Int).Exp(big.NewInt(10), big.NewInt(int64(e)), nil) }

func bcopy(x *big.Int) *big.Int {
	if x == nil {
		return nil
	}
	return new(big.Int).Set(x)
}

func bstr(x *big.Int) string {
	if x == nil {
		return "<nil>"
	}
	return x.String()
}

// hangLimit: a single call of the swap package normally takes micro- to milliseconds; one that has not returned
// after this long is reported as a hang (rule "hang") and the case is abandoned.
var hangLimit = 25 * time.Second

const hangMarker = "HANG: call did not return"

// guarded runs f (in its own goroutine, so that an endless loop in the code under test cannot block the worker) and
// returns the recovered panic value (nil if none) and the top frames of its stack.
func guarded(f func()) (pv interface{}, site string) {
	type res struct {
		pv   interface{}
		site string
	}
	ch := make(chan res, 1)
	gid := make(chan string, 1)
	go func() {
		var r res
		var hdr [40]byte
		gid <- string(hdr[:runtime.Stack(hdr[:], false)]) // "goroutine N [running]:..."
		defer func() {
			if x := recover(); x != nil {
				r.pv = x
				r.site = panicSite(string(debug.Stack()))
			}
			ch <- r
		}()
		f()
	}()
	t := time.NewTimer(hangLimit)
	defer t.Stop()
	select {
	case r := <-ch:
		return r.pv, r.site
	case <-t.C:
		buf := make([]byte, 1<<20)
		buf = buf[:runtime.Stack(buf, true)]
		id := <-gid
		if i := strings.Index(id, " ["); i > 0 {
			id = id[:i+2]
		}
		return fmt.Sprintf("%s within %s", hangMarker, hangLimit), hangSite(string(buf), id)
	}
}

// hangSite finds the goroutine stuck below guarded() in a dump of all goroutines and names its innermost repo frames.
func hangSite(dump, gid string) string {
	for _, g := range strings.Split(dump, "\n\n") {
		if !strings.HasPrefix(g, gid) || !strings.Contains(g, "h.guarded.func1") {
			continue
		}
		var fr []string
		for _, l := range strings.Split(g, "\n") {
			if strings.HasPrefix(l, "\t") {
				continue
			}
			if i := strings.Index(l, "minter-go-node/"); i >= 0 {
				f := l[i+len("minter-go-node/"):]
				if j := strings.LastIndex(f, "("); j > 0 {
					f = f[:j]
				}
				fr = append(fr, f)
			}
		}
		if len(fr) == 0 {
			continue
		}
		// innermost frames first in the dump; keep the outermost two repo frames (stable entry points)
		if len(fr) > 2 {
			fr = fr[len(fr)-2:]
		}
		return strings.Join(fr, "<-")
	}
	return "?"
}

// panicSite extracts the first frames inside minter-go-node below the panic from a stack dump.
func panicSite(stack string) string {
	lines := strings.Split(stack, "\n")
	var fr []string
	seenPanic := false
	for _, l := range lines {
		if strings.HasPrefix(l, "panic(") {
			seenPanic = true
			continue
		}
		if !seenPanic || strings.HasPrefix(l, "\t") {
			continue
		}
		if i := strings.Index(l, "minter-go-node/"); i >= 0 {
			f := l[i+len("minter-go-node/"):]
			if j := strings.LastIndex(f, "("); j > 0 {
				f = f[:j]
			}
			fr = append(fr, f)
			if len(fr) == 2 {
				break
			}
		}
	}
	if len(fr) == 0 {
		return "?"
	}
	return strings.Join(fr, "<-")
}

// opLog is the replayable trace of one package-level case (written as the witness of a violation).
type opLog struct {
	Prop string        `json:"property"`
	Seed int64         `json:"seed"`
	Idx  int           `json:"idx"`
	Ops  []interface{} `json:"ops"`
}

func (l *opLog) add(kind string, kv ...interface{}) {
	m := map[string]interface{}{"op": kind, "n": len(l.Ops)}
	for i := 0; i+1 < len(kv); i += 2 {
		k := kv[i].(string)
		switch v := kv[i+1].(type) {
		case *big.Int:
			m[k] = bstr(v)
		default:
			m[k] = v
		}
	}
	l.Ops = append(l.Ops, m)
	if traceOps {
		bz, _ := json.Marshal(m)
		fmt.Fprintln(os.Stderr, "op", string(bz))
	}
}

var traceOps = os.Getenv("VERIF_TRACE_OPS") != ""

// pkgViol reports a violation of a package-level check with the op trace as witness file.
func pkgViol(ctx *WorkCtx, l *opLog, nviol *int, rule, site, detail string) {
	if strings.Contains(detail, hangMarker) {
		rule = "hang"
	}
	path := ctx.ReplayPath(l.Idx, *nviol)
	*nviol++
	if *nviol <= 3 { // the trace is the same for all of them: keep a few files only
		w := map[string]interface{}{"property": l.Prop, "seed": l.Seed, "idx": l.Idx, "rule": rule, "site": site, "detail": detail,
			"how_to_replay": fmt.Sprintf("VERIF_SEED=%d vchk worker %s %d %d /tmp/out.json (deterministic in seed, idx)", l.Seed, l.Prop, l.Idx, l.Idx+1), "ops": l.Ops}
		bz, _ := json.MarshalIndent(w, "", " ")
		_ = os.WriteFile(path, bz, 0o644)
	} else {
		path = ctx.ReplayPath(l.Idx, 0)
	}
	if len(detail) > 900 {
		detail = detail[:900] + "..."
	}
	ctx.Res.Violations = append(ctx.Res.Violations, ReportedViol{Violation: Violation{Property: l.Prop, Rule: rule, Site: site, Detail: detail, TxIndex: -1}, Replay: path})
}

// magBucket classifies a magnitude.
func magBucket(x *big.Int) string {
	n := len(x.String())
	switch {
	case x.Sign() <= 0:
		return "zero"
	case n <= 6:
		return "tiny"
	case n <= 15:
		return "small"
	case n <= 24:
		return "mid"
	default:
		return "big"
	}
}

// ---------------------------------------------------------------------------------------------
// C13
// ---------------------------------------------------------------------------------------------

type c13Pool struct {
	c0, c1   types.CoinID // as created (not necessarily sorted)
	supply   *big.Int     // LP supply tracked by the harness: sqrt at create + minted - burned
	holders  []*big.Int   // LP balances of 3 holders (holder 0 = creator, credited supply-1000 like the tx layer)
	orderIDs []uint32
	height   uint64
}

type c13 struct {
	ctx    *WorkCtx
	r      *rand.Rand
	b      *bareState
	log    *opLog
	nviol  int
	owners []types.Address
}

func (c *c13) sw() *swap.SwapV2 { return c.b.St.SwapV2 }

func (c *c13) viol(rule, site, format string, a ...interface{}) {
	d := fmt.Sprintf(format, a...)
	pkgViol(c.ctx, c.log, &c.nviol, rule, site, d)
	if strings.Contains(d, hangMarker) {
		c.nviol += 100 // the pair's lock is held by the call that never returned: abandon the case
	}
}

func init() {
	Register(&CheckDef{
		ID: "C13", Level: "exploration",
		Rule: "package level: a bare state.State(SwapV2) on memdb; per case several pools (reserves 1..10^33: tiny, lopsided 1:10^30, log-uniform, near max supply) each driven by ~150 random ops: sell/buy takers in both directions (sizes tiny..10x reserve, exact-to-order-price +-1), add/cancel limit orders around the pool price, mint, burn, mint-then-burn by 3 holders, commits and reloads from disk, plus one CreateSwapPool transaction run per case; every call is issued only if the transaction layer's pre-check passes; one evaluation = one executed pool operation judged from Reserves() before/after (product, non-negative reserves, conservation of both coins, burn <= floor(share), mint-then-burn <= paid, create = isqrt and 1000 locked); distinct = op kind x with/without order fills x magnitude bucket of the smaller reserve x lopsided",
		Assumptions: []string{
			"calls that the transaction layer's pre-checks (CalculateBuyForSellWithOrders>=1, CalculateSellForBuyWithOrders!=nil and <=10^33, CheckMint, CheckBurn, CheckCreate) reject are not issued (the swap package panics on them by design)",
			"LP supply and holder balances are tracked by the harness exactly as add/remove liquidity transactions pass them (coinLiquidity.Volume())",
			"multi-hop routes, commission swaps and failed-tx fees are covered by the node-level part, not here",
		},
		Quick: 300, Thorough: 3000, MinEval: 50000, MinDistinct: 60,
		Run: runC13,
	})
}

func runC13(ctx *WorkCtx, idx int) {
	log.SetOutput(io.Discard)
	r := Rng(ctx.Seed, "C13", idx)
	c := &c13{ctx: ctx, r: r, b: newBareState(), log: &opLog{Prop: "C13", Seed: ctx.Seed, Idx: idx}}
	for i := 0; i < 4; i++ {
		c.owners = append(c.owners, NewKey("c13-owner", i).Addr)
	}
	c.txCreate(idx)
	nPools := 4 + r.Intn(5)
	coin := types.CoinID(10)
	for p := 0; p < nPools; p++ {
		coin += 2
		c.pool(coin, coin+1, 1000/nPools)
		if c.nviol > 20 {
			break
		}
	}
	ctx.Res.Count("cases", 1)
}

// genReserves draws creation amounts of one of the reserve families.
func (c *c13) genReserves() (a0, a1 *big.Int, fam string) {
	r := c.r
	switch r.Intn(10) {
	case 0: // tiny, just above the minimum liquidity
		a0 = big.NewInt(int64(1001 + r.Intn(3000)))
		a1 = big.NewInt(int64(1001 + r.Intn(3000)))
		fam = "tiny"
	case 1, 2: // lopsided 1 : 10^30 (either way)
		a0 = big.NewInt(int64(1 + r.Intn(9)))
		a1 = new(big.Int).Mul(RandLog(r, 3), pow10(27+r.Intn(4)))
		fam = "lopsided"
		if r.Intn(2) == 0 {
			a0, a1 = a1, a0
		}
	case 3: // near the maximum supply
		a0 = new(big.Int).Sub(bigMaxCoin, RandLog(r, 30))
		a1 = RandLog(r, 33)
		fam = "max"
		if r.Intn(2) == 0 {
			a0, a1 = a1, a0
		}
	case 4, 5: // typical: 10^18..10^27 both
		a0 = new(big.Int).Mul(RandLog(r, 9), pow10(18))
		a1 = new(big.Int).Mul(RandLog(r, 9), pow10(18))
		fam = "typical"
	case 6: // small but order-capable
		a0 = new(big.Int).Mul(RandLog(r, 6), pow10(10))
		a1 = new(big.Int).Mul(RandLog(r, 6), pow10(10))
		fam = "small"
	default:
		a0 = RandLog(r, 33)
		a1 = RandLog(r, 33)
		fam = "loguniform"
	}
	return
}

func (c *c13) reserves(a, b types.CoinID) (*big.Int, *big.Int) {
	r0, r1, _ := c.sw().SwapPool(a, b)
	return r0, r1
}

func (c *c13) class(op string, fills int, hasBook bool, r0, r1 *big.Int) {
	lo, hi := r0, r1
	if lo.Cmp(hi) > 0 {
		lo, hi = hi, lo
	}
	k := op
	switch {
	case fills > 0:
		k += "/fills"
	case hasBook:
		k += "/book-nofill"
	default:
		k += "/nobook"
	}
	k += "/" + magBucket(lo)
	if lo.Sign() > 0 && len(hi.String())-len(lo.String()) >= 15 {
		k += "/lopsided"
	}
	c.ctx.Res.Seen(k)
}

// isqrtOK reports whether l = floor(sqrt(n)) by definition.
func isqrtOK(l, n *big.Int) bool {
	if l.Sign() < 0 {
		return false
	}
	l2 := new(big.Int).Mul(l, l)
	l1 := new(big.Int).Add(l, big1)
	return l2.Cmp(n) <= 0 && new(big.Int).Mul(l1, l1).Cmp(n) > 0
}

func (c *c13) pool(c0, c1 types.CoinID, nOps int) {
	r := c.r
	if r.Intn(2) == 0 {
		c0, c1 = c1, c0
	}
	a0, a1, fam := c.genReserves()
	sw := c.sw()
	// ---- create
	var errCheck error
	if pv, site := guarded(func() { errCheck = sw.ReturnPair(c0, c1).CheckCreate(a0, a1) }); pv != nil {
		c.viol("panic", "precheck/CheckCreate:"+site, "CheckCreate(%s,%s) panicked: %v", a0, a1, pv)
		return
	}
	c.log.add("create", "c0", uint32(c0), "c1", uint32(c1), "a0", a0, "a1", a1, "fam", fam, "precheck", fmt.Sprint(errCheck))
	if errCheck != nil {
		c.ctx.Res.Count("create-rejected", 1)
		return
	}
	var b0, b1, liq *big.Int
	if pv, site := guarded(func() { b0, b1, liq, _ = sw.PairCreate(c0, c1, bcopy(a0), bcopy(a1)) }); pv != nil {
		c.viol("panic-after-precheck", "PairCreate:"+site, "PairCreate(%s,%s) panicked after CheckCreate passed: %v", a0, a1, pv)
		return
	}
	c.ctx.Res.Evaluations++
	r0, r1 := c.reserves(c0, c1)
	if r0.Cmp(a0) != 0 || r1.Cmp(a1) != 0 || b0.Cmp(a0) != 0 || b1.Cmp(a1) != 0 {
		c.viol("create-reserves", "PairCreate", "created with %s,%s: reserves %s,%s returned %s,%s", a0, a1, r0, r1, b0, b1)
	}
	if !isqrtOK(liq, new(big.Int).Mul(a0, a1)) {
		c.viol("create-liquidity", "PairCreate", "liquidity %s is not floor(sqrt(%s*%s))", liq, a0, a1)
	}
	if liq.Cmp(big.NewInt(1000)) <= 0 {
		c.viol("create-liquidity", "PairCreate", "liquidity %s does not exceed the locked minimum", liq)
		return
	}
	c.class("create/"+fam, 0, false, r0, r1)
	p := &c13Pool{c0: c0, c1: c1, supply: bcopy(liq), holders: []*big.Int{new(big.Int).Sub(liq, big.NewInt(1000)), new(big.Int), new(big.Int)}, height: 1}
	// ---- operations
	for i := 0; i < nOps && c.nviol <= 20; i++ {
		switch k := r.Intn(100); {
		case k < 38:
			c.trade(p, true)
		case k < 62:
			c.trade(p, false)
		case k < 74:
			c.addOrder(p)
		case k < 77:
			c.cancelOrder(p)
		case k < 88:
			c.mint(p)
		case k < 95:
			c.burn(p)
		default:
			c.log.add("commit")
			if pv, site := guarded(func() { c.b.Commit() }); pv != nil {
				c.viol("panic", "Commit:"+site, "state.Commit after the operations above: %v", pv)
				c.nviol += 100
				return
			}
			p.height++
			if r.Intn(3) == 0 {
				c.log.add("reload")
				if pv, site := guarded(func() { c.b.Reload() }); pv != nil {
					c.viol("panic", "Reload:"+site, "re-opening the state from disk: %v", pv)
					c.nviol += 100
					return
				}
				c.ctx.Res.Count("reloads", 1)
			}
		}
	}
}

// addOrder places a limit order that the transaction layer would accept (price within [pool/5, pool]).
func (c *c13) addOrder(p *c13Pool) {
	r := c.r
	buyCoin, sellCoin := p.c0, p.c1
	if r.Intn(2) == 0 {
		buyCoin, sellCoin = sellCoin, buyCoin
	}
	rb, rs := c.reserves(buyCoin, sellCoin) // pool price for the taker = rs/rb
	if rb.Sign() <= 0 || rs.Sign() <= 0 {
		return
	}
	// wantBuy log-uniform from the minimum up to ~reserve; wantSell = wantBuy * price * f, f in [0.2,1]
	wb := new(big.Int).Add(bigMinVol, RandLog(r, 8+r.Intn(20)))
	if r.Intn(3) == 0 { // relative to the reserve so that fills move the pool noticeably
		wb = new(big.Int).Add(bigMinVol, RandBig(r, new(big.Int).Add(rb, big1)))
	}
	f := int64(200 + r.Intn(801))
	if r.Intn(4) == 0 {
		f = 1000 // exactly the pool price
	}
	ws := new(big.Int).Mul(wb, rs)
	ws.Mul(ws, big.NewInt(f))
	ws.Div(ws, new(big.Int).Mul(rb, big.NewInt(1000)))
	if ws.Cmp(bigMinVol) < 0 || ws.Cmp(bigMaxCoin) > 0 || wb.Cmp(bigMaxCoin) > 0 {
		c.ctx.Res.Count("order-not-possible", 1)
		return
	}
	// acceptance rule of add_order.go: pool/5 <= ws/wb <= pool  (pool = rs/rb)
	lhs := new(big.Int).Mul(ws, rb)
	rhs := new(big.Int).Mul(wb, rs)
	if lhs.Cmp(rhs) > 0 || new(big.Int).Mul(lhs, big.NewInt(5)).Cmp(rhs) < 0 {
		c.ctx.Res.Count("order-rejected", 1)
		return
	}
	owner := c.owners[r.Intn(len(c.owners))]
	var id uint32
	if pv, site := guarded(func() { id, _ = c.sw().PairAddOrder(buyCoin, sellCoin, bcopy(wb), bcopy(ws), owner, p.height) }); pv != nil {
		c.viol("panic-after-precheck", "PairAddOrder:"+site, "PairAddOrder(buy %s of %d, sell %s of %d) panicked: %v", wb, buyCoin, ws, sellCoin, pv)
		return
	}
	c.log.add("add-order", "id", id, "buyCoin", uint32(buyCoin), "sellCoin", uint32(sellCoin), "wantBuy", wb, "wantSell", ws)
	p.orderIDs = append(p.orderIDs, id)
	c.ctx.Res.Count("orders-added", 1)
	// an order does not touch the reserves
	nb, ns := c.reserves(buyCoin, sellCoin)
	if nb.Cmp(rb) != 0 || ns.Cmp(rs) != 0 {
		c.viol("order-touches-reserves", "PairAddOrder", "reserves %s,%s -> %s,%s after adding order %d", rb, rs, nb, ns, id)
	}
}

func (c *c13) cancelOrder(p *c13Pool) {
	if len(p.orderIDs) == 0 {
		return
	}
	i := c.r.Intn(len(p.orderIDs))
	id := p.orderIDs[i]
	p.orderIDs = append(p.orderIDs[:i], p.orderIDs[i+1:]...)
	// pre-check of remove_limit_order.go
	var ok bool
	if pv, site := guarded(func() {
		o := c.sw().GetOrder(id)
		ok = o != nil && !c.sw().GetSwapper(o.Coin0, o.Coin1).IsOrderAlreadyUsed(id)
	}); pv != nil {
		c.viol("panic", "precheck/GetOrder:"+site, "GetOrder(%d) panicked: %v", id, pv)
		return
	}
	if !ok {
		return
	}
	r0, r1 := c.reserves(p.c0, p.c1)
	var vol *big.Int
	if pv, site := guarded(func() { _, vol = c.sw().PairRemoveLimitOrder(id) }); pv != nil {
		c.viol("panic-after-precheck", "PairRemoveLimitOrder:"+site, "PairRemoveLimitOrder(%d) panicked: %v", id, pv)
		return
	}
	c.log.add("cancel", "id", id, "refund", vol)
	n0, n1 := c.reserves(p.c0, p.c1)
	if n0.Cmp(r0) != 0 || n1.Cmp(r1) != 0 {
		c.viol("order-touches-reserves", "PairRemoveLimitOrder", "reserves %s,%s -> %s,%s after cancelling order %d", r0, r1, n0, n1, id)
	}
}

// tradeAmount picks a taker amount relative to a reserve.
func (c *c13) tradeAmount(res *big.Int) *big.Int {
	r := c.r
	switch r.Intn(10) {
	case 0:
		return big.NewInt(int64(1 + r.Intn(2000)))
	case 1:
		return new(big.Int).Add(RandBig(r, new(big.Int).Mul(res, big.NewInt(10))), big1)
	case 2:
		return RandLog(r, 33)
	case 3: // close to the reserve
		v := new(big.Int).Add(res, big.NewInt(int64(r.Intn(5)-2)))
		if v.Sign() <= 0 {
			v.SetInt64(1)
		}
		return v
	default:
		// log-uniform fraction of the reserve: res / 10^k * u
		k := r.Intn(12)
		v := new(big.Int).Div(res, pow10(k))
		v = RandBig(r, new(big.Int).Add(v, big1))
		return v.Add(v, big1)
	}
}

func (c *c13) trade(p *c13Pool, sell bool) {
	r := c.r
	cin, cout := p.c0, p.c1
	if r.Intn(2) == 0 {
		cin, cout = cout, cin
	}
	sw := c.sw()
	rin, rout := c.reserves(cin, cout)
	pair := sw.GetSwapper(cin, cout)
	hasBook := false
	var first *swap.Limit
	if pv, site := guarded(func() { first = pair.OrderSellByIndex(0) }); pv != nil {
		c.viol("panic", "precheck/OrderSellByIndex:"+site, "OrderSellByIndex(0) panicked: %v", pv)
		return
	}
	hasBook = first != nil
	var amt *big.Int
	kind := "rand"
	if sell {
		amt = c.tradeAmount(rin)
	} else {
		amt = c.tradeAmount(rout)
	}
	if hasBook && r.Intn(4) == 0 {
		// stop exactly at (or one unit around) the best order's price
		var d0, d1 *big.Int
		guarded(func() { d0, d1 = pair.CalculateAddAmountsForPrice(first.Price()) })
		if d0 != nil && d1 != nil && d0.Sign() > 0 && d1.Sign() > 0 {
			kind = "to-order-price"
			delta := big.NewInt(int64(r.Intn(3) - 1))
			if sell {
				// gross amount whose 99.9% equals d0: x - ceil(x/1000) = d0
				x := new(big.Int).Mul(d0, big.NewInt(1000))
				x.Div(x, big.NewInt(999))
				amt = x.Add(x, delta)
			} else {
				amt = new(big.Int).Add(d1, delta)
			}
			if amt.Sign() <= 0 {
				amt.SetInt64(1)
			}
		}
	}
	if hasBook && !sell && r.Intn(6) == 0 {
		// buy exactly what the pool holds plus what the first k orders offer (or one unit around it): after the orders are
		// filled the rest equals the whole reserve, which must be refused (lead: added after seed C13-m4)
		var os []*swap.Limit
		k := 1 + r.Intn(3)
		guarded(func() { os = pair.OrdersSell(uint32(k)) })
		sum := bcopy(rout)
		n := 0
		for _, o := range os {
			if o == nil {
				break
			}
			sum.Add(sum, o.WantSell)
			n++
		}
		if n > 0 {
			kind = "reserve-plus-orders"
			amt = sum.Add(sum, big.NewInt(int64(r.Intn(3)-1)))
		}
	}
	if amt.Cmp(bigMaxCoin) > 0 {
		amt.Set(bigMaxCoin)
	}
	op := "buy"
	if sell {
		op = "sell"
	}
	// ---- pre-check exactly like transaction.CheckSwap
	var pre *big.Int
	var preOrders []*swap.Limit
	if pv, site := guarded(func() {
		if sell {
			pre, preOrders = pair.CalculateBuyForSellWithOrders(bcopy(amt))
		} else {
			pre, preOrders = pair.CalculateSellForBuyWithOrders(bcopy(amt))
		}
	}); pv != nil {
		c.log.add(op+"-precheck-panic", "cin", uint32(cin), "cout", uint32(cout), "amount", amt, "rin", rin, "rout", rout)
		c.viol("panic", "precheck/"+op+":"+site, "pre-check of %s %s (coin %d->%d, reserves %s,%s) %v", op, amt, cin, cout, rin, rout, pv)
		return
	}
	accepted := pre != nil
	if sell {
		accepted = accepted && pre.Sign() > 0
	} else {
		accepted = accepted && pre.Sign() > 0 && pre.Cmp(bigMaxCoin) <= 0 // buy_swap_pool_v260.go also rejects a non-positive result
	}
	if !accepted {
		c.ctx.Res.Count(op+"-rejected", 1)
		return
	}
	burnBefore := c.b.St.Accounts.GetBalance(swapBurnAddress, cin)
	var ownBefore []*big.Int
	for _, a := range c.owners {
		ownBefore = append(ownBefore, bcopy(c.b.St.Accounts.GetBalance(a, cin)), bcopy(c.b.St.Accounts.GetBalance(a, cout)))
	}
	c.log.add(op, "cin", uint32(cin), "cout", uint32(cout), "amount", amt, "kind", kind, "rin", rin, "rout", rout, "precheck", pre, "precheckFills", len(preOrders))
	var ain, aout *big.Int
	var det *swap.ChangeDetailsWithOrders
	var owners []*swap.OrderDetail
	if pv, site := guarded(func() {
		if sell {
			ain, aout, _, det, owners = sw.PairSellWithOrders(cin, cout, bcopy(amt), big.NewInt(0))
		} else {
			ain, aout, _, det, owners = sw.PairBuyWithOrders(cin, cout, bcopy(bigMaxCoin), bcopy(amt))
		}
	}); pv != nil {
		c.viol("panic-after-precheck", op+":"+site, "%s %s (coin %d->%d, reserves %s,%s, pre-check result %s) panicked after the pre-check passed: %v", op, amt, cin, cout, rin, rout, pre, pv)
		// the pair may be half-updated: stop using this state
		c.nviol += 100
		return
	}
	c.ctx.Res.Evaluations++
	nin, nout := c.reserves(cin, cout)
	fills := len(det.Orders)
	c.class(op+"/"+kind, fills, hasBook, rin, rout)
	desc := func() string {
		return fmt.Sprintf("%s %s coin %d->%d: reserves (%s, %s) -> (%s, %s), in=%s out=%s fills=%d", op, amt, cin, cout, rin, rout, nin, nout, bstr(ain), bstr(aout), fills)
	}
	// (a) product of the reserves never decreases
	if new(big.Int).Mul(nin, nout).Cmp(new(big.Int).Mul(rin, rout)) < 0 {
		c.viol("product-decreased", op, "%s", desc())
	}
	// (b) never pays out more than the pool holds
	if nin.Sign() < 0 || nout.Sign() < 0 {
		c.viol("payout-exceeds-reserve", op, "%s", desc())
	}
	// (c) both coins are conserved: what the taker pays goes to order owners, the burn address and the pool;
	//     what the taker receives comes from the pool and from the escrow of the filled orders
	sumOwners, sumSell := new(big.Int), new(big.Int)
	for _, o := range owners {
		sumOwners.Add(sumOwners, o.ValueBigInt)
	}
	for _, o := range det.Orders {
		sumSell.Add(sumSell, o.WantSell)
	}
	burned := new(big.Int).Sub(c.b.St.Accounts.GetBalance(swapBurnAddress, cin), burnBefore)
	inSide := new(big.Int).Add(sumOwners, burned)
	inSide.Add(inSide, new(big.Int).Sub(nin, rin))
	if ain == nil || ain.Cmp(inSide) != 0 {
		c.viol("conservation", op+"/coin-in", "%s: taker paid %s but owners %s + burned %s + pool %s", desc(), bstr(ain), sumOwners, burned, new(big.Int).Sub(nin, rin))
	}
	outSide := new(big.Int).Add(new(big.Int).Sub(rout, nout), sumSell)
	if aout == nil || aout.Cmp(outSide) != 0 {
		c.viol("conservation", op+"/coin-out", "%s: taker got %s but pool gave %s and filled orders released %s", desc(), bstr(aout), new(big.Int).Sub(rout, nout), sumSell)
	}
	if sell && ain != nil && ain.Cmp(amt) != 0 || !sell && aout != nil && aout.Cmp(amt) != 0 {
		c.viol("conservation", op+"/amount", "%s: executed amount differs from the requested one", desc())
	}
	// (d) a trade never takes anything from an order owner's account (dust refunds of closed orders are credits)
	for i, a := range c.owners {
		for j, coin := range []types.CoinID{cin, cout} {
			if now := c.b.St.Accounts.GetBalance(a, coin); now.Cmp(ownBefore[2*i+j]) < 0 {
				ids := ""
				for _, o := range det.Orders {
					ids += fmt.Sprintf(" #%d(%s/%s)", o.ID(), o.WantBuy, o.WantSell)
					if len(ids) > 500 {
						ids += " ..."
						break
					}
				}
				c.viol("owner-debited", op, "%s: balance of order owner %s in coin %d went from %s to %s; fills:%s", desc(), a.String(), coin, ownBefore[2*i+j], now, ids)
			}
		}
	}
	if fills > 0 {
		c.ctx.Res.Count("trades-with-fills", 1)
		c.ctx.Res.Count("fills", int64(fills))
	}
	c.ctx.Res.Sample(map[string]interface{}{"op": op, "amount": amt.String(), "rin": rin.String(), "rout": rout.String(), "rin2": nin.String(), "rout2": nout.String(), "fills": fills}, 6)
}

func (c *c13) mint(p *c13Pool) {
	r := c.r
	ca, cb := p.c0, p.c1
	if r.Intn(2) == 0 {
		ca, cb = cb, ca
	}
	sw := c.sw()
	ra, rb := c.reserves(ca, cb)
	pair := sw.GetSwapper(ca, cb)
	var a0 *big.Int
	switch r.Intn(6) {
	case 0:
		a0 = big.NewInt(int64(1 + r.Intn(20)))
	case 1:
		a0 = RandLog(r, 33)
	default:
		a0 = c.tradeAmount(ra)
	}
	if new(big.Int).Add(ra, a0).Cmp(new(big.Int).Mul(bigMaxCoin, big.NewInt(1000))) > 0 {
		return
	}
	// pre-check of add_liquidity_v260.go
	var needed *big.Int
	var err error
	if pv, site := guarded(func() {
		_, needed = pair.CalculateAddLiquidity(a0, p.supply)
		err = pair.CheckMint(a0, needed, p.supply)
	}); pv != nil {
		c.viol("panic", "precheck/CheckMint:"+site, "CheckMint(%s) on reserves %s,%s supply %s panicked: %v", a0, ra, rb, p.supply, pv)
		return
	}
	if err != nil {
		c.ctx.Res.Count("mint-rejected", 1)
		return
	}
	c.log.add("mint", "ca", uint32(ca), "cb", uint32(cb), "a0", a0, "max1", needed, "supply", p.supply, "ra", ra, "rb", rb)
	var b0, b1, liq *big.Int
	if pv, site := guarded(func() { b0, b1, liq = sw.PairMint(ca, cb, bcopy(a0), bcopy(needed), bcopy(p.supply)) }); pv != nil {
		c.viol("panic-after-precheck", "PairMint:"+site, "PairMint(%s) on reserves %s,%s supply %s panicked after CheckMint passed: %v", a0, ra, rb, p.supply, pv)
		c.nviol += 100
		return
	}
	c.ctx.Res.Evaluations++
	na, nb := c.reserves(ca, cb)
	c.class("mint", 0, len(p.orderIDs) > 0, ra, rb)
	if new(big.Int).Sub(na, ra).Cmp(b0) != 0 || new(big.Int).Sub(nb, rb).Cmp(b1) != 0 || b0.Cmp(a0) != 0 || b1.Sign() < 0 {
		c.viol("mint-reserves", "PairMint", "mint %s: reserves (%s,%s)->(%s,%s) but reported payment %s,%s", a0, ra, rb, na, nb, b0, b1)
	}
	if b1.Cmp(needed) > 0 {
		c.viol("mint-reserves", "PairMint", "mint %s took %s of the second coin, more than the maximum %s", a0, b1, needed)
	}
	if liq.Sign() <= 0 {
		c.viol("mint-liquidity", "PairMint", "mint %s on (%s,%s) supply %s minted %s", a0, ra, rb, p.supply, liq)
		return
	}
	newSupply := new(big.Int).Add(p.supply, liq)
	if r.Intn(2) == 0 {
		// mint-then-burn of exactly the minted liquidity never returns more than was put in
		var berr error
		if pv, site := guarded(func() { berr = pair.CheckBurn(liq, big0, big0, newSupply) }); pv != nil {
			c.viol("panic", "precheck/CheckBurn:"+site, "CheckBurn panicked: %v", pv)
			return
		}
		if berr != nil {
			p.supply = newSupply
			p.holders[0] = new(big.Int).Add(p.holders[0], liq)
			return
		}
		var o0, o1 *big.Int
		if pv, site := guarded(func() { o0, o1 = sw.PairBurn(ca, cb, bcopy(liq), big.NewInt(0), big.NewInt(0), bcopy(newSupply)) }); pv != nil {
			c.viol("panic-after-precheck", "PairBurn:"+site, "PairBurn(%s of %s) panicked after CheckBurn passed: %v", liq, newSupply, pv)
			c.nviol += 100
			return
		}
		c.ctx.Res.Evaluations++
		c.log.add("burn-minted", "liquidity", liq, "supply", newSupply, "out0", o0, "out1", o1)
		c.class("mint-then-burn", 0, len(p.orderIDs) > 0, ra, rb)
		if o0.Cmp(b0) > 0 || o1.Cmp(b1) > 0 {
			c.viol("mint-burn-roundtrip", "PairMint+PairBurn", "reserves (%s,%s) supply %s: paid %s,%s for %s liquidity, burning it returned %s,%s", ra, rb, p.supply, b0, b1, liq, o0, o1)
		}
		c.judgeBurn(ca, cb, na, nb, liq, newSupply, o0, o1)
		return
	}
	p.supply = newSupply
	h := r.Intn(3)
	p.holders[h] = new(big.Int).Add(p.holders[h], liq)
}

// judgeBurn: a burn returns at most floor(share) of each reserve and the reserves drop by exactly what is returned.
func (c *c13) judgeBurn(ca, cb types.CoinID, ra, rb, liq, supply, o0, o1 *big.Int) {
	na, nb := c.reserves(ca, cb)
	s0 := new(big.Int).Div(new(big.Int).Mul(liq, ra), supply)
	s1 := new(big.Int).Div(new(big.Int).Mul(liq, rb), supply)
	if o0.Cmp(s0) > 0 || o1.Cmp(s1) > 0 {
		c.viol("burn-share", "PairBurn", "burn %s of supply %s on reserves (%s,%s) returned %s,%s > floor(share) %s,%s", liq, supply, ra, rb, o0, o1, s0, s1)
	}
	if new(big.Int).Sub(ra, na).Cmp(o0) != 0 || new(big.Int).Sub(rb, nb).Cmp(o1) != 0 || o0.Sign() < 0 || o1.Sign() < 0 {
		c.viol("burn-reserves", "PairBurn", "burn %s: reserves (%s,%s)->(%s,%s) but returned %s,%s", liq, ra, rb, na, nb, o0, o1)
	}
	if na.Sign() < 0 || nb.Sign() < 0 {
		c.viol("payout-exceeds-reserve", "burn", "burn %s of %s: reserves (%s,%s)->(%s,%s)", liq, supply, ra, rb, na, nb)
	}
}

func (c *c13) burn(p *c13Pool) {
	r := c.r
	h := r.Intn(3)
	bal := p.holders[h]
	if bal.Sign() <= 0 {
		return
	}
	ca, cb := p.c0, p.c1
	if r.Intn(2) == 0 {
		ca, cb = cb, ca
	}
	var liq *big.Int
	switch r.Intn(5) {
	case 0:
		liq = bcopy(bal)
	case 1:
		liq = big.NewInt(int64(1 + r.Intn(10)))
		if liq.Cmp(bal) > 0 {
			liq = bcopy(bal)
		}
	default:
		liq = new(big.Int).Add(RandBig(r, bal), big1)
	}
	sw := c.sw()
	ra, rb := c.reserves(ca, cb)
	pair := sw.GetSwapper(ca, cb)
	min0, min1 := big.NewInt(0), big.NewInt(0)
	if r.Intn(3) == 0 { // exact minimums: must pass
		min0 = new(big.Int).Div(new(big.Int).Mul(liq, ra), p.supply)
		min1 = new(big.Int).Div(new(big.Int).Mul(liq, rb), p.supply)
	}
	var err error
	if pv, site := guarded(func() { err = pair.CheckBurn(liq, min0, min1, p.supply) }); pv != nil {
		c.viol("panic", "precheck/CheckBurn:"+site, "CheckBurn panicked: %v", pv)
		return
	}
	if err != nil {
		c.ctx.Res.Count("burn-rejected", 1)
		return
	}
	c.log.add("burn", "ca", uint32(ca), "cb", uint32(cb), "liquidity", liq, "supply", p.supply, "ra", ra, "rb", rb)
	var o0, o1 *big.Int
	if pv, site := guarded(func() { o0, o1 = sw.PairBurn(ca, cb, bcopy(liq), bcopy(min0), bcopy(min1), bcopy(p.supply)) }); pv != nil {
		c.viol("panic-after-precheck", "PairBurn:"+site, "PairBurn(%s of %s) on (%s,%s) panicked after CheckBurn passed: %v", liq, p.supply, ra, rb, pv)
		c.nviol += 100
		return
	}
	c.ctx.Res.Evaluations++
	c.class("burn", 0, len(p.orderIDs) > 0, ra, rb)
	c.judgeBurn(ca, cb, ra, rb, liq, p.supply, o0, o1)
	p.holders[h] = new(big.Int).Sub(bal, liq)
	p.supply = new(big.Int).Sub(p.supply, liq)
}

// txCreate runs one real CreateSwapPool transaction (Data.Run on the deliver state) and checks what is credited:
// the pool token volume is floor(sqrt(v0*v1)), the creator holds volume-1000 and the zero address holds the locked 1000.
func (c *c13) txCreate(idx int) {
	r := c.r
	st := c.b.St
	key := NewKey("c13-creator", idx%7)
	var ids [2]types.CoinID
	var vols [2]*big.Int
	for i := 0; i < 2; i++ {
		id := st.App.GetNextCoinID()
		sym := types.StrToCoinSymbol(fmt.Sprintf("TK%d", id))
		v := RandLog(r, 33)
		if r.Intn(4) == 0 {
			v = big.NewInt(int64(1001 + r.Intn(5000)))
		}
		st.Coins.CreateToken(id, sym, "token", true, true, bcopy(v), bcopy(bigMaxCoin), nil)
		st.App.SetCoinsCount(id.Uint32())
		st.Accounts.AddBalance(key.Addr, id, bcopy(v))
		ids[i], vols[i] = id, v
	}
	v0 := new(big.Int).Add(RandBig(r, vols[0]), big1)
	v1 := new(big.Int).Add(RandBig(r, vols[1]), big1)
	if r.Intn(3) == 0 {
		v0, v1 = bcopy(vols[0]), bcopy(vols[1])
	}
	data := transaction.CreateSwapPoolData{Coin0: ids[0], Volume0: v0, Coin1: ids[1], Volume1: v1}
	enc, err := rlp.EncodeToBytes(data)
	if err != nil {
		panic(err)
	}
	tx := &transaction.Transaction{Nonce: 1, ChainID: types.CurrentChainID, GasPrice: 1, GasCoin: types.GetBaseCoinID(), Type: transaction.TypeCreateSwapPool, Data: enc, SignatureType: transaction.SigTypeSingle}
	if err := tx.Sign(key.Priv); err != nil {
		panic(err)
	}
	tx.SetDecodedData(data)
	lp := st.App.GetNextCoinID()
	c.log.add("tx-create", "coin0", uint32(ids[0]), "coin1", uint32(ids[1]), "v0", v0, "v1", v1)
	var resp transaction.Response
	if pv, site := guarded(func() { resp = data.Run(tx, st, big.NewInt(0), 1, big.NewInt(0)) }); pv != nil {
		c.viol("panic", "CreateSwapPoolData.Run:"+site, "CreateSwapPool tx with volumes %s,%s panicked: %v", v0, v1, pv)
		return
	}
	prod := new(big.Int).Mul(v0, v1)
	if resp.Code != 0 {
		// only acceptable reason here: liquidity not above the minimum
		if new(big.Int).Sqrt(prod).Cmp(big.NewInt(1000)) > 0 {
			c.viol("create-rejected", "CreateSwapPoolData.Run", "CreateSwapPool %s,%s rejected with code %d: %s", v0, v1, resp.Code, resp.Log)
		}
		c.ctx.Res.Count("tx-create-rejected", 1)
		return
	}
	c.ctx.Res.Evaluations++
	coin := st.Coins.GetCoin(lp)
	if coin == nil {
		c.viol("create-liquidity", "CreateSwapPoolData.Run", "no pool token %d after CreateSwapPool", lp)
		return
	}
	vol := coin.Volume()
	creator := st.Accounts.GetBalance(key.Addr, lp)
	locked := st.Accounts.GetBalance(types.Address{}, lp)
	c.class("tx-create", 0, false, v0, v1)
	if !isqrtOK(vol, prod) {
		c.viol("create-liquidity", "CreateSwapPoolData.Run", "pool token volume %s is not floor(sqrt(%s*%s))", vol, v0, v1)
	}
	if locked.Cmp(big.NewInt(1000)) != 0 || new(big.Int).Add(creator, locked).Cmp(vol) != 0 {
		c.viol("locked-liquidity", "CreateSwapPoolData.Run", "pool token volume %s: creator credited %s, zero address holds %s (must be volume-1000 and 1000)", vol, creator, locked)
	}
	r0, r1, _ := st.SwapV2.SwapPool(ids[0], ids[1])
	if r0 == nil || r0.Cmp(v0) != 0 || r1.Cmp(v1) != 0 {
		c.viol("create-reserves", "CreateSwapPoolData.Run", "reserves %s,%s after creating with %s,%s", bstr(r0), bstr(r1), v0, v1)
	}
	if st.Accounts.GetBalance(key.Addr, ids[0]).Cmp(new(big.Int).Sub(vols[0], v0)) != 0 || st.Accounts.GetBalance(key.Addr, ids[1]).Cmp(new(big.Int).Sub(vols[1], v1)) != 0 {
		c.viol("create-reserves", "CreateSwapPoolData.Run", "creator was not debited exactly %s,%s", v0, v1)
	}
}

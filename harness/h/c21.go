package h

// C21: a check pays out at most once, only to the holder of its password.
//
// The harness issues every check itself and presents it in hand-made RedeemCheck transactions; everything the oracle
// needs (check fields, who the proof was made for and with which secret) travels in the transaction's meta note, so a
// replayed history is judged by the same monitor without any generator state.  The reference is a sequential model:
// set of check identities seen accepted so far + the conditions of the statement evaluated on the harness's own data.

import (
	"crypto/ecdsa"
	"encoding/hex"
	"encoding/json"
	"fmt"
	"math/big"
	"math/rand"
	"sort"
	"strings"

	tx "github.com/MinterTeam/minter-go-node/coreV2/transaction"
	"github.com/MinterTeam/minter-go-node/coreV2/types"
	"github.com/MinterTeam/minter-go-node/crypto"
	"github.com/MinterTeam/minter-go-node/rlp"
	abci "github.com/tendermint/tendermint/abci/types"
)

const (
	c21CodeCheckUsed = 503
)

// c21Note is the ground truth of one presented check (JSON in TxMeta.Note).
type c21Note struct {
	ID        string `json:"id"`  // identity: keccak(rlp(nonce,chain,due,coin,value,gas,lock)) computed by the harness
	Raw       string `json:"raw"` // raw check as presented (hex)
	Issuer    string `json:"issuer"`
	Due       uint64 `json:"due"`
	Chain     byte   `json:"chain"`
	Coin      uint32 `json:"coin"`
	Gas       uint32 `json:"gas"`
	Value     string `json:"value"`
	NonceLen  int    `json:"nonce_len"`
	Pw        string `json:"pw"`         // the check's password
	ProofKind string `json:"proof_kind"` // password | issuer-key | random
	ProofPw   string `json:"proof_pw"`   // password the proof was made with (kind password)
	ProofFor  string `json:"proof_for"`  // hex address the proof was made for
	Variant   string `json:"variant"`    // generator intent (evidence classes only)
	SigMut    string `json:"sig_mut,omitempty"`
}

// c21Fields mirrors the wire format of a check (own definition: the identity is computed without the check package).
type c21Fields struct {
	Nonce    []byte
	ChainID  types.ChainID
	DueBlock uint64
	Coin     types.CoinID
	Value    *big.Int
	GasCoin  types.CoinID
	Lock     *big.Int
	V        *big.Int
	R        *big.Int
	S        *big.Int
}

func c21Identity(f *c21Fields) string {
	hw := newKeccak()
	_ = rlp.Encode(hw, []interface{}{f.Nonce, f.ChainID, f.DueBlock, f.Coin, f.Value, f.GasCoin, f.Lock})
	return hex.EncodeToString(hw.Sum(nil))
}

var secp256k1N, _ = new(big.Int).SetString("fffffffffffffffffffffffffffffffebaaedce6af48a03bbfd25e8cd0364141", 16)

// c21ProofWithKey signs keccak(rlp([addr])) with an arbitrary private key.
func c21ProofWithKey(k *ecdsa.PrivateKey, redeemer types.Address) (proof [65]byte) {
	var hsh types.Hash
	hw := newKeccak()
	_ = rlp.Encode(hw, []interface{}{redeemer})
	hw.Sum(hsh[:0])
	sig, err := crypto.Sign(hsh.Bytes(), k)
	if err != nil {
		panic(err)
	}
	copy(proof[:], sig)
	return
}

// ---------------------------------------------------------------------------------------------------------------
// monitor

type c21Seen struct {
	note       c21Note
	acceptedAt int64
	acceptedBy string
}

// MonChecks implements C21.
type MonChecks struct {
	BaseMon
	Res      *WorkerResult
	accepted map[string]*c21Seen // identity -> first acceptance
	order    []string
	issued   map[string]*c21Note // every identity ever presented
	prev     Snap
	note     *c21Note
	SideRuns bool // run the restart / genesis round-trip re-presentations in Finish
}

func (m *MonChecks) Name() string { return "C21" }

func (m *MonChecks) Init(s *Sim) {
	m.accepted = map[string]*c21Seen{}
	m.issued = map[string]*c21Note{}
	for _, u := range s.Gen.UsedChecks {
		id := strings.ToLower(string(u))
		m.accepted[id] = &c21Seen{acceptedAt: -1}
	}
}

func c21ParseNote(meta *TxMeta) *c21Note {
	if meta.Type != byte(tx.TypeRedeemCheck) || !strings.HasPrefix(meta.Note, "{") {
		return nil
	}
	var n c21Note
	if err := json.Unmarshal([]byte(meta.Note), &n); err != nil || n.ID == "" {
		return nil
	}
	return &n
}

func (m *MonChecks) BeforeTx(s *Sim, i int, txb []byte, meta *TxMeta) {
	m.note = c21ParseNote(meta)
	if m.note != nil {
		m.prev = s.TakeSnap()
		m.augment(s, m.prev, meta)
	}
}

// augment adds the parties of the presentation to a snapshot (a redeemer may be an address the universe does not know yet).
func (m *MonChecks) augment(s *Sim, sn Snap, meta *TxMeta) {
	cs := s.N.App.CurrentState()
	for _, a := range []types.Address{addrOf(m.note.Issuer), addrOf(meta.Sender), addrOf(m.note.ProofFor)} {
		as := a.String()
		sn["nonce/"+as] = fmt.Sprint(cs.Accounts().GetNonce(a))
		for _, c := range []uint32{m.note.Coin, m.note.Gas, meta.GasCoin, 0} {
			k := fmt.Sprintf("bal/%s/%d", as, c)
			if b := cs.Accounts().GetBalance(a, types.CoinID(c)); b.Sign() != 0 {
				sn[k] = b.String()
			} else {
				delete(sn, k)
			}
		}
	}
}

// c21Causes lists every reason of the statement for which this presentation must not be accepted.
func (m *MonChecks) causes(n *c21Note, meta *TxMeta, h int64) []string {
	var cs []string
	if uint64(h) > n.Due {
		cs = append(cs, "expired")
	}
	if n.Chain != byte(types.CurrentChainID) {
		cs = append(cs, "check-for-other-network")
	}
	if meta.Chain != byte(types.CurrentChainID) {
		cs = append(cs, "tx-for-other-network")
	}
	if _, used := m.accepted[n.ID]; used {
		cs = append(cs, "already-redeemed")
	}
	switch {
	case n.ProofKind != "password":
		cs = append(cs, "proof-not-made-with-password")
	case n.ProofPw != n.Pw:
		cs = append(cs, "proof-with-wrong-password")
	case n.ProofFor != meta.Sender:
		cs = append(cs, "proof-for-another-address")
	}
	if meta.GasCoin != n.Gas {
		cs = append(cs, "gas-coin-differs-from-check")
	}
	if meta.GasPrice != 1 {
		cs = append(cs, "gas-price-not-1")
	}
	return cs
}

func (m *MonChecks) AfterTx(s *Sim, i int, txb []byte, meta *TxMeta, res *abci.ResponseDeliverTx) {
	n := m.note
	if n == nil {
		return
	}
	h := s.CurReq.Height
	m.issued[n.ID] = n
	cs := m.causes(n, meta, h)
	m.Res.Evaluations++
	rel := "before-due"
	switch {
	case uint64(h) == n.Due:
		rel = "at-due"
	case uint64(h) > n.Due:
		rel = "after-due"
	}
	why := "none"
	if len(cs) > 0 {
		why = strings.Join(cs, "+")
	}
	out := "rejected"
	if res.Code == 0 {
		out = "ACCEPTED"
	}
	if a := m.accepted[n.ID]; a != nil && a.acceptedAt == h {
		rel += "/paid-earlier-in-this-block"
	}
	m.Res.Seen(fmt.Sprintf("%s [%s] %s -> %s", n.Variant, why, rel, out))
	m.Res.Seen(fmt.Sprintf("code %d for [%s]", res.Code, why))
	for _, c := range cs {
		if res.Code != 0 {
			m.Res.Count("must-reject-and-rejected/"+c, 1)
		}
	}
	cur := s.TakeSnap()
	m.augment(s, cur, meta)
	if res.Code != 0 {
		if len(cs) == 0 {
			m.Res.Count(fmt.Sprintf("presentable-but-rejected/code-%d", res.Code), 1)
		}
		// nothing may reach the redeemer of a rejected redemption
		red := addrOf(meta.Sender).String()
		for _, k := range DiffSnap(m.prev, cur) {
			if strings.HasPrefix(k, "bal/"+red+"/") && BI(cur[k]).Cmp(BI(m.prev[k])) > 0 {
				// the redeemer may own orders filled by the fee swap of the failed tx
				credit := ParsePoolTag(Tags(res)["tx.commission_details"]).CreditsTo(red)
				if new(big.Int).Sub(BI(cur[k]), BI(m.prev[k])).Cmp(credit) != 0 {
					s.Report(Violation{Property: "C21", Rule: "rejected-redemption-paid", Site: cs0(cs), Height: h, TxIndex: i,
						Detail: fmt.Sprintf("redeemer %s: %s %s -> %s after code %d", red, k, m.prev[k], cur[k], res.Code)})
				}
			}
		}
		return
	}
	m.Res.Count("accepted", 1)
	if h2 := uint64(h); h2 == n.Due {
		m.Res.Count("accepted-at-due-block(open)", 1)
	}
	if len(cs) > 0 {
		first := ""
		if a := m.accepted[n.ID]; a != nil {
			first = fmt.Sprintf("; first accepted at height %d by %s", a.acceptedAt, a.acceptedBy)
		}
		s.Report(Violation{Property: "C21", Rule: "invalid-redemption-accepted", Site: cs[0], Height: h, TxIndex: i,
			Detail: fmt.Sprintf("check %s (issuer %s, due %d, chain %d, coin %d value %s gas coin %d) redeemed by %s at height %d although: %s%s",
				n.ID[:16], n.Issuer, n.Due, n.Chain, n.Coin, n.Value, n.Gas, meta.Sender, h, why, first)})
	}
	if _, dup := m.accepted[n.ID]; !dup {
		m.accepted[n.ID] = &c21Seen{note: *n, acceptedAt: h, acceptedBy: meta.Sender}
		m.order = append(m.order, n.ID)
	}
	m.judgePayment(s, i, n, meta, res, cur)
}

func cs0(cs []string) string {
	if len(cs) == 0 {
		return "presentable"
	}
	return cs[0]
}

// judgePayment: an accepted redemption moves exactly value (coin) issuer -> redeemer and the fee (gas coin) away from the issuer.
func (m *MonChecks) judgePayment(s *Sim, i int, n *c21Note, meta *TxMeta, res *abci.ResponseDeliverTx, cur Snap) {
	h := s.CurReq.Height
	tags := Tags(res)
	issuer, red := addrOf(n.Issuer), addrOf(meta.Sender)
	value := BI(n.Value)
	feeS, ok := tags["tx.commission_amount"]
	if !ok {
		s.Report(Violation{Property: "C21", Rule: "payment-mismatch", Site: "no-fee-tag", Height: h, TxIndex: i, Detail: "accepted redemption without tx.commission_amount"})
		return
	}
	fee := BI(feeS)
	pool := ParsePoolTag(tags["tx.commission_details"])
	route := "base"
	if n.Gas != 0 {
		route = "bancor"
		if pool != nil {
			route = "pool"
		}
	}
	type ac struct {
		a string
		c uint32
	}
	exp := map[ac]*big.Int{}
	add := func(a types.Address, c uint32, v *big.Int) {
		k := ac{a.String(), c}
		if exp[k] == nil {
			exp[k] = new(big.Int)
		}
		exp[k].Add(exp[k], v)
	}
	add(issuer, n.Coin, new(big.Int).Neg(value))
	add(red, n.Coin, value)
	add(issuer, n.Gas, new(big.Int).Neg(fee))
	add(red, n.Gas, new(big.Int))
	if pool != nil {
		add(issuer, n.Gas, pool.CreditsTo(issuer.String()))
		if red != issuer { // an issuer redeeming its own check: the fill of its own order is credited once
			add(red, n.Gas, pool.CreditsTo(red.String()))
		}
	}
	judged := map[string]bool{}
	for k, want := range exp {
		key := fmt.Sprintf("bal/%s/%d", k.a, k.c)
		judged[key] = true
		got := new(big.Int).Sub(BI(cur[key]), BI(m.prev[key]))
		if got.Cmp(want) != 0 {
			who := "issuer"
			if k.a == red.String() && k.a != issuer.String() {
				who = "redeemer"
			}
			what := "check-coin"
			if k.c == n.Gas && n.Gas != n.Coin {
				what = "gas-coin"
			}
			s.Report(Violation{Property: "C21", Rule: "payment-mismatch", Site: who + "/" + what, Height: h, TxIndex: i,
				Detail: fmt.Sprintf("%s changed by %s, expected %s (check value %s coin %d, fee %s coin %d, route %s, issuer %s redeemer %s)", key, got, want, value, n.Coin, fee, n.Gas, route, issuer.String(), red.String())})
		}
	}
	nk := "nonce/" + red.String()
	judged[nk] = true
	if BI(cur[nk]).Cmp(new(big.Int).Add(BI(m.prev[nk]), big.NewInt(1))) != 0 {
		s.Report(Violation{Property: "C21", Rule: "payment-mismatch", Site: "redeemer-nonce", Height: h, TxIndex: i, Detail: fmt.Sprintf("%s: %s -> %s", nk, m.prev[nk], cur[nk])})
	}
	gas := fmt.Sprint(n.Gas)
	var bad []string
	for _, k := range DiffSnap(m.prev, cur) {
		if judged[k] {
			continue
		}
		switch {
		case k == "msig/"+red.String() && cur[k] == "exists":
			// the snapshot's "address is taken" flag: the redeemer's first transaction (nonce 0 -> 1)
		case route == "bancor" && (k == "coin/"+gas+"/volume" || k == "coin/"+gas+"/reserve"):
		case route == "pool" && (k == "pool/0-"+gas || strings.HasPrefix(k, "order/")):
		case route == "pool" && strings.HasPrefix(k, "bal/") && strings.HasSuffix(k, "/"+gas) && BI(cur[k]).Cmp(BI(m.prev[k])) > 0:
			// owners of orders filled by the fee swap, burn address
		default:
			bad = append(bad, fmt.Sprintf("%s: %s -> %s", k, m.prev[k], cur[k]))
		}
	}
	if len(bad) > 0 {
		s.Report(Violation{Property: "C21", Rule: "redemption-side-effect", Site: route + ":" + keyClass(bad[0]), Height: h, TxIndex: i, Detail: fmt.Sprint(clip(bad, 5))})
	}
	// base-coin fee at gas price 1 = table price (+ payload bytes)
	if n.Gas == 0 && s.Post != nil && s.Post.Commission.Coin == 0 {
		want := new(big.Int).Add(BI(s.Post.Commission.RedeemCheck), new(big.Int).Mul(big.NewInt(int64(meta.PayLen)), BI(s.Post.Commission.PayloadByte)))
		if fee.Cmp(want) != 0 {
			s.Report(Violation{Property: "C21", Rule: "payment-mismatch", Site: "base-fee-not-table-price", Height: h, TxIndex: i, Detail: fmt.Sprintf("fee %s, price table says %s", fee, want)})
		}
	}
	cls := route
	if n.Coin == n.Gas {
		cls += "/coin=gas"
	}
	if issuer == red {
		cls += "/self-redeem"
	}
	if meta.Msig {
		cls += "/multisig-redeemer"
	}
	m.Res.Seen("paid " + cls)
	m.Res.Sample(map[string]interface{}{"height": h, "check": n.ID[:16], "issuer": n.Issuer, "redeemer": meta.Sender, "coin": n.Coin, "value": n.Value, "gas": n.Gas, "fee": fee.String(), "route": route}, 4)
}

func keyClass(k string) string {
	for i, c := range k {
		if c == '/' {
			return k[:i]
		}
	}
	return k
}

func (m *MonChecks) AfterBlock(s *Sim, req *BlockReq, res *BlockRes) {
	if s.Post == nil || res.Stopped || len(m.accepted) == 0 {
		return
	}
	in := map[string]bool{}
	for _, u := range s.Post.UsedChecks {
		in[strings.ToLower(string(u))] = true
	}
	miss := 0
	for id, a := range m.accepted {
		if !in[id] {
			miss++
			if miss == 1 {
				s.Report(Violation{Property: "C21", Rule: "redeemed-check-not-recorded", Site: "export", Height: req.Height, TxIndex: -1,
					Detail: fmt.Sprintf("check %s accepted at height %d is not in used_checks of the export after height %d", id[:16], a.acceptedAt, req.Height)})
			}
		}
	}
	m.Res.Count("export_used_set_checked", 1)
}

// Finish re-presents every redeemed, still unexpired check (a) to an instance restarted from the same data and (b) to a new
// chain whose genesis is the export; both must answer "check already redeemed".
func (m *MonChecks) Finish(s *Sim) {
	if !m.SideRuns || s.Post == nil || s.Stopped || len(m.order) == 0 || s.Opts.Dir != "" {
		return
	}
	h := s.H + 1
	var ids []string
	for _, id := range m.order {
		a := m.accepted[id]
		if a.note.Due >= uint64(h) && a.note.Chain == byte(types.CurrentChainID) {
			ids = append(ids, id)
		}
	}
	sort.Strings(ids)
	if len(ids) > 40 {
		ids = ids[:40]
	}
	if len(ids) == 0 {
		return
	}
	mk := func() [][]byte {
		var out [][]byte
		for k, id := range ids {
			n := m.accepted[id].note
			raw, _ := hex.DecodeString(n.Raw)
			red := NewKey("c21side", k)
			sp := &TxSpec{Nonce: 1, ChainID: types.CurrentChainID, GasPrice: 1, GasCoin: types.CoinID(n.Gas), Type: tx.TypeRedeemCheck,
				Data: tx.RedeemCheckData{RawCheck: raw, Proof: CheckProof(n.Pw, red.Addr)}, Signer: red}
			out = append(out, sp.Encode())
		}
		return out
	}
	judge := func(where string, r *BlockRes) {
		if r.Panic != nil {
			s.Report(Violation{Property: "C21", Rule: "redeemed-twice", Site: where + "/panic", Height: h, TxIndex: r.PanicTxI, Detail: firstLine(r.Panic.Value)})
			return
		}
		for k, d := range r.Deliver {
			switch {
			case d.Code == 0:
				s.Report(Violation{Property: "C21", Rule: "redeemed-twice", Site: where, Height: h, TxIndex: k,
					Detail: fmt.Sprintf("check %s redeemed at height %d was paid again %s", ids[k][:16], m.accepted[ids[k]].acceptedAt, where)})
			case d.Code == c21CodeCheckUsed:
				m.Res.Evaluations++
				m.Res.Count("re-presented-"+where+"/rejected-as-used", 1)
				m.Res.Seen("re-presented " + where + " -> rejected as used")
			default:
				m.Res.Count(fmt.Sprintf("re-presented-%s/other-code-%d", where, d.Code), 1)
			}
		}
	}
	// (a) restart: a new application instance over a copy of the same stores
	var a *Node
	if pi := s.N.guard("Image", func() { a = s.N.Image().Boot() }); pi == nil {
		req := &BlockReq{Height: h, Time: s.T.Add(s.Step), Votes: s.VotesFor(h, nil), Txs: mk()}
		judge("after-restart", a.RunBlock(req, nil))
		a.Destroy()
	} else {
		m.Res.Notes = append(m.Notes(), "restart image failed: "+firstLine(pi.Value))
	}
	// (b) genesis round trip
	e := *s.Post
	CompleteExport(s.N, &e)
	if err := e.Verify(); err != nil {
		m.Res.Count("genesis-roundtrip-skipped/export-invalid", 1)
		return
	}
	opts := s.Opts
	opts.AppDir = "" // a second instance never shares the first one's app DB directory
	opts.Dir, opts.Wrap = "", nil
	b := NewNode(opts)
	defer b.Destroy()
	if _, pi := b.InitChain(&e, h, s.T.Add(s.Step)); pi != nil {
		m.Res.Count("genesis-roundtrip-skipped/import-panic", 1)
		return
	}
	req := &BlockReq{Height: h, Time: s.T.Add(2 * s.Step), Txs: mk()}
	judge("after-genesis-roundtrip", b.RunBlock(req, nil))
}

// Notes returns the notes slice (helper to keep appends short).
func (m *MonChecks) Notes() []string { return m.Res.Notes }

// ---------------------------------------------------------------------------------------------------------------
// generator

type c21Issued struct {
	spec   CheckSpec
	raw    []byte
	id     string
	f      c21Fields
	sigMut string
	// harness-side bookkeeping (generation only; the oracle does not read it)
	accepted  bool
	presented int
}

type c21Gen struct {
	s      *Sim
	d      *Driver
	r      *rand.Rand
	idx    int
	checks []*c21Issued
	late   []*c21Issued // issued, to be presented around their due block
	lastOK [][]byte     // bytes of accepted redemption txs
	lastM  []TxMeta
	pwN    int
	sideK  int
}

func (g *c21Gen) h() int64 { return g.s.H + 1 }

func (g *c21Gen) issue(issuer *Key, coin, gas types.CoinID, value *big.Int, due uint64, chain types.ChainID, nonceLen int) *c21Issued {
	g.pwN++
	nonce := make([]byte, nonceLen)
	g.r.Read(nonce)
	pw := fmt.Sprintf("c21-%d-%d", g.idx, g.pwN)
	spec := CheckSpec{Nonce: nonce, ChainID: chain, DueBlock: due, Coin: coin, Value: value, GasCoin: gas, Issuer: issuer, Password: pw}
	raw := IssueCheck(&spec)
	ic := &c21Issued{spec: spec, raw: raw}
	if err := rlp.DecodeBytes(raw, &ic.f); err != nil {
		panic(err)
	}
	ic.id = c21Identity(&ic.f)
	g.checks = append(g.checks, ic)
	return ic
}

// malleate returns a copy of the check with the issuer signature replaced by its (r, n-s, v^1) twin.
func (g *c21Gen) malleate(ic *c21Issued) *c21Issued {
	f := ic.f
	f.S = new(big.Int).Sub(secp256k1N, ic.f.S)
	v := ic.f.V.Int64()
	f.V = big.NewInt(27 + 28 - v)
	raw, err := rlp.EncodeToBytes(f)
	if err != nil {
		panic(err)
	}
	return &c21Issued{spec: ic.spec, raw: raw, id: ic.id, f: f, sigMut: "twin-signature"}
}

type c21Red struct {
	k *Key
	m *MultisigAcc
}

func (x c21Red) addr() types.Address {
	if x.m != nil {
		return x.m.Addr
	}
	return x.k.Addr
}

func (g *c21Gen) redeemer(not *Key) c21Red {
	switch k := g.r.Intn(10); {
	case k == 0 && len(g.s.W.Multisigs) > 0:
		return c21Red{m: g.s.W.Multisigs[g.r.Intn(len(g.s.W.Multisigs))]}
	case k == 1:
		g.sideK++
		return c21Red{k: NewKey(fmt.Sprintf("c21fresh%d-", g.idx), g.sideK)} // an address the chain has never seen
	case k == 2:
		return c21Red{k: not} // the issuer redeems its own check
	}
	for {
		u := g.s.W.Users[g.r.Intn(len(g.s.W.Users))]
		if u != not {
			return c21Red{k: u}
		}
	}
}

// present builds the redemption transaction of ic by red.
func (g *c21Gen) present(ic *c21Issued, red c21Red, variant string, proofKind, proofPw string, proofFor types.Address, gasCoin types.CoinID, gasPrice uint32, chain types.ChainID) ([]byte, TxMeta) {
	var proof [65]byte
	switch proofKind {
	case "password":
		proof = CheckProof(proofPw, proofFor)
	case "issuer-key":
		proof = c21ProofWithKey(ic.spec.Issuer.Priv, proofFor)
	default:
		g.r.Read(proof[:])
		proof[64] = byte(g.r.Intn(2))
	}
	a := red.addr()
	nonce := g.s.N.App.CurrentState().Accounts().GetNonce(a) + 1
	sp := &TxSpec{Nonce: nonce, ChainID: chain, GasPrice: gasPrice, GasCoin: gasCoin, Type: tx.TypeRedeemCheck,
		Data: tx.RedeemCheckData{RawCheck: ic.raw, Proof: proof}, Signer: red.k, Multisig: red.m}
	note := c21Note{ID: ic.id, Raw: hex.EncodeToString(ic.raw), Issuer: hex.EncodeToString(ic.spec.Issuer.Addr[:]), Due: ic.spec.DueBlock, Chain: byte(ic.spec.ChainID),
		Coin: uint32(ic.spec.Coin), Gas: uint32(ic.spec.GasCoin), Value: ic.spec.Value.String(), NonceLen: len(ic.spec.Nonce), Pw: ic.spec.Password,
		ProofKind: proofKind, ProofPw: proofPw, ProofFor: hex.EncodeToString(proofFor[:]), Variant: variant, SigMut: ic.sigMut}
	nb, _ := json.Marshal(note)
	meta := TxMeta{Type: byte(tx.TypeRedeemCheck), Sender: hex.EncodeToString(a[:]), Nonce: nonce, GasCoin: uint32(gasCoin), GasPrice: gasPrice, Kind: "c21:" + variant,
		Note: string(nb), Msig: red.m != nil, Chain: byte(chain), Payer: hex.EncodeToString(ic.spec.Issuer.Addr[:])}
	ic.presented++
	return sp.Encode(), meta
}

func (g *c21Gen) ok(ic *c21Issued, red c21Red, variant string) ([]byte, TxMeta) {
	return g.present(ic, red, variant, "password", ic.spec.Password, red.addr(), ic.spec.GasCoin, 1, types.CurrentChainID)
}

// fresh issues a payable check: issuer holds the coin and (most of the time) can pay the fee in the gas coin.
func (g *c21Gen) fresh(due uint64) *c21Issued {
	issuer := g.s.W.Users[g.r.Intn(len(g.s.W.Users))]
	coin, bal := g.d.G.heldCoin(issuer.Addr)
	gas := types.CoinID(0)
	switch g.r.Intn(6) {
	case 0:
		gas = coin
	case 1:
		gas, _ = g.d.G.heldCoin(issuer.Addr)
	case 2:
		gas = g.d.G.anyCoin()
	}
	var v *big.Int
	switch g.r.Intn(12) {
	case 0:
		v = new(big.Int).Set(bal) // everything: payable only if the fee is in another coin
	case 1:
		v = new(big.Int).Add(bal, big.NewInt(1))
	case 2:
		v = big.NewInt(int64(g.r.Intn(2))) // 0 or 1 pip
	default:
		v = g.d.G.amount(bal, "valid")
	}
	nl := g.r.Intn(17)
	return g.issue(issuer, coin, gas, v, due, types.CurrentChainID, nl)
}

func (g *c21Gen) farDue() uint64 {
	return uint64(g.h()) + []uint64{1, 2, 3, 10, 40, 1000, 100000}[g.r.Intn(7)]
}

// next produces one redemption transaction.
func (g *c21Gen) next() ([]byte, TxMeta) {
	r := g.r
	h := uint64(g.h())
	// checks issued earlier whose due block is around now
	if len(g.late) > 0 && r.Intn(3) == 0 {
		for k, ic := range g.late {
			if d := int64(h) - int64(ic.spec.DueBlock); d >= -1 {
				if d >= 2 || r.Intn(2) == 0 {
					g.late = append(g.late[:k], g.late[k+1:]...)
				}
				return g.ok(ic, g.redeemer(ic.spec.Issuer), "held-until-due"+fmt.Sprintf("%+d", clampI(d, -1, 3)))
			}
		}
	}
	var acc []*c21Issued
	for _, ic := range g.checks {
		if ic.accepted {
			acc = append(acc, ic)
		}
	}
	x := r.Intn(100)
	switch {
	case x < 26:
		ic := g.fresh(g.farDue())
		return g.ok(ic, g.redeemer(ic.spec.Issuer), "fresh")
	case x < 32:
		// issue now, present around the due block later
		ic := g.fresh(h + uint64(2+r.Intn(12)))
		g.late = append(g.late, ic)
		ic2 := g.fresh(h) // and one that is due in this very block
		return g.ok(ic2, g.redeemer(ic2.spec.Issuer), "due-this-block")
	case x < 52 && len(acc) > 0:
		// second redemption of a paid check: mostly the most recent ones (same block), by the same or another holder of the password
		ic := acc[len(acc)-1-r.Intn(minInt(len(acc), 4))]
		if r.Intn(3) == 0 {
			ic = acc[r.Intn(len(acc))]
		}
		return g.ok(ic, g.redeemer(ic.spec.Issuer), "second-redemption")
	case x < 55 && len(g.lastOK) > 0:
		k := r.Intn(len(g.lastOK))
		mm := g.lastM[k]
		mm.Kind = "c21:same-bytes-again"
		var n c21Note
		_ = json.Unmarshal([]byte(mm.Note), &n)
		n.Variant = "same-bytes-again"
		nb, _ := json.Marshal(n)
		mm.Note = string(nb)
		return g.lastOK[k], mm
	case x < 63:
		due := h - uint64(1+r.Intn(3))
		if r.Intn(4) == 0 {
			due = h - uint64(1+r.Intn(500))
		}
		ic := g.fresh(due)
		return g.ok(ic, g.redeemer(ic.spec.Issuer), "issued-expired")
	case x < 68:
		ic := g.fresh(g.farDue())
		ch := types.ChainID(3 - byte(types.CurrentChainID))
		ic = g.issue(ic.spec.Issuer, ic.spec.Coin, ic.spec.GasCoin, ic.spec.Value, ic.spec.DueBlock, ch, len(ic.spec.Nonce))
		return g.ok(ic, g.redeemer(ic.spec.Issuer), "other-network")
	case x < 76:
		// the proof was made for somebody else: a third party that saw the transaction of the rightful redeemer
		ic := g.fresh(g.farDue())
		rightful := g.redeemer(ic.spec.Issuer)
		thief := g.redeemer(ic.spec.Issuer)
		for thief.addr() == rightful.addr() {
			thief = g.redeemer(ic.spec.Issuer)
		}
		return g.present(ic, thief, "stolen-proof", "password", ic.spec.Password, rightful.addr(), ic.spec.GasCoin, 1, types.CurrentChainID)
	case x < 81:
		ic := g.fresh(g.farDue())
		red := g.redeemer(ic.spec.Issuer)
		pw := ic.spec.Password + "x"
		if r.Intn(3) == 0 && len(g.checks) > 1 {
			pw = g.checks[r.Intn(len(g.checks))].spec.Password // a real password of another check
			if pw == ic.spec.Password {
				pw += "y"
			}
		}
		return g.present(ic, red, "wrong-password", "password", pw, red.addr(), ic.spec.GasCoin, 1, types.CurrentChainID)
	case x < 85:
		ic := g.fresh(g.farDue())
		red := g.redeemer(ic.spec.Issuer)
		return g.present(ic, red, "proof-by-issuer-key", "issuer-key", "", red.addr(), ic.spec.GasCoin, 1, types.CurrentChainID)
	case x < 87:
		ic := g.fresh(g.farDue())
		red := g.redeemer(ic.spec.Issuer)
		return g.present(ic, red, "random-proof", "random", "", red.addr(), ic.spec.GasCoin, 1, types.CurrentChainID)
	case x < 92:
		ic := g.fresh(g.farDue())
		red := g.redeemer(ic.spec.Issuer)
		gc := g.d.G.anyCoin()
		for try := 0; gc == ic.spec.GasCoin && try < 10; try++ {
			gc = g.d.G.anyCoin()
		}
		if gc == ic.spec.GasCoin {
			gc = ic.spec.GasCoin + 1
		}
		return g.present(ic, red, "other-gas-coin", "password", ic.spec.Password, red.addr(), gc, 1, types.CurrentChainID)
	case x < 95:
		ic := g.fresh(g.farDue())
		red := g.redeemer(ic.spec.Issuer)
		return g.present(ic, red, "gas-price", "password", ic.spec.Password, red.addr(), ic.spec.GasCoin, uint32(2+r.Intn(3)), types.CurrentChainID)
	case x < 97:
		ic := g.fresh(g.farDue())
		ic = g.issue(ic.spec.Issuer, ic.spec.Coin, ic.spec.GasCoin, ic.spec.Value, ic.spec.DueBlock, types.CurrentChainID, 17+r.Intn(3))
		return g.ok(ic, g.redeemer(ic.spec.Issuer), "nonce-17+")
	default:
		var ic *c21Issued
		if len(acc) > 0 && r.Intn(2) == 0 {
			ic = g.malleate(acc[r.Intn(len(acc))]) // a paid check with the twin signature: same check, must stay used
		} else {
			ic = g.malleate(g.fresh(g.farDue()))
		}
		return g.ok(ic, g.redeemer(ic.spec.Issuer), "twin-signature")
	}
}

func clampI(v, lo, hi int64) int64 {
	if v < lo {
		return lo
	}
	if v > hi {
		return hi
	}
	return v
}

// learn records the outcome for generation purposes.
func (g *c21Gen) learn(bz []byte, meta *TxMeta, code uint32) {
	n := c21ParseNote(meta)
	if n == nil || code != 0 {
		return
	}
	for _, ic := range g.checks {
		if ic.id == n.ID {
			ic.accepted = true
		}
	}
	if len(g.lastOK) < 20 {
		g.lastOK = append(g.lastOK, bz)
		g.lastM = append(g.lastM, *meta)
	} else {
		k := g.r.Intn(20)
		g.lastOK[k], g.lastM[k] = bz, *meta
	}
}

func (g *c21Gen) block(pOwn float64, maxTxs int) {
	d := g.d
	req := d.NextReq()
	n := 1 + g.r.Intn(maxTxs)
	d.S.RunBlock(req, nil, func(i int) ([]byte, TxMeta, bool) {
		if i > 0 {
			res := d.S.CurRes.Deliver[i-1]
			pm := d.S.Metas[i-1]
			d.G.Learn(&pm, res.Code, Tags(&res))
			g.learn(d.S.CurReq.Txs[i-1], &pm, res.Code)
		}
		if i >= n {
			return nil, TxMeta{}, false
		}
		if g.r.Float64() < pOwn {
			b, m := g.next()
			return b, m, true
		}
		b, m := d.G.Next()
		return b, m, true
	})
}

var c21Required = []string{
	"accepted",
	"must-reject-and-rejected/expired",
	"must-reject-and-rejected/already-redeemed",
	"must-reject-and-rejected/check-for-other-network",
	"must-reject-and-rejected/proof-for-another-address",
	"must-reject-and-rejected/proof-with-wrong-password",
	"must-reject-and-rejected/proof-not-made-with-password",
	"must-reject-and-rejected/gas-coin-differs-from-check",
	"must-reject-and-rejected/gas-price-not-1",
	"re-presented-after-restart/rejected-as-used",
	"re-presented-after-genesis-roundtrip/rejected-as-used",
}

func init() {
	mons := func(res *WorkerResult) []Monitor { return []Monitor{&MonChecks{Res: res, SideRuns: true}} }
	MonitorsFor["C21"] = mons
	Register(&CheckDef{
		ID: "C21", Level: "exploration",
		Rule: "generated histories (standard genesis families, background traffic of all transaction types) in which ~60% of the slots present checks the harness issued itself: fresh payable checks (any held coin, gas coin = base / same coin / bancor / pool-routed / unpayable, value 0, 1 pip, fraction, whole balance, balance+1, nonce 0..19 bytes, due in 0..100000 blocks), checks held until due-1/due/due+1/due+k, second redemptions of paid checks in the same block / later blocks by the same or another holder, the same transaction bytes again, checks issued already expired, checks for the other network, proofs made for another address (stolen), with a wrong or another check's password, with the issuer's key, random proofs, transaction gas coin != check gas coin, gas price > 1, twin (malleated) issuer signatures; redeemers are users, the issuer itself, multisig accounts and never-seen addresses. Oracle = sequential model of paid check identities + the statement's conditions evaluated on the harness's own data: an acceptance with any reason to reject is a violation (h > due; h = due is left open); an acceptance must move exactly value (coin) issuer->redeemer and the tagged fee (gas coin) from the issuer and nothing else (accessor snapshot of the whole universe around the DeliverTx; base-coin fee = price table); a rejection must not pay the redeemer; every paid identity must be in used_checks of every later export; at the end of a history all paid unexpired checks are presented again to an instance restarted from a copy of the stores and to a new chain started from the export, and must be answered 'already redeemed'. One evaluation = one presentation judged; distinct = (variant, reasons to reject, position relative to due, outcome), response code per reason, payment route classes",
		Assumptions: []string{
			"check identity = keccak(rlp(nonce, chain id, due block, coin, value, gas coin, lock)) computed by the harness (the issuer signature is not part of it: a twin signature is the same check)",
			"h = due block is not judged (statement 'before its due block' vs. documented 'last block in which the check can be used')",
			"the fee AMOUNT for non-base gas coins is taken from the tx.commission_amount tag (its correctness is C27's business); who pays it and in which coin is judged here",
			"failed redemption attempts charge the issuer the failed-transaction fee (allowed by C05's statement; C03/C26 judge it)",
		},
		Quick: 56, Thorough: 560, MinEval: 4000, MinDistinct: 60,
		Run: func(ctx *WorkCtx, idx int) {
			r := Rng(ctx.Seed, "C21", idx)
			sc := StdScenario(idx, r, 60)
			switch sc.Family {
			case "filler", "crowded": // nothing check-specific there, only slower exports
				sc = StdScenario(0, r, 60)
			}
			mon := &MonChecks{Res: ctx.Res, SideRuns: true}
			s, d := sc.Build("C21", ctx.Seed, idx, r, mon)
			d.G.SetWeight(tx.TypeRedeemCheck, 0)
			d.PByz = 0
			g := &c21Gen{s: s, d: d, r: Rng(ctx.Seed, "C21gen", idx), idx: idx}
			for b := 0; b < sc.Blocks && !s.Dead && !s.Stopped; b++ {
				g.block(0.6, 12)
			}
			ctx.Res.Count("blocks", s.H-s.W.InitialHeight+1)
			ctx.Res.Count("family/"+sc.Family, 1)
			s.Finish()
			ctx.Collect(s, idx)
		},
		Post: func(total *WorkerResult) {
			var missing []string
			for _, k := range c21Required {
				if total.Counters[k] == 0 {
					missing = append(missing, k)
				}
			}
			if len(missing) > 0 {
				total.Notes = append(total.Notes, fmt.Sprintf("required observations missing (evaluations zeroed so that the run is reported broken): %v", missing))
				total.Evaluations = 0
			}
		},
	})
}

package h

import (
	"crypto/sha256"
	"encoding/hex"
	"encoding/json"
	"fmt"
	"math/big"
	"sort"
	"strings"

	"github.com/MinterTeam/minter-go-node/coreV2/types"
)

// Flat is a normalised export: path -> scalar value.
type Flat map[string]string

func str(v interface{}) string {
	switch x := v.(type) {
	case string:
		return x
	case float64:
		return fmt.Sprintf("%.0f", x)
	case bool:
		if x {
			return "true"
		}
		return "false"
	case nil:
		return "null"
	}
	bz, _ := json.Marshal(v)
	return string(bz)
}

func elemKey(parent string, m map[string]interface{}, raw interface{}) string {
	g := func(k string) string { return str(m[k]) }
	switch parent {
	case "accounts":
		return g("address")
	case "balance":
		return g("coin")
	case "coins":
		return g("id")
	case "candidates", "validators":
		return g("public_key")
	case "stakes", "updates":
		return g("owner") + ":" + g("coin")
	case "pools":
		return g("coin0") + "-" + g("coin1")
	case "orders":
		return g("id")
	case "waitlist":
		return g("candidate_id") + ":" + g("owner") + ":" + g("coin")
	case "frozen_funds":
		return g("height") + ":" + g("address") + ":" + g("candidate_id") + ":" + g("coin") + ":" + g("move_to_candidate_id")
	case "deleted_candidates":
		return g("id")
	case "halt_blocks":
		return g("height") + ":" + g("candidate_key")
	case "update_votes":
		return g("height") + ":" + g("version")
	case "commission_votes":
		bz, _ := json.Marshal(m["commission"])
		s := sha256.Sum256(bz)
		return g("height") + ":" + hex.EncodeToString(s[:6])
	case "versions":
		return g("name") + ":" + g("height")
	}
	return ""
}

func flatten(prefix, name string, v interface{}, out Flat) {
	switch x := v.(type) {
	case map[string]interface{}:
		for k, c := range x {
			flatten(prefix+"/"+k, k, c, out)
		}
	case []interface{}:
		seen := map[string]int{}
		for i, c := range x {
			var key string
			if m, ok := c.(map[string]interface{}); ok {
				key = elemKey(name, m, c)
			} else if name == "votes" || name == "block_list_candidates" || name == "used_checks" || name == "addresses" {
				if name == "addresses" {
					key = fmt.Sprintf("%d", i) // order matters (weights are positional)
				} else {
					key = str(c)
				}
			}
			if key == "" {
				key = fmt.Sprintf("#%d", i)
			}
			seen[key]++
			if seen[key] > 1 {
				key = fmt.Sprintf("%s~%d", key, seen[key])
			}
			flatten(prefix+"["+key+"]", name, c, out)
		}
	default:
		out[prefix] = str(v)
	}
}

// Flatten normalises an export.
func Flatten(e *types.AppState) Flat {
	bz, err := json.Marshal(e)
	if err != nil {
		panic(err)
	}
	var v interface{}
	if err := json.Unmarshal(bz, &v); err != nil {
		panic(err)
	}
	out := Flat{}
	flatten("", "", v, out)
	return out
}

// DiffFlat returns the sorted list of differing paths (a vs b), at most max entries.
func DiffFlat(a, b Flat, max int) []string {
	var out []string
	for k, va := range a {
		if vb, ok := b[k]; !ok {
			out = append(out, fmt.Sprintf("%s: %s -> (absent)", k, va))
		} else if va != vb {
			out = append(out, fmt.Sprintf("%s: %s -> %s", k, va, vb))
		}
	}
	for k, vb := range b {
		if _, ok := a[k]; !ok {
			out = append(out, fmt.Sprintf("%s: (absent) -> %s", k, vb))
		}
	}
	sort.Strings(out)
	if max > 0 && len(out) > max {
		out = out[:max]
	}
	return out
}

// DiffExports compares two exports, ignoring the given path prefixes.
func DiffExports(a, b *types.AppState, max int, ignore ...string) []string {
	d := DiffFlat(Flatten(a), Flatten(b), 0)
	var out []string
	for _, l := range d {
		skip := false
		for _, ig := range ignore {
			if strings.HasPrefix(l, ig) {
				skip = true
			}
		}
		if !skip {
			out = append(out, l)
		}
	}
	if max > 0 && len(out) > max {
		out = out[:max]
	}
	return out
}

// Wealth is the reference ledger recomputed from an export (no node code involved).
type Wealth struct {
	// PerCoin[coin] = sum of all holdings of that coin (balances, stakes, updates, waitlist, frozen, pool reserves, order escrow)
	PerCoin map[uint64]*big.Int
	// BaseExtra = sum of bancor reserves + validators' accumulated rewards + total slashed
	BaseExtra *big.Int
	// Owner[(address,coin)] = sum of everything that belongs to address
	Owner map[OwnerCoin]*big.Int
	// Negative lists paths of negative amounts seen
	Negative []string
}

// OwnerCoin keys per-owner wealth.
type OwnerCoin struct {
	Addr types.Address
	Coin uint64
}

func (w *Wealth) add(coin uint64, v *big.Int, where string) {
	if v.Sign() < 0 {
		w.Negative = append(w.Negative, where+"="+v.String())
	}
	if w.PerCoin[coin] == nil {
		w.PerCoin[coin] = new(big.Int)
	}
	w.PerCoin[coin].Add(w.PerCoin[coin], v)
}

func (w *Wealth) own(a types.Address, coin uint64, v *big.Int) {
	k := OwnerCoin{a, coin}
	if w.Owner[k] == nil {
		w.Owner[k] = new(big.Int)
	}
	w.Owner[k].Add(w.Owner[k], v)
}

func parseAmount(s, where string, w *Wealth) *big.Int {
	v, ok := new(big.Int).SetString(s, 10)
	if !ok {
		w.Negative = append(w.Negative, where+"=unparsable:"+s)
		return new(big.Int)
	}
	return v
}

// ComputeWealth builds the ledger from an export.
func ComputeWealth(e *types.AppState) *Wealth {
	w := &Wealth{PerCoin: map[uint64]*big.Int{}, BaseExtra: new(big.Int), Owner: map[OwnerCoin]*big.Int{}}
	for _, a := range e.Accounts {
		for _, b := range a.Balance {
			v := parseAmount(b.Value, "balance/"+a.Address.String(), w)
			w.add(b.Coin, v, "balance/"+a.Address.String())
			w.own(a.Address, b.Coin, v)
		}
	}
	for _, c := range e.Candidates {
		for _, s := range c.Stakes {
			v := parseAmount(s.Value, "stake/"+c.PubKey.String(), w)
			w.add(s.Coin, v, "stake")
			w.own(s.Owner, s.Coin, v)
			if bv := parseAmount(s.BipValue, "stake.bip", w); bv.Sign() < 0 {
				w.Negative = append(w.Negative, "stake.bip_value="+bv.String())
			}
		}
		for _, s := range c.Updates {
			v := parseAmount(s.Value, "update/"+c.PubKey.String(), w)
			w.add(s.Coin, v, "update")
			w.own(s.Owner, s.Coin, v)
		}
		if tv := parseAmount(c.TotalBipStake, "candidate.total", w); tv.Sign() < 0 {
			w.Negative = append(w.Negative, "candidate.total_bip_stake="+tv.String())
		}
	}
	for _, x := range e.Waitlist {
		v := parseAmount(x.Value, "waitlist", w)
		w.add(x.Coin, v, "waitlist")
		w.own(x.Owner, x.Coin, v)
	}
	for _, f := range e.FrozenFunds {
		v := parseAmount(f.Value, "frozen", w)
		w.add(f.Coin, v, "frozen")
		w.own(f.Address, f.Coin, v)
	}
	for _, p := range e.Pools {
		r0, r1 := parseAmount(p.Reserve0, "pool.r0", w), parseAmount(p.Reserve1, "pool.r1", w)
		w.add(p.Coin0, r0, "pool.reserve0")
		w.add(p.Coin1, r1, "pool.reserve1")
		for _, o := range p.Orders {
			v0, v1 := parseAmount(o.Volume0, "order.v0", w), parseAmount(o.Volume1, "order.v1", w)
			if o.IsSale {
				w.add(p.Coin1, v1, "order.escrow")
				w.own(o.Owner, p.Coin1, v1)
			} else {
				w.add(p.Coin0, v0, "order.escrow")
				w.own(o.Owner, p.Coin0, v0)
			}
		}
	}
	for _, c := range e.Coins {
		if c.Crr > 0 {
			w.BaseExtra.Add(w.BaseExtra, parseAmount(c.Reserve, "coin.reserve", w))
		}
		if v := parseAmount(c.Volume, "coin.volume", w); v.Sign() < 0 {
			w.Negative = append(w.Negative, "coin.volume")
		}
	}
	for _, v := range e.Validators {
		w.BaseExtra.Add(w.BaseExtra, parseAmount(v.AccumReward, "validator.accum", w))
		parseAmount(v.TotalBipStake, "validator.total", w)
	}
	w.BaseExtra.Add(w.BaseExtra, parseAmount(e.TotalSlashed, "total_slashed", w))
	return w
}

// BaseTotal is the total base-coin value accounted for in an export.
func (w *Wealth) BaseTotal() *big.Int {
	t := new(big.Int).Set(w.BaseExtra)
	if w.PerCoin[0] != nil {
		t.Add(t, w.PerCoin[0])
	}
	return t
}

package h

func init() {
	mons := func(res *WorkerResult) []Monitor { return []Monitor{&MonSupply{Res: res}} }
	MonitorsFor["C01"] = mons
	Register(&CheckDef{
		ID: "C01", Level: "exploration",
		Rule: "generated histories (genesis family x state-aware txs of all 38 types x votes/evidence/time schedules); one evaluation = one committed height whose export was re-summed (every custom coin volume = holdings; base-coin total delta = emission delta); distinct = (tx type, response code) pairs and block kinds seen in checked blocks",
		Assumptions: []string{"Export() of the live state after Commit reflects committed state (cross-checked against a from-disk export every 7th block)", "Tendermint is replaced by a driver issuing the same ABCI calls"},
		Quick: 42, Thorough: 420, MinEval: 500, MinDistinct: 30,
		Run: func(ctx *WorkCtx, idx int) {
			r := Rng(ctx.Seed, "C01", idx)
			sc := StdScenario(idx, r, 120)
			s, d := sc.Build("C01", ctx.Seed, idx, r, mons(ctx.Res)...)
			s.DiskEvery = 7
			d.Run(sc.Blocks)
			ctx.Res.Count("blocks", s.H-s.W.InitialHeight+1)
			ctx.Res.Count("family/"+sc.Family, 1)
			ctx.Collect(s, idx)
			s.Finish()
		},
	})
	monsB := func(res *WorkerResult) []Monitor { return []Monitor{&MonBounds{Res: res}} }
	MonitorsFor["C02"] = monsB
	Register(&CheckDef{
		ID: "C02", Level: "exploration",
		Rule: "same history generator as C01 with boundary-heavy amounts (exact balance, balance+-1, zero, max supply); one evaluation = one committed height whose export and universe balances were checked for negatives, volume<=max supply, positive pool reserves; distinct = (tx type, code, kind) triples seen",
		Assumptions: []string{"balances hidden by the export (non-positive) are read through GetBalance for all exported accounts x coins"},
		Quick: 42, Thorough: 420, MinEval: 500, MinDistinct: 30,
		Run: func(ctx *WorkCtx, idx int) {
			r := Rng(ctx.Seed, "C02", idx)
			sc := StdScenario(idx, r, 120)
			s, d := sc.Build("C02", ctx.Seed, idx, r, monsB(ctx.Res)...)
			d.G.PBound = 0.45
			d.G.PInvalid = 0.1
			s.DiskEvery = 11
			d.Run(sc.Blocks)
			ctx.Res.Count("blocks", s.H-s.W.InitialHeight+1)
			ctx.Res.Count("family/"+sc.Family, 1)
			ctx.Collect(s, idx)
			s.Finish()
		},
	})
}

package h

// C14 (package level): limit orders execute at their price, in priority order, and refund exactly.
//
// An independent reference order book (c14Book) is fed only by what the harness itself did and by what
// the swap API returned (ids from PairAddOrder, fills from ChangeDetailsWithOrders, owner payments from
// the OrderDetail list, refunds from PairRemoveLimitOrder, balance credits and OrderExpiredEvents seen on
// the bus).  The real SwapV2 is driven through long interleavings of add / taker sell / taker buy /
// cancel / expire / commit / reload-from-disk and every observation is judged against the reference.

import (
	"fmt"
	"io"
	"log"
	"math"
	"math/big"
	"math/rand"
	"sort"
	"strings"

	"github.com/MinterTeam/minter-go-node/coreV2/events"
	"github.com/MinterTeam/minter-go-node/coreV2/state/bus"
	"github.com/MinterTeam/minter-go-node/coreV2/state/swap"
	"github.com/MinterTeam/minter-go-node/coreV2/types"
)

type c14Order struct {
	id                uint32
	owner             types.Address
	buyCoin, sellCoin types.CoinID
	side              int      // 0: owner buys the lower coin id (taker sells it), 1: owner buys the higher coin id
	wb0, ws0          *big.Int // as placed
	wb, ws            *big.Int // remaining according to the reference
	sold, bought      *big.Int // cumulative fills
	refunded          *big.Int
	height            uint64 // block passed to PairAddOrder
	fills             int
	closed            string  // "", filled, little, cancel, expired
	fT, fI            float64 // float64(ws/wb) (price for the taker), float64(wb/ws) of the remaining volumes
	fT0, fI0          float64 // the same for the volumes as placed
	how               string  // how its price was generated
}

func (o *c14Order) refloat() {
	if o.wb.Sign() > 0 && o.ws.Sign() > 0 {
		o.fT, _ = new(big.Rat).SetFrac(o.ws, o.wb).Float64()
		o.fI, _ = new(big.Rat).SetFrac(o.wb, o.ws).Float64()
	}
	if o.fT0 == 0 {
		o.fT0, _ = new(big.Rat).SetFrac(o.ws0, o.wb0).Float64()
		o.fI0, _ = new(big.Rat).SetFrac(o.wb0, o.ws0).Float64()
	}
}

// ratCmpPrice compares the exact taker prices ws/wb of a and b (remaining volumes).
func ratCmpPrice(a, b *c14Order) int {
	return new(big.Int).Mul(a.ws, b.wb).Cmp(new(big.Int).Mul(b.ws, a.wb))
}

// mustPrecede: the statement demands that u is consumed before f:
// u's price is better for the taker and the two are distinguishable at double precision (in the price and in its
// reciprocal, the two float representations an implementation can reasonably sort by), or the prices are exactly equal
// and u has the lower id.  Prices that differ exactly but coincide as float64 may be consumed in either order.
// "The price" of a partially filled order ("keeps its price", up to a unit of rounding) can be read as the ratio it was
// placed with or as the ratio of what is left of it, so such an order has a price interval [min,max] of the two and
// an order of consumption is demanded only if it holds for every choice; the tie rule (lower id first) is demanded
// only between orders that were never partially filled, where the price is unambiguous.
func mustPrecede(u, f *c14Order) bool {
	if u.fills == 0 && f.fills == 0 {
		return (u.fT > f.fT && u.fI < f.fI) || (u.fT == f.fT && u.id < f.id && ratCmpPrice(u, f) == 0)
	}
	return math.Min(u.fT, u.fT0) > math.Max(f.fT, f.fT0) && math.Max(u.fI, u.fI0) < math.Min(f.fI, f.fI0)
}

type c14 struct {
	ctx           *WorkCtx
	r             *rand.Rand
	b             *bareState
	log           *opLog
	nviol         int
	owners        []types.Address
	c0, c1        types.CoinID // c0 < c1
	all           map[uint32]*c14Order
	live          [2][]*c14Order
	closedIDs     []uint32
	forced        *c14Order // the next cancel() closes this order (massCancel)
	forceSide     int       // >= 0: the next trade() takes from this side
	block         uint64          // block being built (orders get this height); committed blocks = block-1
	lastCommitted map[uint32]bool // ids present on disk (added before the last commit)
	afterReload   bool
	maxDepth      int
	expirePeriod  uint64
	dead          bool // state unusable after a panic inside a mutating call
	prof          c14Profile
}

type c14Profile struct {
	depth       int // target number of live orders
	ops         int
	pMin        int // per mille of near-minimum sized orders
	pTie        int // per mille of adds re-using an existing price (tie / scaled / adjacent)
	commitEvery int
	noExpiry    bool // deep books: the orders must live long enough for the book to reach its depth
	reloadPm    int
}

func (c *c14) sw() *swap.SwapV2 { return c.b.St.SwapV2 }

func (c *c14) viol(rule, site, format string, a ...interface{}) {
	d := fmt.Sprintf(format, a...)
	if strings.Contains(d, hangMarker) {
		c.dead = true // the pair's lock is held by the call that never returned: abandon the case
	}
	pkgViol(c.ctx, c.log, &c.nviol, rule, site, d)
}

func init() {
	Register(&CheckDef{
		ID: "C14", Level: "exploration",
		Rule: "package level: one case = one order book on a bare state.State(SwapV2): pool 10^18..10^26 per side, target depth 5..300 live orders (thorough: up to 3000), 60..400 operations (thorough: up to 4000) interleaving add (sizes from the 10^10 minimum up; prices fresh in [pool/5,pool], exactly equal to an existing order, equal after scaling, or +-1..2 units at >=10^16 so that they are equal or adjacent in float64), taker sell / buy in both directions (random, book-scaled to end inside the k-th order, exact stop at an order's price or after k full orders +-1), cancel (live, uncommitted, closed, unknown ids), expiry after commit, commit, reload from disk; calls are issued only if the transaction layer's pre-check passes; one evaluation = one judged operation (add, trade, cancel, expiry, export comparison); reference book fed only by API results and bus observations; distinct = op kind x tie/adjacent/distinct price x full/partial/little-closure x warm/after-reload",
		Assumptions: []string{
			"taker pre-checks as transaction.CheckSwap (+ positive result), order acceptance as add_order.go (pool/5 <= price <= pool, both volumes >= 10^10), cancel pre-check as remove_limit_order.go (GetOrder != nil, !IsOrderAlreadyUsed); only-owner-may-cancel is a transaction-layer rule and is checked at node level",
			"ExpireOrders is called right after a commit (as BeginBlock does) with order heights non-decreasing in id (as a chain assigns them)",
			"'equal at double precision' is read as: equal in float64(price) or in float64(1/price); for such pairs with different exact prices either order is accepted",
			"per-fill price bound: one unit against the order's remaining ratio before the fill, and k units against the ratio as placed for its k-th fill (one unit of rounding per fill)",
		},
		Quick: 300, Thorough: 2400, MinEval: 15000, MinDistinct: 40,
		Run: runC14,
	})
}

func c14ProfileFor(r *rand.Rand, thorough bool, idx int) c14Profile {
	p := c14Profile{pMin: 350, pTie: 550, commitEvery: 4 + r.Intn(20), reloadPm: 300}
	switch k := r.Intn(100); {
	case k < 45:
		p.depth, p.ops = 5+r.Intn(25), 60+r.Intn(100)
	case k < 85:
		p.depth, p.ops = 30+r.Intn(60), 100+r.Intn(150)
	default:
		p.depth, p.ops = 150+r.Intn(150), 200+r.Intn(200)
	}
	if thorough {
		switch k := idx % 12; {
		case k == 0:
			p.depth = 2000 + r.Intn(1000)
			p.ops = p.depth*5/4 + 1000 + r.Intn(1000)
			p.noExpiry = true
		case k < 3:
			p.depth = 400 + r.Intn(800)
			p.ops = p.depth*5/4 + 500 + r.Intn(1000)
			p.noExpiry = r.Intn(2) == 0
		}
	}
	if r.Intn(4) == 0 {
		p.pMin = 800 // mostly dust-sized orders: many little-closures
	}
	if r.Intn(4) == 0 {
		p.pTie = 900 // a few price levels only
	}
	return p
}

func runC14(ctx *WorkCtx, idx int) {
	log.SetOutput(io.Discard)
	r := Rng(ctx.Seed, "C14", idx)
	c := &c14{ctx: ctx, r: r, b: newBareState(), log: &opLog{Prop: "C14", Seed: ctx.Seed, Idx: idx}, all: map[uint32]*c14Order{}, forceSide: -1, block: 1, lastCommitted: map[uint32]bool{}}
	for i := 0; i < 5; i++ {
		c.owners = append(c.owners, NewKey("c14-owner", i).Addr)
	}
	c.prof = c14ProfileFor(r, ctx.Thorough(), idx)
	c.expirePeriod = uint64(8 + r.Intn(40))
	if c.prof.noExpiry {
		c.expirePeriod = 1 << 40
	}
	c.c0 = types.CoinID(1 + r.Intn(50))
	c.c1 = c.c0 + types.CoinID(1+r.Intn(50))
	a0 := new(big.Int).Mul(RandLog(r, 8), pow10(18))
	a1 := new(big.Int).Mul(RandLog(r, 8), pow10(18))
	if pv, site := guarded(func() { c.sw().PairCreate(c.c0, c.c1, a0, a1) }); pv != nil {
		c.viol("panic", "PairCreate:"+site, "PairCreate(%s,%s): %v", a0, a1, pv)
		return
	}
	c.log.add("create", "c0", uint32(c.c0), "c1", uint32(c.c1), "a0", a0, "a1", a1, "depth", c.prof.depth, "ops", c.prof.ops)
	c.commit()
	for i := 0; i < c.prof.ops && !c.dead && c.nviol < 10; i++ {
		depth := len(c.live[0]) + len(c.live[1])
		pAdd := 250
		if depth < c.prof.depth {
			pAdd = 600
		}
		if depth < c.prof.depth/3 && i < c.prof.ops/2 || c.prof.noExpiry && depth < c.prof.depth*9/10 && i < c.prof.ops*3/4 {
			pAdd = 900
		}
		k := r.Intn(1000)
		switch {
		case (len(c.live[0]) >= 18 || len(c.live[1]) >= 18) && r.Intn(40) == 0:
			c.massCancel()
		case k < pAdd:
			c.add()
		case k < pAdd+(1000-pAdd)*55/100:
			c.trade()
		case k < pAdd+(1000-pAdd)*75/100:
			c.cancel()
		default:
			c.commit()
		}
		if d := len(c.live[0]) + len(c.live[1]); d > c.maxDepth {
			c.maxDepth = d
		}
	}
	if !c.dead {
		c.commit()
	}
	for _, t := range []int{10, 30, 100, 300, 1000, 2000} {
		if c.maxDepth >= t {
			ctx.Res.Count(fmt.Sprintf("books_with_depth>=%d", t), 1)
		}
	}
	ctx.Res.Count("books", 1)
	ctx.Res.Count("orders_placed", int64(len(c.all)))
}

// ---------------------------------------------------------------------------------------------

func (c *c14) reserves(a, b types.CoinID) (*big.Int, *big.Int) {
	r0, r1, _ := c.sw().SwapPool(a, b)
	return r0, r1
}

type balSnap map[string]*big.Int

func (c *c14) snap() balSnap {
	s := balSnap{}
	for i, o := range c.owners {
		for _, coin := range []types.CoinID{c.c0, c.c1} {
			s[fmt.Sprintf("%d/%d", i, coin)] = bcopy(c.b.St.Accounts.GetBalance(o, coin))
		}
	}
	return s
}

func (c *c14) ownerIdx(a types.Address) int {
	for i, o := range c.owners {
		if o == a {
			return i
		}
	}
	return -1
}

// expectation of bus side effects of one operation
type c14Refund struct {
	id     uint32
	owner  types.Address
	coin   types.CoinID
	amount *big.Int
}

// checkSideEffects compares balance deltas of all owners and the emitted OrderExpiredEvents with the expected refunds.
func (c *c14) checkSideEffects(op string, before balSnap, exp []c14Refund, wantEvents bool) {
	after := c.snap()
	want := map[string]*big.Int{}
	for _, e := range exp {
		k := fmt.Sprintf("%d/%d", c.ownerIdx(e.owner), e.coin)
		if want[k] == nil {
			want[k] = new(big.Int)
		}
		want[k].Add(want[k], e.amount)
	}
	for k, b := range before {
		d := new(big.Int).Sub(after[k], b)
		w := want[k]
		if w == nil {
			w = big0
		}
		if d.Cmp(w) != 0 {
			c.viol("refund-amount", op, "owner/coin %s: balance changed by %s, expected refunds sum to %s (refunds: %s)", k, d, w, c.fmtRefunds(exp))
		}
	}
	evs := c.b.Ev.take()
	got := map[uint32]*events.OrderExpiredEvent{}
	for _, e := range evs {
		if oe, ok := e.(*events.OrderExpiredEvent); ok {
			if _, dup := got[uint32(oe.ID)]; dup {
				c.viol("refund-twice", op, "two OrderExpiredEvents for order %d in one operation", oe.ID)
			}
			got[uint32(oe.ID)] = oe
		}
	}
	if !wantEvents {
		if len(got) > 0 {
			c.viol("refund-event", op, "unexpected OrderExpiredEvents: %d", len(got))
		}
		return
	}
	for _, e := range exp {
		oe := got[e.id]
		if oe == nil {
			c.viol("refund-event", op, "no OrderExpiredEvent for closed order %d (refund %s)", e.id, e.amount)
			continue
		}
		if oe.Address != e.owner || oe.Coin != uint64(e.coin) || oe.Amount != e.amount.String() {
			c.viol("refund-event", op, "OrderExpiredEvent of order %d says %s coin %d to %s, expected %s coin %d to %s", e.id, oe.Amount, oe.Coin, oe.Address.String(), e.amount, e.coin, e.owner.String())
		}
		delete(got, e.id)
	}
	for id := range got {
		c.viol("refund-event", op, "OrderExpiredEvent for order %d that the reference does not close", id)
	}
}

func (c *c14) fmtRefunds(exp []c14Refund) string {
	s := ""
	for i, e := range exp {
		if i > 5 {
			s += " ..."
			break
		}
		s += fmt.Sprintf(" #%d:%s", e.id, e.amount)
	}
	return s
}

// normalize the stored representation of an order: amount of Coin0 = WantBuy, amount of Coin1 = WantSell,
// the owner sells Coin1 unless IsBuy.
func normLimit(l *swap.Limit) (buyCoin, sellCoin types.CoinID, wb, ws *big.Int) {
	if l.IsBuy {
		return l.Coin1, l.Coin0, l.WantSell, l.WantBuy
	}
	return l.Coin0, l.Coin1, l.WantBuy, l.WantSell
}

// checkLive compares GetOrder(id) of the live state with the reference.
func (c *c14) checkLive(op string, o *c14Order) {
	var l *swap.Limit
	if pv, site := guarded(func() { l = c.sw().GetOrder(o.id) }); pv != nil {
		c.viol("panic", "GetOrder:"+site, "GetOrder(%d): %v", o.id, pv)
		return
	}
	if o.closed != "" {
		if l != nil {
			c.viol("book-mismatch", op+"/closed-order-visible", "order %d is closed (%s) in the reference but GetOrder returns buy %s sell %s", o.id, o.closed, l.WantBuy, l.WantSell)
		}
		return
	}
	if l == nil {
		if !c.lastCommitted[o.id] {
			return // GetOrder only sees orders that are on disk: an order placed in the current block is not visible yet
		}
		c.viol("book-mismatch", op+"/live-order-missing", "order %d is live in the reference (buy %s sell %s) but GetOrder returns nil", o.id, o.wb, o.ws)
		return
	}
	bc, sc, wb, ws := normLimit(l)
	if bc != o.buyCoin || sc != o.sellCoin || wb.Cmp(o.wb) != 0 || ws.Cmp(o.ws) != 0 || l.Owner != o.owner || l.Height != o.height {
		c.viol("book-mismatch", op+"/live-order-differs", "order %d: reference buy %s(coin %d) sell %s(coin %d) h=%d, GetOrder buy %s(coin %d) sell %s(coin %d) h=%d", o.id, o.wb, o.buyCoin, o.ws, o.sellCoin, o.height, wb, bc, ws, sc, l.Height)
	}
}

func (c *c14) removeLive(o *c14Order) {
	l := c.live[o.side]
	for i, x := range l {
		if x == o {
			c.live[o.side] = append(l[:i], l[i+1:]...)
			break
		}
	}
	c.closedIDs = append(c.closedIDs, o.id)
}

// sortedSide returns the live orders of a side best-first according to the reference (float price, then id).
func (c *c14) sortedSide(side int) []*c14Order {
	l := append([]*c14Order{}, c.live[side]...)
	sort.Slice(l, func(i, j int) bool {
		if l[i].fT != l[j].fT {
			return l[i].fT > l[j].fT
		}
		return l[i].id < l[j].id
	})
	return l
}

// ---------------------------------------------------------------------------------------------
// add
// ---------------------------------------------------------------------------------------------

func (c *c14) add() {
	r := c.r
	side := r.Intn(2)
	buyCoin, sellCoin := c.c0, c.c1
	if side == 1 {
		buyCoin, sellCoin = c.c1, c.c0
	}
	rb, rs := c.reserves(buyCoin, sellCoin)
	var wb, ws *big.Int
	how := "fresh"
	if len(c.live[side]) > 0 && r.Intn(1000) < c.prof.pTie {
		ref := c.live[side][r.Intn(len(c.live[side]))]
		switch r.Intn(4) {
		case 0: // identical volumes
			wb, ws, how = bcopy(ref.wb), bcopy(ref.ws), "tie"
		case 1: // same exact price, other size
			g := new(big.Int).GCD(nil, nil, ref.wb, ref.ws)
			ub, us := new(big.Int).Div(ref.wb, g), new(big.Int).Div(ref.ws, g)
			m := new(big.Int).Add(RandBig(r, new(big.Int).Mul(g, big.NewInt(3))), big1)
			wb, ws, how = ub.Mul(ub, m), us.Mul(us, m), "scaled"
		default: // +-1..2 units at >= 10^16: equal or adjacent in float64, different exactly
			k := big.NewInt(1)
			lim := pow10(16)
			small := ref.ws
			if ref.wb.Cmp(small) < 0 {
				small = ref.wb
			}
			if small.Cmp(lim) < 0 {
				k = new(big.Int).Add(new(big.Int).Div(lim, small), big1)
			}
			wb, ws, how = new(big.Int).Mul(ref.wb, k), new(big.Int).Mul(ref.ws, k), "adjacent"
			d := big.NewInt(int64(1 + r.Intn(2)))
			if r.Intn(2) == 0 {
				d.Neg(d)
			}
			if r.Intn(2) == 0 {
				ws.Add(ws, d)
			} else {
				wb.Add(wb, d)
			}
		}
	}
	if wb == nil {
		if r.Intn(1000) < c.prof.pMin {
			wb = new(big.Int).Add(bigMinVol, RandBig(r, new(big.Int).Mul(bigMinVol, big.NewInt(3))))
		} else {
			hi := new(big.Int).Div(rb, big.NewInt(int64(5+r.Intn(200))))
			wb = new(big.Int).Add(bigMinVol, RandLog(r, len(hi.String())))
		}
		f := int64(220 + r.Intn(775))
		ws = new(big.Int).Mul(wb, rs)
		ws.Mul(ws, big.NewInt(f))
		ws.Div(ws, new(big.Int).Mul(rb, big.NewInt(1000)))
		if ws.Cmp(bigMinVol) < 0 { // price so low that the sell side is dust: size it from the sell side
			ws = new(big.Int).Add(bigMinVol, RandBig(r, new(big.Int).Mul(bigMinVol, big.NewInt(3))))
			wb = new(big.Int).Mul(ws, rb)
			wb.Mul(wb, big.NewInt(1000))
			wb.Div(wb, new(big.Int).Mul(rs, big.NewInt(f)))
			wb.Add(wb, big1)
		}
	}
	// acceptance rule of the transaction layer
	ok := wb.Cmp(bigMinVol) >= 0 && ws.Cmp(bigMinVol) >= 0 && wb.Cmp(bigMaxCoin) <= 0 && ws.Cmp(bigMaxCoin) <= 0
	if ok {
		lhs := new(big.Int).Mul(ws, rb)
		rhs := new(big.Int).Mul(wb, rs)
		ok = lhs.Cmp(rhs) <= 0 && new(big.Int).Mul(lhs, big.NewInt(5)).Cmp(rhs) >= 0
	}
	if !ok {
		c.ctx.Res.Count("adds_rejected_by_precheck", 1)
		return
	}
	owner := c.owners[r.Intn(len(c.owners))]
	before := c.snap()
	c.b.Ev.take()
	var id uint32
	if pv, site := guarded(func() { id, _ = c.sw().PairAddOrder(buyCoin, sellCoin, bcopy(wb), bcopy(ws), owner, c.block) }); pv != nil {
		c.log.add("add-panic", "buyCoin", uint32(buyCoin), "wb", wb, "ws", ws)
		c.viol("panic-after-precheck", "PairAddOrder:"+site, "PairAddOrder(buy %s coin %d, sell %s coin %d): %v", wb, buyCoin, ws, sellCoin, pv)
		c.dead = true
		return
	}
	c.ctx.Res.Evaluations++
	c.log.add("add", "id", id, "side", side, "wb", wb, "ws", ws, "owner", c.ownerIdx(owner), "h", c.block, "how", how)
	if old, dup := c.all[id]; dup || id == 0 {
		c.viol("order-id", "PairAddOrder", "PairAddOrder returned id %d which is zero or already used (%v)", id, old != nil)
		return
	}
	for oid := range c.all {
		if oid > id {
			c.viol("order-id", "PairAddOrder", "PairAddOrder returned id %d below the already issued id %d", id, oid)
			break
		}
	}
	o := &c14Order{id: id, owner: owner, buyCoin: buyCoin, sellCoin: sellCoin, side: side, wb0: bcopy(wb), ws0: bcopy(ws), wb: bcopy(wb), ws: bcopy(ws),
		sold: new(big.Int), bought: new(big.Int), refunded: new(big.Int), height: c.block, how: how}
	o.refloat()
	c.all[id] = o
	c.live[side] = append(c.live[side], o)
	c.checkSideEffects("add", before, nil, false)
	c.ctx.Res.Seen(fmt.Sprintf("add/%s/side%d/%s", how, side, c.warm()))
}

func (c *c14) warm() string {
	if c.afterReload {
		return "after-reload"
	}
	return "warm"
}

// ---------------------------------------------------------------------------------------------
// taker trades
// ---------------------------------------------------------------------------------------------

func com1000(x *big.Int) *big.Int { // ceil(x/1000): what the harness expects a taker to pay on top per filled order
	q, m := new(big.Int).QuoRem(x, big.NewInt(1000), new(big.Int))
	if m.Sign() > 0 {
		q.Add(q, big1)
	}
	return q
}

func (c *c14) tradeAmount(sell bool, side int, cin, cout types.CoinID) (*big.Int, string) {
	r := c.r
	rin, rout := c.reserves(cin, cout)
	res := rout
	if sell {
		res = rin
	}
	book := c.sortedSide(side)
	mode := r.Intn(10)
	if len(book) == 0 || mode < 3 {
		switch r.Intn(4) {
		case 0:
			return new(big.Int).Add(RandLog(r, 12), big1), "rand"
		case 1:
			return new(big.Int).Add(RandBig(r, new(big.Int).Mul(res, big.NewInt(2))), big1), "rand"
		default:
			return new(big.Int).Add(RandLog(r, len(res.String())), big1), "rand"
		}
	}
	// amount needed to move the pool to the best order's price (as the package computes it; only a generator)
	d0, d1 := new(big.Int), new(big.Int)
	best := book[0]
	pair := c.sw().GetSwapper(cin, cout)
	guarded(func() {
		p := new(big.Float).SetPrec(53).SetRat(new(big.Rat).SetFrac(best.ws, best.wb))
		if pair.Price().Cmp(p) == 1 {
			if x0, x1 := pair.CalculateAddAmountsForPrice(p); x0 != nil && x1 != nil {
				d0, d1 = x0, x1
			}
		}
	})
	k := 0
	if mode >= 6 {
		k = r.Intn(6)
		if r.Intn(5) == 0 {
			k = r.Intn(40)
		}
	}
	if k > len(book) {
		k = len(book)
	}
	needIn, needOut := bcopy(d0), bcopy(d1)
	for i := 0; i < k; i++ {
		needIn.Add(needIn, book[i].wb)
		needIn.Add(needIn, com1000(book[i].wb))
		needOut.Add(needOut, book[i].ws)
		needOut.Sub(needOut, com1000(book[i].ws))
	}
	kind := fmt.Sprintf("exact-stop")
	if mode == 3 || mode == 4 || mode == 6 || mode == 7 {
		// end inside the next order
		kind = "book-scaled"
		if k < len(book) {
			nx := book[k]
			var part *big.Int
			switch r.Intn(3) {
			case 0: // leave a dust remainder
				part = new(big.Int).Sub(nx.wb, RandBig(r, new(big.Int).Mul(bigMinVol, big.NewInt(2))))
				if part.Sign() <= 0 {
					part = bcopy(nx.wb)
				}
			default:
				part = new(big.Int).Add(RandBig(r, nx.wb), big1)
			}
			needIn.Add(needIn, part)
			needIn.Add(needIn, com1000(part))
			po := new(big.Int).Div(new(big.Int).Mul(part, nx.ws), nx.wb)
			needOut.Add(needOut, po)
			needOut.Sub(needOut, com1000(po))
		}
	}
	var amt *big.Int
	if sell {
		// gross x with x - ceil(x/1000) = needIn
		amt = new(big.Int).Div(new(big.Int).Mul(needIn, big.NewInt(1000)), big.NewInt(999))
	} else {
		amt = needOut
	}
	if kind == "exact-stop" {
		amt.Add(amt, big.NewInt(int64(r.Intn(5)-2)))
	}
	if amt.Sign() <= 0 {
		amt = big.NewInt(int64(1 + r.Intn(100)))
	}
	return amt, kind
}

func (c *c14) trade() {
	r := c.r
	sell := r.Intn(2) == 0
	side := r.Intn(2)
	if len(c.live[side]) == 0 && len(c.live[1-side]) > 0 && r.Intn(4) != 0 {
		side = 1 - side
	}
	if c.forceSide >= 0 {
		side, c.forceSide = c.forceSide, -1
	}
	// orders of side s buy coin (s==0 ? c0 : c1): the taker sells that coin
	cin, cout := c.c0, c.c1
	if side == 1 {
		cin, cout = c.c1, c.c0
	}
	op := "buy"
	if sell {
		op = "sell"
	}
	amt, kind := c.tradeAmount(sell, side, cin, cout)
	if amt.Cmp(bigMaxCoin) > 0 {
		amt.Set(bigMaxCoin)
	}
	sw := c.sw()
	pair := sw.GetSwapper(cin, cout)
	var pre *big.Int
	if pv, site := guarded(func() {
		if sell {
			pre, _ = pair.CalculateBuyForSellWithOrders(bcopy(amt))
		} else {
			pre, _ = pair.CalculateSellForBuyWithOrders(bcopy(amt))
		}
	}); pv != nil {
		c.log.add(op+"-precheck-panic", "side", side, "amount", amt)
		c.viol("panic", "precheck/"+op+":"+site, "pre-check of %s %s on side %d: %v", op, amt, side, pv)
		c.dead = true
		return
	}
	if pre == nil || pre.Sign() <= 0 || (!sell && pre.Cmp(bigMaxCoin) > 0) {
		c.ctx.Res.Count(op+"_rejected_by_precheck", 1)
		return
	}
	rin, rout := c.reserves(cin, cout)
	before := c.snap()
	c.b.Ev.take()
	c.log.add(op, "side", side, "cin", uint32(cin), "cout", uint32(cout), "amount", amt, "kind", kind, "rin", rin, "rout", rout, "live", len(c.live[side]))
	var det *swap.ChangeDetailsWithOrders
	var owners []*swap.OrderDetail
	if pv, site := guarded(func() {
		if sell {
			_, _, _, det, owners = sw.PairSellWithOrders(cin, cout, bcopy(amt), big.NewInt(0))
		} else {
			_, _, _, det, owners = sw.PairBuyWithOrders(cin, cout, bcopy(bigMaxCoin), bcopy(amt))
		}
	}); pv != nil {
		c.viol("panic-after-precheck", op+":"+site, "%s %s (coin %d->%d, reserves %s,%s, %d live orders on the side) panicked after the pre-check passed: %v", op, amt, cin, cout, rin, rout, len(c.live[side]), pv)
		c.dead = true
		return
	}
	c.ctx.Res.Evaluations++
	c.judgeTrade(op, kind, side, det, owners, before)
}

type c14Fill struct {
	o      *c14Order
	fb, fs *big.Int
}

func (c *c14) judgeTrade(op, kind string, side int, det *swap.ChangeDetailsWithOrders, owners []*swap.OrderDetail, before balSnap) {
	var fills []c14Fill
	seen := map[uint32]bool{}
	fillLog := []string{}
	for _, l := range det.Orders {
		fillLog = append(fillLog, fmt.Sprintf("%d:%s/%s", l.ID(), l.WantBuy, l.WantSell))
	}
	c.log.add("fills", "list", fillLog)
	bad := false
	for _, l := range det.Orders {
		id := l.ID()
		o := c.all[id]
		if o == nil || o.closed != "" || o.side != side {
			st := "unknown"
			if o != nil {
				st = "closed:" + o.closed
				if o.closed == "" {
					st = "other side"
				}
			}
			c.viol("fill-dead-order", op, "trade filled order %d (buy %s sell %s) which is %s in the reference", id, l.WantBuy, l.WantSell, st)
			bad = true
			continue
		}
		if seen[id] {
			n := 0
			for _, x := range det.Orders {
				if x.ID() == id {
					n++
				}
			}
			c.viol("fill-twice", op, "order %d appears %d times in the %d fills of one trade", id, n, len(det.Orders))
			c.dead = true // the book of the code under test is corrupt from here on
			return
		}
		seen[id] = true
		if l.Owner != o.owner {
			c.viol("fill-owner", op, "fill of order %d names owner %s, placed by %s", id, l.Owner.String(), o.owner.String())
		}
		if l.WantBuy.Sign() < 0 || l.WantSell.Sign() < 0 || l.WantBuy.Cmp(o.wb) > 0 || l.WantSell.Cmp(o.ws) > 0 {
			c.viol("overfill", op, "order %d has buy %s sell %s left but the fill is buy %s sell %s", id, o.wb, o.ws, l.WantBuy, l.WantSell)
			bad = true
			continue
		}
		fills = append(fills, c14Fill{o, bcopy(l.WantBuy), bcopy(l.WantSell)})
	}
	// (1) priority: the filled ids are a prefix of the book order
	real := fills[:0:0]
	for _, f := range fills {
		if f.fb.Sign() == 0 && f.fs.Sign() == 0 {
			c.ctx.Res.Count("zero_fills", 1)
			continue
		}
		real = append(real, f)
	}
	fills = real
	for i := range fills {
		for j := i + 1; j < len(fills); j++ {
			if mustPrecede(fills[j].o, fills[i].o) {
				a, b := fills[i].o, fills[j].o
				c.viol("priority", op+"/fill-sequence", "order %d (buy %s sell %s, price %.17g) was consumed before order %d (buy %s sell %s, price %.17g)", a.id, a.wb, a.ws, a.fT, b.id, b.wb, b.ws, b.fT)
			}
		}
	}
	if len(fills) > 0 {
		for _, u := range c.live[side] {
			if seen[u.id] {
				continue
			}
			for _, f := range fills {
				if mustPrecede(u, f.o) {
					c.viol("priority", op+"/skipped-order", "order %d (buy %s sell %s, price %.17g, h=%d, %s) was skipped while order %d (buy %s sell %s, price %.17g) was filled; %s", u.id, u.wb, u.ws, u.fT, u.height, u.how, f.o.id, f.o.wb, f.o.ws, f.o.fT, c.warm())
					bad = true
					break
				}
			}
			if bad {
				break
			}
		}
	}
	// (1b) every filled order but the last is filled completely
	for i, f := range fills {
		if i < len(fills)-1 && (f.fb.Cmp(f.o.wb) != 0 || f.fs.Cmp(f.o.ws) != 0) {
			c.viol("partial-not-last", op, "order %d (buy %s sell %s) was filled only buy %s sell %s although %d more orders were filled after it", f.o.id, f.o.wb, f.o.ws, f.fb, f.fs, len(fills)-1-i)
		}
	}
	// price class of the fills for the evidence
	var refunds []c14Refund
	wantPay := map[types.Address]*big.Int{}
	for _, f := range fills {
		o := f.o
		pclass := c.priceClass(o, side)
		// (2) the owner gets at least its price, up to one unit of rounding: against the remaining ratio before the fill,
		// and up to k units against the ratio as placed (k-th fill)
		o.fills++
		if !priceOK(f.fb, f.fs, o.wb, o.ws, 1) {
			c.viol("fill-price", op+"/current-ratio", "order %d with buy %s sell %s left was filled buy %s sell %s: worse for the owner than its price by more than one unit", o.id, o.wb, o.ws, f.fb, f.fs)
		}
		if !priceOK(f.fb, f.fs, o.wb0, o.ws0, int64(o.fills)) {
			c.viol("fill-price", op+"/placed-ratio", "order %d placed as buy %s sell %s, fill no. %d is buy %s sell %s: worse for the owner than its price by more than %d units", o.id, o.wb0, o.ws0, o.fills, f.fb, f.fs, o.fills)
		}
		nwb, nws := new(big.Int).Sub(o.wb, f.fb), new(big.Int).Sub(o.ws, f.fs)
		fclass := "full"
		switch {
		case nwb.Sign() == 0 && nws.Sign() == 0:
			o.closed = "filled"
		case nwb.Sign() == 0 || nws.Sign() == 0:
			c.viol("half-empty", op, "order %d (buy %s sell %s) filled buy %s sell %s: one side exhausted, the other not", o.id, o.wb, o.ws, f.fb, f.fs)
			o.closed = "filled"
		case nwb.Cmp(bigMinVol) < 0 || nws.Cmp(bigMinVol) < 0:
			// (4) remainder below the minimum: closed in the same operation, remaining sell volume refunded
			fclass = "little"
			o.closed = "little"
			o.refunded.Add(o.refunded, nws)
			refunds = append(refunds, c14Refund{o.id, o.owner, o.sellCoin, bcopy(nws)})
		default:
			fclass = "partial"
			// (3) a partially filled order keeps its price up to one unit
			if !ratioKept(nwb, nws, o.wb, o.ws, 1) {
				c.viol("partial-ratio", op+"/current-ratio", "order %d: buy %s sell %s before, buy %s sell %s after a partial fill: ratio changed by more than one unit", o.id, o.wb, o.ws, nwb, nws)
			}
			if !ratioKept(nwb, nws, o.wb0, o.ws0, int64(o.fills)) {
				c.viol("partial-ratio", op+"/placed-ratio", "order %d placed as buy %s sell %s has buy %s sell %s left after %d fills: ratio drifted by more than %d units", o.id, o.wb0, o.ws0, nwb, nws, o.fills, o.fills)
			}
		}
		o.sold.Add(o.sold, f.fs)
		o.bought.Add(o.bought, f.fb)
		if wantPay[o.owner] == nil {
			wantPay[o.owner] = new(big.Int)
		}
		wantPay[o.owner].Add(wantPay[o.owner], f.fb)
		o.wb, o.ws = nwb, nws
		if o.closed != "" {
			c.removeLive(o)
			// conservation per order
			if new(big.Int).Add(o.sold, o.refunded).Cmp(o.ws0) != 0 {
				c.viol("conservation", op, "order %d: sold %s + refunded %s != placed sell volume %s", o.id, o.sold, o.refunded, o.ws0)
			}
		} else {
			o.refloat()
		}
		c.ctx.Res.Seen(fmt.Sprintf("%s/%s/%s/%s", op, pclass, fclass, c.warm()))
		c.ctx.Res.Count("fills_judged", 1)
		c.ctx.Res.Count("fills_"+fclass, 1)
	}
	if len(fills) == 0 {
		c.ctx.Res.Seen(fmt.Sprintf("%s/nofill/%s/%s", op, kind, c.warm()))
	} else {
		c.ctx.Res.Seen(fmt.Sprintf("%s/filled/%s/%s", op, kind, c.warm()))
	}
	// owner payments reported to the transaction layer = sum of the fills' buy volumes
	gotPay := map[types.Address]*big.Int{}
	for _, od := range owners {
		if gotPay[od.Owner] != nil {
			c.viol("owner-payment", op, "owner %s listed twice", od.Owner.String())
		}
		gotPay[od.Owner] = od.ValueBigInt
	}
	if !bad {
		for a, w := range wantPay {
			g := gotPay[a]
			if w.Sign() == 0 && g == nil {
				continue
			}
			if g == nil || g.Cmp(w) != 0 {
				c.viol("owner-payment", op, "owner %s must be paid %s for its fills, payment list says %s", a.String(), w, bstr(g))
			}
		}
		for a, g := range gotPay {
			if wantPay[a] == nil && g.Sign() != 0 {
				c.viol("owner-payment", op, "owner %s is paid %s without a fill", a.String(), g)
			}
		}
	}
	c.checkSideEffects(op, before, refunds, true)
	for _, f := range fills {
		c.checkLive(op, f.o)
	}
	// (1c) best price first also means: the pool is not traded THROUGH an order that stays in the book. Orders are accepted
	// only at or beyond the pool price and a trade that reaches an order's price has to take from the order, so afterwards the
	// pool rate (coin given per coin taken in) is still at least every live order's rate of this side. 0.5 % covers the pool
	// fee and rounding (lead: added after seed C14-m3, where a trade passed over the whole book without filling anything).
	bc, sc := c.c0, c.c1
	if side == 1 {
		bc, sc = c.c1, c.c0
	}
	rb2, rs2 := c.reserves(bc, sc)
	for _, u := range c.live[side] {
		if u.wb.Sign() <= 0 || u.ws.Sign() <= 0 {
			continue
		}
		l := new(big.Int).Mul(new(big.Int).Mul(u.ws, rb2), big.NewInt(1000))
		r := new(big.Int).Mul(new(big.Int).Mul(u.wb, rs2), big.NewInt(1005))
		if l.Cmp(r) > 0 {
			c.viol("priority", op+"/pool-traded-through-order", "after the trade the pool holds %s / %s (rate %.9g) but order %d (buy %s sell %s, rate %.9g) is still in the book; %d orders were filled", rs2, rb2, ratF(rs2, rb2), u.id, u.wb, u.ws, ratF(u.ws, u.wb), len(fills))
			break
		}
	}
	c.spotCheck(op)
}

func ratF(a, b *big.Int) float64 {
	if b.Sign() == 0 {
		return 0
	}
	f, _ := new(big.Rat).SetFrac(a, b).Float64()
	return f
}

// priceOK: the owner receives fb and releases fs at price wb/ws (buy per sell) or better, up to tol units on either amount.
func priceOK(fb, fs, wb, ws *big.Int, tol int64) bool {
	t := big.NewInt(tol)
	// (fb + tol) * ws >= fs * wb   or   fb * ws >= (fs - tol) * wb
	l := new(big.Int).Mul(new(big.Int).Add(fb, t), ws)
	if l.Cmp(new(big.Int).Mul(fs, wb)) >= 0 {
		return true
	}
	l = new(big.Int).Mul(fb, ws)
	return l.Cmp(new(big.Int).Mul(new(big.Int).Sub(fs, t), wb)) >= 0
}

// ratioKept: nwb/nws equals wb/ws up to tol units on either amount.
func ratioKept(nwb, nws, wb, ws *big.Int, tol int64) bool {
	x := new(big.Int).Sub(new(big.Int).Mul(nwb, ws), new(big.Int).Mul(nws, wb))
	x.Abs(x)
	m := wb
	if ws.Cmp(m) > 0 {
		m = ws
	}
	return x.Cmp(new(big.Int).Mul(m, big.NewInt(tol))) <= 0
}

// priceClass: relation of the price of o to the other live orders of its side.
func (c *c14) priceClass(o *c14Order, side int) string {
	cl := "distinct"
	for _, u := range c.live[side] {
		if u == o {
			continue
		}
		if u.fT == o.fT || u.fI == o.fI {
			if ratCmpPrice(u, o) == 0 {
				return "tie"
			}
			cl = "adjacent"
		} else if cl == "distinct" && (math.Nextafter(u.fT, o.fT) == o.fT) {
			cl = "adjacent"
		}
	}
	return cl
}

// spotCheck looks at a few random orders (live and closed) through GetOrder.
func (c *c14) spotCheck(op string) {
	for k := 0; k < 2; k++ {
		s := c.r.Intn(2)
		if n := len(c.live[s]); n > 0 {
			c.checkLive(op+"/spot", c.live[s][c.r.Intn(n)])
		}
	}
	if n := len(c.closedIDs); n > 0 {
		c.checkLive(op+"/spot", c.all[c.closedIDs[c.r.Intn(n)]])
	}
}

// ---------------------------------------------------------------------------------------------
// cancel
// ---------------------------------------------------------------------------------------------

// massCancel closes the best 12-26 orders of the deeper side one by one without a commit in between and trades right after
// (lead: added after seed C14-m3: a whole page of the on-disk order index closed inside one block).
func (c *c14) massCancel() {
	s := 0
	if len(c.live[1]) > len(c.live[0]) {
		s = 1
	}
	if c.r.Intn(2) == 0 {
		c.commit() // all of them on disk: the closings then empty whole pages of the on-disk index
	}
	best := c.sortedSide(s)
	n := 12 + c.r.Intn(15)
	if n > len(best) {
		n = len(best)
	}
	for _, o := range best[:n] {
		if c.dead {
			return
		}
		c.forced = o
		c.cancel()
	}
	c.ctx.Res.Count("mass_cancels", 1)
	c.ctx.Res.Seen(fmt.Sprintf("mass cancel of %d best orders inside one block, then a trade", n/4*4))
	if !c.dead {
		c.forceSide = s
		c.trade()
	}
}

func (c *c14) cancel() {
	r := c.r
	var o *c14Order
	var id uint32
	kind := ""
	switch k := r.Intn(10); {
	case c.forced != nil:
		o, c.forced = c.forced, nil
		id = o.id
		kind = "live"
		if !c.lastCommitted[id] {
			kind = "uncommitted"
		}
	case k < 7:
		s := r.Intn(2)
		if len(c.live[s]) == 0 {
			s = 1 - s
		}
		if len(c.live[s]) == 0 {
			return
		}
		o = c.live[s][r.Intn(len(c.live[s]))]
		id = o.id
		kind = "live"
		if !c.lastCommitted[id] {
			kind = "uncommitted"
		}
	case k < 9:
		if len(c.closedIDs) == 0 {
			return
		}
		id = c.closedIDs[r.Intn(len(c.closedIDs))]
		o = c.all[id]
		kind = "closed"
	default:
		id = uint32(len(c.all) + 1000 + r.Intn(1000))
		kind = "unknown"
	}
	sw := c.sw()
	// pre-check of remove_limit_order.go
	var pass bool
	var lim *swap.Limit
	if pv, site := guarded(func() {
		lim = sw.GetOrder(id)
		pass = lim != nil && !sw.GetSwapper(lim.Coin0, lim.Coin1).IsOrderAlreadyUsed(id)
	}); pv != nil {
		c.viol("panic", "precheck/cancel:"+site, "cancel pre-check of order %d (%s): %v", id, kind, pv)
		c.dead = true
		return
	}
	bypass := false
	switch kind {
	case "live":
		if !pass {
			c.viol("cancel-rejected", "precheck", "live committed order %d (buy %s sell %s) cannot be cancelled: GetOrder nil=%v", id, o.wb, o.ws, lim == nil)
			return
		}
	case "uncommitted":
		if !pass {
			c.ctx.Res.Count("cancel_uncommitted_rejected", 1)
			c.ctx.Res.Seen("cancel/uncommitted-rejected/" + c.warm())
			return
		}
	case "closed", "unknown":
		if pass {
			c.viol("cancel-twice", "precheck", "%s order %d passes the cancel pre-check (GetOrder gives buy %s sell %s)", kind, id, lim.WantBuy, lim.WantSell)
		} else if r.Intn(2) == 0 {
			return
		} else {
			bypass = true // call the package function anyway: it must refund nothing
		}
	}
	if pass && o != nil && lim.Owner != o.owner {
		c.viol("cancel-owner", "precheck", "GetOrder(%d) names owner %s, placed by %s", id, lim.Owner.String(), o.owner.String())
	}
	before := c.snap()
	c.b.Ev.take()
	var coin types.CoinID
	var vol *big.Int
	if pv, site := guarded(func() { coin, vol = sw.PairRemoveLimitOrder(id) }); pv != nil {
		c.viol("panic-after-precheck", "PairRemoveLimitOrder:"+site, "PairRemoveLimitOrder(%d) (%s, bypass=%v): %v", id, kind, bypass, pv)
		c.dead = true
		return
	}
	c.ctx.Res.Evaluations++
	c.log.add("cancel", "id", id, "kind", kind, "bypass", bypass, "coin", uint32(coin), "refund", vol)
	if o == nil || o.closed != "" {
		if vol.Sign() != 0 {
			c.viol("cancel-twice", "PairRemoveLimitOrder", "%s order %d refunded %s of coin %d again", kind, id, vol, coin)
		}
		c.checkSideEffects("cancel", before, nil, false)
		c.ctx.Res.Seen("cancel/" + kind + "/" + c.warm())
		return
	}
	if vol.Cmp(o.ws) != 0 || (vol.Sign() != 0 && coin != o.sellCoin) {
		c.viol("refund-amount", "cancel", "cancel of order %d (placed buy %s sell %s, sold so far %s, left sell %s of coin %d) returned %s of coin %d", id, o.wb0, o.ws0, o.sold, o.ws, o.sellCoin, vol, coin)
	}
	// whatever came back is gone from the book now
	o.refunded.Add(o.refunded, vol)
	o.closed = "cancel"
	o.wb, o.ws = new(big.Int), new(big.Int)
	c.removeLive(o)
	if new(big.Int).Add(o.sold, o.refunded).Cmp(o.ws0) != 0 {
		c.viol("conservation", "cancel", "order %d: sold %s + refunded %s != placed sell volume %s", o.id, o.sold, o.refunded, o.ws0)
	}
	c.checkSideEffects("cancel", before, nil, false) // the refund is credited by the transaction layer, not by the package
	c.checkLive("cancel", o)
	// a second cancel right away must give nothing
	if r.Intn(3) == 0 {
		var v2 *big.Int
		if pv, site := guarded(func() { _, v2 = sw.PairRemoveLimitOrder(id) }); pv != nil {
			c.viol("panic", "PairRemoveLimitOrder:"+site, "second PairRemoveLimitOrder(%d): %v", id, pv)
			c.dead = true
			return
		}
		if v2.Sign() != 0 {
			c.viol("cancel-twice", "PairRemoveLimitOrder", "second cancel of order %d refunded %s again", id, v2)
		}
	}
	c.ctx.Res.Seen("cancel/" + kind + "/" + c.warm())
	c.spotCheck("cancel")
}

// ---------------------------------------------------------------------------------------------
// commit, export comparison, reload, expiry
// ---------------------------------------------------------------------------------------------

func (c *c14) commit() {
	if pv, site := guarded(func() { c.b.Commit() }); pv != nil {
		c.viol("panic", "Commit:"+site, "state.Commit in block %d: %v", c.block, pv)
		c.dead = true
		return
	}
	c.log.add("commit", "block", c.block, "live0", len(c.live[0]), "live1", len(c.live[1]))
	c.block++
	c.afterReload = false
	for _, s := range c.live {
		for _, o := range s {
			c.lastCommitted[o.id] = true
		}
	}
	c.compareExport()
	if c.dead {
		return
	}
	if c.r.Intn(1000) < c.prof.reloadPm {
		if pv, site := guarded(func() { c.b.Reload() }); pv != nil {
			c.viol("panic", "Reload:"+site, "re-opening the state at version %d: %v", c.b.Ver, pv)
			c.dead = true
			return
		}
		c.afterReload = true
		c.log.add("reload")
		c.ctx.Res.Count("reloads", 1)
		if c.r.Intn(2) == 0 { // look at every order through the fresh state
			c.ctx.Res.Evaluations++
			for _, o := range c.all {
				c.checkLive("reload/sweep", o)
			}
			c.ctx.Res.Seen("reload/sweep")
		}
	}
	// expiry, as BeginBlock does it: right after the commit of the previous block
	if c.block > c.expirePeriod && c.r.Intn(3) == 0 {
		c.expire(c.block - c.expirePeriod)
	}
}

// compareExport: the book on disk (exported through a throw-away SwapV2 on the committed tree) equals the reference.
func (c *c14) compareExport() {
	var st types.AppState
	if pv, site := guarded(func() {
		swap.NewV2(bus.NewBus(), c.b.St.Tree().GetLastImmutable()).Export(&st)
	}); pv != nil {
		c.viol("panic", "Export:"+site, "Export after commit of block %d: %v", c.block-1, pv)
		c.dead = true
		return
	}
	c.ctx.Res.Evaluations++
	var pool *types.Pool
	for i := range st.Pools {
		if st.Pools[i].Coin0 == uint64(c.c0) && st.Pools[i].Coin1 == uint64(c.c1) {
			pool = &st.Pools[i]
		}
	}
	if pool == nil {
		c.viol("book-mismatch", "export/pool-missing", "pool %d/%d not exported", c.c0, c.c1)
		return
	}
	seen := map[uint32]bool{}
	for _, e := range pool.Orders {
		id := uint32(e.ID)
		o := c.all[id]
		if seen[id] {
			c.viol("book-mismatch", "export/duplicate", "order %d exported twice", id)
			continue
		}
		seen[id] = true
		if o == nil || o.closed != "" {
			what := "unknown"
			if o != nil {
				what = o.closed
			}
			c.viol("book-mismatch", "export/closed-order-on-disk", "exported order %d (volumes %s/%s) is %s in the reference; %s", id, e.Volume0, e.Volume1, what, c.warm())
			continue
		}
		v0, v1, sale := o.wb.String(), o.ws.String(), true
		if o.side == 1 {
			v0, v1, sale = o.ws.String(), o.wb.String(), false
		}
		if e.Volume0 != v0 || e.Volume1 != v1 || e.IsSale != sale || e.Owner != o.owner || e.Height != o.height {
			c.viol("book-mismatch", "export/order-differs", "order %d on disk: sale=%v volumes %s/%s height %d; reference: sale=%v volumes %s/%s height %d (placed %s/%s, %d fills)", id, e.IsSale, e.Volume0, e.Volume1, e.Height, sale, v0, v1, o.height, o.wb0, o.ws0, o.fills)
		}
	}
	for s := 0; s < 2; s++ {
		for _, o := range c.live[s] {
			if !seen[o.id] {
				c.viol("book-mismatch", "export/live-order-missing", "live order %d (buy %s sell %s, placed in block %d, %d fills) is not on disk after the commit of block %d", o.id, o.wb, o.ws, o.height, o.fills, c.block-1)
			}
		}
	}
	d := len(c.live[0]) + len(c.live[1])
	b := "0"
	switch {
	case d >= 1000:
		b = ">=1000"
	case d >= 100:
		b = ">=100"
	case d >= 10:
		b = ">=10"
	case d > 0:
		b = "<10"
	}
	c.ctx.Res.Seen("commit/export/depth" + b)
}

func (c *c14) expire(cutoff uint64) {
	before := c.snap()
	c.b.Ev.take()
	if pv, site := guarded(func() { c.sw().ExpireOrders(cutoff) }); pv != nil {
		c.viol("panic", "ExpireOrders:"+site, "ExpireOrders(%d) in block %d: %v", cutoff, c.block, pv)
		c.dead = true
		return
	}
	c.ctx.Res.Evaluations++
	var refunds []c14Refund
	var gone []*c14Order
	for s := 0; s < 2; s++ {
		for _, o := range c.live[s] {
			if o.height <= cutoff {
				gone = append(gone, o)
			}
		}
	}
	for _, o := range gone {
		refunds = append(refunds, c14Refund{o.id, o.owner, o.sellCoin, bcopy(o.ws)})
		o.refunded.Add(o.refunded, o.ws)
		o.closed = "expired"
		o.wb, o.ws = new(big.Int), new(big.Int)
		c.removeLive(o)
		if new(big.Int).Add(o.sold, o.refunded).Cmp(o.ws0) != 0 {
			c.viol("conservation", "expire", "order %d: sold %s + refunded %s != placed sell volume %s", o.id, o.sold, o.refunded, o.ws0)
		}
	}
	c.log.add("expire", "cutoff", cutoff, "block", c.block, "expired", len(gone))
	c.checkSideEffects("expire", before, refunds, true)
	for _, o := range gone {
		c.checkLive("expire", o)
	}
	c.spotCheck("expire")
	if len(gone) > 0 {
		c.ctx.Res.Seen("expire/some/" + c.warm())
		c.ctx.Res.Count("orders_expired", int64(len(gone)))
	} else {
		c.ctx.Res.Seen("expire/none/" + c.warm())
	}
}

// Package h is the runtime-monitoring harness for minter-go-node: it drives the real
// minter.Blockchain ABCI application without Tendermint and observes it at the ABCI / API boundary.
package h

import (
	"context"
	"fmt"
	"io"
	stdlog "log"
	"os"
	"path/filepath"
	"reflect"
	"runtime/debug"
	"strings"
	"time"
	"unsafe"

	"github.com/MinterTeam/minter-go-node/cmd/utils"
	"github.com/MinterTeam/minter-go-node/config"
	"github.com/MinterTeam/minter-go-node/coreV2/minter"
	"github.com/MinterTeam/minter-go-node/coreV2/state"
	"github.com/MinterTeam/minter-go-node/coreV2/types"
	"github.com/cosmos/cosmos-sdk/snapshots"
	abci "github.com/tendermint/tendermint/abci/types"
	tmjson "github.com/tendermint/tendermint/libs/json"
	tmlog "github.com/tendermint/tendermint/libs/log"
	"github.com/tendermint/tendermint/libs/service"
	mempl "github.com/tendermint/tendermint/mempool"
	mempoolmock "github.com/tendermint/tendermint/mempool/mock"
	tmNode "github.com/tendermint/tendermint/node"
	tmproto "github.com/tendermint/tendermint/proto/tendermint/types"
	db "github.com/tendermint/tm-db"
)

func init() {
	stdlog.SetOutput(io.Discard)
}

// NodeOpts configures one application instance.
type NodeOpts struct {
	Dir            string // home dir; "" => everything in memdb (no restarts possible)
	StakePeriod    uint64 // updateStakesAndPayRewards period (0 => 720)
	ExpirePeriod   uint64 // expired orders period (0 => chain default)
	KeepLastStates int64  // 0 => 120
	HaltHeight     int
	// Wrap is applied to the three stores ("state","events","app") when set (E7).
	Wrap func(store string, d db.DB) db.DB
	// Snapshots: interval>0 enables a snapshot store (memdb + temp dir under Dir or os temp)
	SnapshotInterval int
	SnapshotKeep     int
	NilTmNode        bool // leave tmNode nil (stop() => os.Exit)
	// AppDir: keep only the (tiny) app DB in goleveldb under this directory while state and events stay in memdb.
	// A process restart (RebootSame) then finds the app DB where the node's constructor looks for it, so the
	// restarted instance initialises its state in the constructor exactly like a real restart.
	AppDir string
}

// Node wraps one minter.Blockchain instance.
type Node struct {
	Opts    NodeOpts
	App     *minter.Blockchain
	Storage *utils.Storage
	Cfg     *config.Config

	rawState, rawEvents, rawApp db.DB
	SnapStore                   *snapshots.Store
	snapDB                      db.DB
	snapDir                     string
	preApp                      db.DB
	Dead                        bool // a panic was observed: instance state undefined
	cancel                      context.CancelFunc
}

// PanicInfo describes a recovered panic at the ABCI boundary.
type PanicInfo struct {
	Call  string
	Value string
	Stack string
	Site  string // top repository frames
}

func (p *PanicInfo) Error() string { return fmt.Sprintf("panic in %s: %s @ %s", p.Call, p.Value, p.Site) }

func stubTmNode() *tmNode.Node {
	n := &tmNode.Node{}
	n.BaseService = *service.NewBaseService(nil, "Node", n)
	f := reflect.ValueOf(n).Elem().FieldByName("mempool")
	var mp mempl.Mempool = mempoolmock.Mempool{}
	reflect.NewAt(f.Type(), unsafe.Pointer(f.UnsafeAddr())).Elem().Set(reflect.ValueOf(&mp).Elem())
	return n
}

// NewNode opens (or re-opens) an application instance according to opts.
func NewNode(opts NodeOpts) *Node {
	n := &Node{Opts: opts}
	n.open()
	return n
}

func (n *Node) open() {
	opts := n.Opts
	cfg := config.DefaultConfig()
	home := opts.Dir
	if home == "" && opts.AppDir != "" {
		home = opts.AppDir
		cfg.DBBackend = "goleveldb"
		if err := os.MkdirAll(filepath.Join(home, "data"), 0o755); err != nil {
			panic(err)
		}
	} else if home == "" {
		home = "/nonexistent-verif-home"
		cfg.DBBackend = "memdb"
	} else {
		cfg.DBBackend = "goleveldb"
		if err := os.MkdirAll(filepath.Join(home, "data"), 0o755); err != nil {
			panic(err)
		}
	}
	cfg.SetRoot(home)
	cfg.ValidatorMode = false
	if opts.KeepLastStates > 0 {
		cfg.KeepLastStates = opts.KeepLastStates
	}
	cfg.HaltHeight = opts.HaltHeight
	cfg.StateCacheSize = 100000
	n.Cfg = cfg

	st := utils.NewStorage(home, "")
	if opts.Dir != "" {
		var err error
		if n.rawState, err = db.NewGoLevelDBWithOpts("state", filepath.Join(home, "data"), nil); err != nil {
			panic(err)
		}
		if n.rawEvents, err = db.NewGoLevelDBWithOpts("events", filepath.Join(home, "data"), nil); err != nil {
			panic(err)
		}
	} else {
		if n.rawState == nil {
			n.rawState = db.NewMemDB()
			n.rawEvents = db.NewMemDB()
		}
	}
	sdb, edb := n.rawState, n.rawEvents
	if opts.Wrap != nil {
		sdb, edb = opts.Wrap("state", sdb), opts.Wrap("events", edb)
	}
	st.VerifSetDBs(sdb, edb, nil)
	n.Storage = st

	ctx, cancel := context.WithCancel(context.Background())
	n.cancel = cancel
	// The constructor opens the app DB itself; E7 wraps it right after (the constructor only reads).
	var lg tmlog.Logger = tmlog.NewNopLogger()
	if os.Getenv("VERIF_LOG") != "" {
		lg = tmlog.NewFilter(tmlog.NewTMLogger(os.Stderr), tmlog.AllowError())
	}
	n.App = minter.NewMinterBlockchain(st, cfg, ctx, opts.StakePeriod, opts.ExpirePeriod, lg)
	n.rawApp = n.App.VerifAppDB().VerifDB()
	if n.preApp != nil {
		// memdb "restart": the constructor opened a fresh, empty app DB; put the surviving one in its place (nothing was read yet but zeros)
		n.rawApp = n.preApp
	}
	base := n.rawApp
	if opts.Wrap != nil {
		w := opts.Wrap("app", base)
		n.App.VerifAppDB().VerifWrapDB(func(db.DB) db.DB { return w })
	} else if n.preApp != nil {
		n.App.VerifAppDB().VerifWrapDB(func(db.DB) db.DB { return base })
	}
	// statistics stay nil: the node handles a nil *statistics.Data (no consumer goroutine runs here)
	if !opts.NilTmNode {
		n.App.VerifSetTmNode(stubTmNode())
	}
	if opts.SnapshotInterval > 0 {
		if n.snapDB == nil {
			n.snapDB = db.NewMemDB()
			d, err := os.MkdirTemp(os.Getenv("VERIF_TMP"), "vsnap")
			if err != nil {
				panic(err)
			}
			n.snapDir = d
		}
		store, err := snapshots.NewStore(n.snapDB, n.snapDir)
		if err != nil {
			panic(err)
		}
		n.SnapStore = store
		keep := opts.SnapshotKeep
		if keep == 0 {
			keep = 2
		}
		n.App.SetSnapshotStore(store, opts.SnapshotInterval, keep)
	}
	n.Dead = false
}

// EnableRestoreStore gives a node a snapshot store without producing snapshots itself.
func (n *Node) EnableRestoreStore() {
	if n.snapDB == nil {
		n.snapDB = db.NewMemDB()
		d, err := os.MkdirTemp(os.Getenv("VERIF_TMP"), "vsnap")
		if err != nil {
			panic(err)
		}
		n.snapDir = d
	}
	store, err := snapshots.NewStore(n.snapDB, n.snapDir)
	if err != nil {
		panic(err)
	}
	n.SnapStore = store
	n.App.SetSnapshotStore(store, 0, 2)
}

// Close closes the instance cleanly (like a node shutdown) and keeps the directory.
func (n *Node) Close() {
	if n.App == nil {
		return
	}
	func() {
		defer func() { recover() }()
		n.App.VerifWaitSnapshots()
	}()
	n.closeRaw()
	n.App = nil
}

// closeRaw closes the underlying DB handles directly (also used after a simulated crash).
func (n *Node) closeRaw() {
	if n.Opts.Dir == "" && n.Opts.AppDir != "" && n.rawApp != nil && n.preApp == nil {
		func() {
			defer func() { recover() }()
			_ = n.rawApp.Close()
		}()
		n.rawApp = nil
	}
	if n.Opts.Dir != "" {
		for _, d := range []db.DB{n.rawApp, n.rawState, n.rawEvents} {
			if d != nil {
				func() {
					defer func() { recover() }()
					_ = d.Close()
				}()
			}
		}
		n.rawApp, n.rawState, n.rawEvents = nil, nil, nil
	}
	if n.cancel != nil {
		// not cancelling: cancelling makes checkStop() stop the app; simply drop it
		n.cancel = nil
	}
}

// Destroy closes and removes all on-disk data.
func (n *Node) Destroy() {
	n.Close()
	if n.Opts.Dir != "" {
		os.RemoveAll(n.Opts.Dir)
	}
	if n.snapDir != "" {
		os.RemoveAll(n.snapDir)
	}
	if n.Opts.AppDir != "" {
		os.RemoveAll(n.Opts.AppDir)
	}
}

// Restart closes the instance and re-opens it from its on-disk data.
func (n *Node) Restart() {
	if n.Opts.Dir == "" {
		panic("Restart needs a directory")
	}
	n.Close()
	n.open()
}

// CrashReopen abandons the instance without any orderly shutdown and reopens the data directory.
func (n *Node) CrashReopen() {
	func() {
		defer func() { recover() }()
		n.App.VerifWaitSnapshots()
	}()
	n.closeRaw()
	n.App = nil
	n.open()
}

// siteOf extracts the top repository frames of a panic stack.
func siteOf(stack string) string {
	lines := strings.Split(stack, "\n")
	var fr []string
	for _, l := range lines {
		l = strings.TrimSpace(l)
		if strings.HasPrefix(l, "github.com/MinterTeam/minter-go-node/") {
			f := strings.TrimPrefix(l, "github.com/MinterTeam/minter-go-node/")
			if i := strings.LastIndex(f, "("); i > 0 {
				f = f[:i]
			}
			fr = append(fr, f)
			if len(fr) == 3 {
				break
			}
		}
	}
	return strings.Join(fr, "<-")
}

// guard runs f, converting a panic into PanicInfo and marking the node dead.
func (n *Node) guard(call string, f func()) (pi *PanicInfo) {
	defer func() {
		if r := recover(); r != nil {
			st := string(debug.Stack())
			pi = &PanicInfo{Call: call, Value: fmt.Sprint(r), Stack: st, Site: siteOf(st)}
			n.Dead = true
		}
	}()
	f()
	return nil
}

// InitChain sends the genesis.
func (n *Node) InitChain(gen *types.AppState, initialHeight int64, t time.Time) (resp abci.ResponseInitChain, pi *PanicInfo) {
	bz, err := tmjson.Marshal(gen)
	if err != nil {
		panic(err)
	}
	pi = n.guard("InitChain", func() {
		resp = n.App.InitChain(abci.RequestInitChain{Time: t, ChainId: "verif", InitialHeight: initialHeight, AppStateBytes: bz})
	})
	return
}

// Vote is one entry of LastCommitInfo.
type Vote struct {
	Addr   types.TmAddress
	Power  int64
	Signed bool
}

// BlockReq is everything the consensus engine sends for one block.
type BlockReq struct {
	Height    int64
	Time      time.Time
	Votes     []Vote
	Byzantine []types.TmAddress
	Txs       [][]byte
}

// BlockRes is everything the application answered.
type BlockRes struct {
	Deliver  []abci.ResponseDeliverTx
	End      abci.ResponseEndBlock
	Commit   abci.ResponseCommit
	Stopped  bool
	Panic    *PanicInfo
	PanicTxI int // index of tx being delivered when the panic occurred (-1 otherwise)
}

func (r *BlockReq) begin() abci.RequestBeginBlock {
	req := abci.RequestBeginBlock{Header: tmproto.Header{Height: r.Height, Time: r.Time}}
	for _, v := range r.Votes {
		a := v.Addr
		req.LastCommitInfo.Votes = append(req.LastCommitInfo.Votes, abci.VoteInfo{
			Validator: abci.Validator{Address: a[:], Power: v.Power}, SignedLastBlock: v.Signed})
	}
	for _, b := range r.Byzantine {
		a := b
		req.ByzantineValidators = append(req.ByzantineValidators, abci.Evidence{
			Type: abci.EvidenceType_DUPLICATE_VOTE, Validator: abci.Validator{Address: a[:], Power: 1}, Height: r.Height - 1, Time: r.Time})
	}
	return req
}

// Hooks lets monitors observe inside a block. All optional.
type Hooks struct {
	AfterBegin func()
	BeforeTx   func(i int, tx []byte)
	AfterTx    func(i int, tx []byte, res *abci.ResponseDeliverTx)
	AfterEnd   func(res *abci.ResponseEndBlock)
}

// Begin runs BeginBlock.
func (n *Node) Begin(r *BlockReq) (stopped bool, pi *PanicInfo) {
	pi = n.guard("BeginBlock", func() { n.App.BeginBlock(r.begin()) })
	if pi == nil {
		stopped = n.App.VerifStopped()
	}
	return
}

// Deliver runs one DeliverTx.
func (n *Node) Deliver(tx []byte) (res abci.ResponseDeliverTx, pi *PanicInfo) {
	pi = n.guard("DeliverTx", func() { res = n.App.DeliverTx(abci.RequestDeliverTx{Tx: tx}) })
	return
}

// Check runs one CheckTx.
func (n *Node) Check(tx []byte) (res abci.ResponseCheckTx, pi *PanicInfo) {
	dead := n.Dead
	pi = n.guard("CheckTx", func() { res = n.App.CheckTx(abci.RequestCheckTx{Tx: tx}) })
	if pi != nil {
		// a CheckTx panic does not by itself corrupt deliver state, but stay conservative
		n.Dead = true
	} else {
		n.Dead = dead
	}
	return
}

// End runs EndBlock.
func (n *Node) End(height int64) (res abci.ResponseEndBlock, pi *PanicInfo) {
	pi = n.guard("EndBlock", func() { res = n.App.EndBlock(abci.RequestEndBlock{Height: height}) })
	return
}

// Commit runs Commit.
func (n *Node) Commit() (res abci.ResponseCommit, pi *PanicInfo) {
	pi = n.guard("Commit", func() { res = n.App.Commit() })
	return
}

// RunBlock executes a full block with optional hooks.
func (n *Node) RunBlock(r *BlockReq, hk *Hooks) *BlockRes {
	out := &BlockRes{PanicTxI: -1}
	stopped, pi := n.Begin(r)
	if pi != nil {
		out.Panic = pi
		return out
	}
	if stopped {
		out.Stopped = true
		return out
	}
	if hk != nil && hk.AfterBegin != nil {
		hk.AfterBegin()
	}
	for i, tx := range r.Txs {
		if hk != nil && hk.BeforeTx != nil {
			hk.BeforeTx(i, tx)
		}
		res, pi := n.Deliver(tx)
		if pi != nil {
			out.Panic = pi
			out.PanicTxI = i
			return out
		}
		out.Deliver = append(out.Deliver, res)
		if hk != nil && hk.AfterTx != nil {
			hk.AfterTx(i, tx, &out.Deliver[len(out.Deliver)-1])
		}
	}
	end, pi := n.End(r.Height)
	if pi != nil {
		out.Panic = pi
		return out
	}
	out.End = end
	if hk != nil && hk.AfterEnd != nil {
		hk.AfterEnd(&out.End)
	}
	cm, pi := n.Commit()
	if pi != nil {
		out.Panic = pi
		return out
	}
	out.Commit = cm
	return out
}

// Info returns the ABCI Info response.
func (n *Node) Info() (res abci.ResponseInfo, pi *PanicInfo) {
	dead := n.Dead
	pi = n.guard("Info", func() { res = n.App.Info(abci.RequestInfo{}) })
	if pi == nil {
		n.Dead = dead
	}
	return
}

// DiskState builds a fresh read-only state from disk at height h.
func (n *Node) DiskState(h uint64) (*state.CheckState, error) {
	return state.NewCheckStateAtHeightV3(h, n.Storage.StateDB())
}

// LastVersion is the newest IAVL version on disk (equals the height unless the chain started at height 1).
func (n *Node) LastVersion() (v uint64) {
	defer func() {
		if r := recover(); r != nil {
			// no deliver state yet (fresh process before its first BeginBlock): the app DB knows the height
			v = n.App.VerifAppDB().GetLastHeight()
		}
	}()
	vs := n.App.AvailableVersions()
	if len(vs) == 0 {
		return 0
	}
	return uint64(vs[len(vs)-1])
}

// DiskExport exports the last committed state from a fresh state object built from disk only.
func (n *Node) DiskExport() (e *types.AppState, err error) {
	defer func() {
		if r := recover(); r != nil {
			err = fmt.Errorf("panic in disk export: %v", r)
		}
	}()
	cs, err := n.DiskState(n.LastVersion())
	if err != nil {
		return nil, err
	}
	x := cs.Export()
	return &x, nil
}

// Tags returns the tags of a DeliverTx response as a map (last one wins) .
func Tags(res *abci.ResponseDeliverTx) map[string]string {
	m := map[string]string{}
	for _, e := range res.Events {
		for _, a := range e.Attributes {
			m[string(a.Key)] = string(a.Value)
		}
	}
	return m
}

// copyMem copies every key of a DB into a new memdb.
func copyMem(src db.DB) db.DB {
	dst := db.NewMemDB()
	it, err := src.Iterator(nil, nil)
	if err != nil {
		panic(err)
	}
	defer it.Close()
	for ; it.Valid(); it.Next() {
		k := append([]byte{}, it.Key()...)
		v := append([]byte{}, it.Value()...)
		if err := dst.Set(k, v); err != nil {
			panic(err)
		}
	}
	return dst
}

// MemImage is a copy of the three stores of a memdb node at a block boundary.
type MemImage struct {
	State, Events, App db.DB
	Opts               NodeOpts
}

// Image copies the committed data of a memdb node (only valid between blocks).
func (n *Node) Image() *MemImage {
	if n.Opts.Dir != "" {
		panic("Image needs a memdb node")
	}
	return &MemImage{State: copyMem(n.rawState), Events: copyMem(n.rawEvents), App: copyMem(n.rawApp), Opts: n.Opts}
}

// Boot starts a new application instance over a private copy of the image (like a restart from identical disks).
func (im *MemImage) Boot() *Node { return im.BootWrapped(nil) }

// BootWrapped boots a private copy of the image with the given store wrapper (fault injection).
func (im *MemImage) BootWrapped(wrap func(store string, d db.DB) db.DB) *Node {
	n := &Node{Opts: im.Opts}
	n.Opts.Dir = ""
	n.Opts.AppDir = ""
	n.Opts.Wrap = wrap
	n.Opts.SnapshotInterval = 0
	n.rawState, n.rawEvents, n.preApp = copyMem(im.State), copyMem(im.Events), copyMem(im.App)
	n.open()
	return n
}

// RebootSame starts a new application instance over the SAME memdb objects (what a restarted process finds on disk).
func (n *Node) RebootSame() *Node {
	m := &Node{Opts: n.Opts}
	m.Opts.Wrap = nil
	if n.Opts.Dir == "" && n.Opts.AppDir != "" && n.preApp == nil {
		// the app DB lives in goleveldb: close the old handle, the new instance opens the directory itself
		func() {
			defer func() { recover() }()
			n.App.VerifWaitSnapshots()
		}()
		n.closeRaw()
		m.rawState, m.rawEvents = n.rawState, n.rawEvents
		m.snapDB, m.snapDir = n.snapDB, n.snapDir
		m.open()
		return m
	}
	m.rawState, m.rawEvents, m.preApp = n.rawState, n.rawEvents, n.rawApp
	m.snapDB, m.snapDir = n.snapDB, n.snapDir
	m.open()
	return m
}

package h

import (
	"encoding/hex"
	"fmt"
	"math/rand"
	"os"

	abci "github.com/tendermint/tendermint/abci/types"
)

// MonCalls counts ABCI calls and response codes (C07 evidence); panics are reported by the Sim itself.
type MonCalls struct {
	BaseMon
	Res *WorkerResult
}

func (m *MonCalls) Name() string { return "C07" }
func (m *MonCalls) AfterTx(s *Sim, i int, tx []byte, meta *TxMeta, res *abci.ResponseDeliverTx) {
	m.Res.Evaluations++
	m.Res.Seen(fmt.Sprintf("DeliverTx type %02x code %d", meta.Type, res.Code))
}
func (m *MonCalls) AfterBlock(s *Sim, req *BlockReq, res *BlockRes) {
	m.Res.Evaluations += 3 // begin, end, commit
	k := "block"
	if len(req.Byzantine) > 0 {
		k += "/byz"
	}
	absent := 0
	for _, v := range req.Votes {
		if !v.Signed {
			absent++
		}
	}
	if absent > 0 {
		k += "/absent"
	}
	if len(req.Votes) == 0 {
		k += "/novotes"
	}
	if len(res.End.ValidatorUpdates) > 0 {
		k += "/valupd"
	}
	if res.Stopped {
		k += "/stopped"
	}
	m.Res.Seen(k)
}

// MutateBytes applies one of the hostile byte-level mutators.
func MutateBytes(r *rand.Rand, b []byte) []byte {
	out := append([]byte{}, b...)
	switch r.Intn(9) {
	case 0: // bit flips
		for k := 0; k < 1+r.Intn(4) && len(out) > 0; k++ {
			out[r.Intn(len(out))] ^= 1 << uint(r.Intn(8))
		}
	case 1: // truncate
		if len(out) > 0 {
			out = out[:r.Intn(len(out))]
		}
	case 2: // append garbage
		g := make([]byte, 1+r.Intn(40))
		r.Read(g)
		out = append(out, g...)
	case 3: // random string
		out = make([]byte, r.Intn(300))
		r.Read(out)
	case 4: // overwrite a window with 0xff / 0x00 / 0x80 (RLP length bytes)
		if len(out) > 4 {
			p := r.Intn(len(out) - 3)
			v := []byte{0xff, 0x00, 0x80, 0xb8, 0xf8, 0xc0}[r.Intn(6)]
			for k := 0; k < 1+r.Intn(3); k++ {
				out[p+k] = v
			}
		}
	case 5: // duplicate a slice of the middle
		if len(out) > 10 {
			p := r.Intn(len(out) - 5)
			q := p + r.Intn(len(out)-p)
			out = append(out[:q], append(append([]byte{}, out[p:q]...), out[q:]...)...)
		}
	case 6: // huge declared length
		out = append([]byte{0xfb, 0xff, 0xff, 0xff, 0xff}, out...)
	case 7: // swap two bytes
		if len(out) > 2 {
			i, j := r.Intn(len(out)), r.Intn(len(out))
			out[i], out[j] = out[j], out[i]
		}
	case 8: // empty / single byte
		out = []byte{byte(r.Intn(256))}[:r.Intn(2)]
	}
	return out
}

func init() {
	mons := func(res *WorkerResult) []Monitor { return []Monitor{&MonCalls{Res: res}} }
	MonitorsFor["C07"] = mons
	Register(&CheckDef{
		ID: "C07", Level: "exploration",
		Rule: "two kinds of cases: hostile histories (35% invalid txs, evidence against validators/candidates/unknown addresses, absences, empty vote sets, time jumps, reward window with and without USDT pool) and byte-level inputs (valid txs mutated by 9 mutators and random strings) given to CheckTx and DeliverTx; every ABCI call runs under recover() in a supervised child; one evaluation = one ABCI call; distinct = (call, tx type, response code) and block kinds",
		Assumptions: []string{"a recovered panic or a dead worker process is a violation; os.Exit on an accepted halt is excluded (governance txs are generated without reaching 2/3 here)"},
		Quick: 45, Thorough: 450, MinEval: 5000, MinDistinct: 40,
		Run: func(ctx *WorkCtx, idx int) {
			r := Rng(ctx.Seed, "C07", idx)
			sc := StdScenario(idx/3, r, 150)
			s, d := sc.Build("C07", ctx.Seed, idx, r, mons(ctx.Res)...)
			s.NoExport = false
			d.G.PInvalid = 0.35
			d.G.PBound = 0.25
			d.PByz = 0.05
			d.PAbsent = 0.08
			d.PTimeJump = 0.05
			d.MaxTxs = 10
			d.G.SetWeight(0x0f, 3) // halt votes (never reach 2/3 with random owners... counted if they do)
			d.G.SetWeight(0x21, 3)
			d.G.SetWeight(0x20, 3)
			if idx%3 != 0 {
				for i := 0; i < sc.Blocks && !s.Dead && !s.Stopped; i++ {
					if r.Intn(25) == 0 {
						// a block without votes at all
						req := d.NextReq()
						req.Votes = nil
						s.RunBlock(req, nil, nil)
						continue
					}
					d.Block()
				}
			} else {
				// byte level
				inputs := 0
				for b := 0; b < 40 && !s.Dead && !s.Stopped; b++ {
					req := d.NextReq()
					s.RunBlock(req, nil, func(i int) ([]byte, TxMeta, bool) {
						if i >= 30 {
							return nil, TxMeta{}, false
						}
						bz, meta := d.G.Next()
						if r.Intn(6) != 0 {
							bz = MutateBytes(r, bz)
							meta.Kind = "mutated"
							meta.Sender = ""
						}
						fmt.Fprintln(os.Stderr, "input", hex.EncodeToString(bz))
						// the same bytes go to CheckTx first
						if _, pi := s.N.Check(bz); pi != nil {
							s.Report(Violation{Property: "C07", Rule: "panic", Site: "CheckTx:" + pi.Site, Detail: firstLine(pi.Value), Height: req.Height, TxIndex: i})
						}
						ctx.Res.Evaluations++
						inputs++
						return bz, meta, true
					})
				}
				ctx.Res.Count("byte_inputs", int64(inputs))
			}
			ctx.Res.Count("blocks", s.H-s.W.InitialHeight+1)
			ctx.Res.Count("family/"+sc.Family, 1)
			ctx.Collect(s, idx)
			s.Finish()
		},
	})
}

package h

import (
	"encoding/hex"
	"fmt"
	tx "github.com/MinterTeam/minter-go-node/coreV2/transaction"
	"github.com/MinterTeam/minter-go-node/coreV2/types"
	"math/big"
	"math/rand"
	"os"

	abci "github.com/tendermint/tendermint/abci/types"
)

// MonCalls counts ABCI calls and response codes (C07 evidence); panics are reported by the Sim itself.
type MonCalls struct {
	BaseMon
	Res *WorkerResult
}

func (m *MonCalls) Name() string { return "C07" }
func (m *MonCalls) AfterTx(s *Sim, i int, tx []byte, meta *TxMeta, res *abci.ResponseDeliverTx) {
	m.Res.Evaluations++
	m.Res.Seen(fmt.Sprintf("DeliverTx type %02x code %d", meta.Type, res.Code))
}
func (m *MonCalls) AfterBlock(s *Sim, req *BlockReq, res *BlockRes) {
	m.Res.Evaluations += 3 // begin, end, commit
	k := "block"
	if len(req.Byzantine) > 0 {
		k += "/byz"
	}
	absent := 0
	for _, v := range req.Votes {
		if !v.Signed {
			absent++
		}
	}
	if absent > 0 {
		k += "/absent"
	}
	if len(req.Votes) == 0 {
		k += "/novotes"
	}
	if len(res.End.ValidatorUpdates) > 0 {
		k += "/valupd"
	}
	if res.Stopped {
		k += "/stopped"
	}
	m.Res.Seen(k)
}

// MutateBytes applies one of the hostile byte-level mutators.
func MutateBytes(r *rand.Rand, b []byte) []byte {
	out := append([]byte{}, b...)
	switch r.Intn(9) {
	case 0: // bit flips
		for k := 0; k < 1+r.Intn(4) && len(out) > 0; k++ {
			out[r.Intn(len(out))] ^= 1 << uint(r.Intn(8))
		}
	case 1: // truncate
		if len(out) > 0 {
			out = out[:r.Intn(len(out))]
		}
	case 2: // append garbage
		g := make([]byte, 1+r.Intn(40))
		r.Read(g)
		out = append(out, g...)
	case 3: // random string
		out = make([]byte, r.Intn(300))
		r.Read(out)
	case 4: // overwrite a window with 0xff / 0x00 / 0x80 (RLP length bytes)
		if len(out) > 4 {
			p := r.Intn(len(out) - 3)
			v := []byte{0xff, 0x00, 0x80, 0xb8, 0xf8, 0xc0}[r.Intn(6)]
			for k := 0; k < 1+r.Intn(3); k++ {
				out[p+k] = v
			}
		}
	case 5: // duplicate a slice of the middle
		if len(out) > 10 {
			p := r.Intn(len(out) - 5)
			q := p + r.Intn(len(out)-p)
			out = append(out[:q], append(append([]byte{}, out[p:q]...), out[q:]...)...)
		}
	case 6: // huge declared length
		out = append([]byte{0xfb, 0xff, 0xff, 0xff, 0xff}, out...)
	case 7: // swap two bytes
		if len(out) > 2 {
			i, j := r.Intn(len(out)), r.Intn(len(out))
			out[i], out[j] = out[j], out[i]
		}
	case 8: // empty / single byte
		out = []byte{byte(r.Intn(256))}[:r.Intn(2)]
	}
	return out
}

func init() {
	mons := func(res *WorkerResult) []Monitor { return []Monitor{&MonCalls{Res: res}} }
	MonitorsFor["C07"] = mons
	Register(&CheckDef{
		ID: "C07", Level: "exploration",
		Rule:        "two kinds of cases: hostile histories (35% invalid txs, evidence against validators/candidates/unknown addresses, absences, empty vote sets, time jumps, reward window with and without USDT pool) and byte-level inputs (valid txs mutated by 9 mutators and random strings) given to CheckTx and DeliverTx; every ABCI call runs under recover() in a supervised child; one evaluation = one ABCI call; distinct = (call, tx type, response code) and block kinds",
		Assumptions: []string{"a recovered panic or a dead worker process is a violation; os.Exit on an accepted halt is excluded (governance txs are generated without reaching 2/3 here)"},
		Quick:       45, Thorough: 450, MinEval: 5000, MinDistinct: 40,
		Run: func(ctx *WorkCtx, idx int) {
			r := Rng(ctx.Seed, "C07", idx)
			sc := StdScenario(idx/3, r, 150)
			s, d := sc.Build("C07", ctx.Seed, idx, r, mons(ctx.Res)...)
			s.NoExport = false
			d.G.PInvalid = 0.35
			d.G.PBound = 0.25
			d.PByz = 0.05
			d.PAbsent = 0.08
			d.PTimeJump = 0.05
			d.MaxTxs = 10
			d.G.SetWeight(0x0f, 3) // halt votes (never reach 2/3 with random owners... counted if they do)
			d.G.SetWeight(0x21, 3)
			d.G.SetWeight(0x20, 3)
			if idx%3 != 0 {
				for i := 0; i < sc.Blocks && !s.Dead && !s.Stopped; i++ {
					if r.Intn(25) == 0 {
						// a block without votes at all
						req := d.NextReq()
						req.Votes = nil
						s.RunBlock(req, nil, nil)
						continue
					}
					if (i == 20 || i == 70) && len(s.W.Multisigs) > 0 && !s.Dead {
						c07MalformedEdit(s, d, r)
						continue
					}
					d.Block()
				}
			} else {
				// byte level
				inputs := 0
				for b := 0; b < 40 && !s.Dead && !s.Stopped; b++ {
					req := d.NextReq()
					s.RunBlock(req, nil, func(i int) ([]byte, TxMeta, bool) {
						if i >= 30 {
							return nil, TxMeta{}, false
						}
						bz, meta := d.G.Next()
						if r.Intn(6) != 0 {
							bz = MutateBytes(r, bz)
							meta.Kind = "mutated"
							meta.Sender = ""
						}
						fmt.Fprintln(os.Stderr, "input", hex.EncodeToString(bz))
						// the same bytes go to CheckTx first
						if _, pi := s.N.Check(bz); pi != nil {
							s.Report(Violation{Property: "C07", Rule: "panic", Site: "CheckTx:" + pi.Site, Detail: firstLine(pi.Value), Height: req.Height, TxIndex: i})
						}
						ctx.Res.Evaluations++
						inputs++
						return bz, meta, true
					})
				}
				ctx.Res.Count("byte_inputs", int64(inputs))
			}
			ctx.Res.Count("blocks", s.H-s.W.InitialHeight+1)
			ctx.Res.Count("family/"+sc.Family, 1)
			ctx.Collect(s, idx)
			s.Finish()
		},
	})
}

// c07MalformedEdit: a wallet edits itself with MORE addresses than weights (other malformed shapes come from the generator),
// then sends a transaction signed by all the addresses it named, including the one without a weight (lead: added after
// seed C07-m1 stopped being reached by the random generator at both seeds).
func c07MalformedEdit(s *Sim, d *Driver, r *rand.Rand) {
	var m *MultisigAcc
	for _, x := range s.W.Multisigs { // a wallet that can pay the fee
		if b := s.N.App.CurrentState().Accounts().GetBalance(x.Addr, 0); b.Cmp(Bip(5)) > 0 && (m == nil || r.Intn(2) == 0) {
			m = x
		}
	}
	if m == nil {
		return
	}
	owners := append([]*Key{}, m.Owners...)
	for _, u := range s.W.Users {
		dup := false
		for _, o := range owners {
			if o == u {
				dup = true
			}
		}
		if !dup {
			owners = append(owners, u)
			break
		}
	}
	var as []types.Address
	for _, o := range owners {
		as = append(as, o.Addr)
	}
	ws := make([]uint32, len(owners)-1)
	for i := range ws {
		ws[i] = uint32(1 + r.Intn(5))
	}
	if len(ws) == 0 {
		return
	}
	snd := Senderish{M: m}
	drafts := []*draft{
		{t: tx.TypeEditMultisig, kind: "invalid", note: "edit-msig", sender: &snd, price1: true, data: tx.EditMultisigData{Threshold: 1, Weights: ws, Addresses: as}},
		{t: tx.TypeSend, kind: "valid", note: "send-after-malformed-edit", sender: &snd, price1: true, data: tx.SendData{Coin: 0, To: s.W.Users[0].Addr, Value: big.NewInt(1)}},
	}
	req := d.NextReq()
	s.RunBlock(req, nil, func(i int) ([]byte, TxMeta, bool) {
		if i > 0 {
			res := s.CurRes.Deliver[i-1]
			d.G.Learn(&s.Metas[i-1], res.Code, Tags(&res))
		}
		if i >= len(drafts) {
			return nil, TxMeta{}, false
		}
		if i == 0 {
			d.G.pendingEdit = &MultisigAcc{Addr: m.Addr, Owners: owners, Weights: ws, Threshold: 1}
		}
		if i == 1 {
			// as many signatures as there are weights, the address without a weight among them
			nonce := s.N.App.CurrentState().Accounts().GetNonce(m.Addr) + 1
			sp := &TxSpec{Nonce: nonce, ChainID: types.CurrentChainID, GasPrice: 1, Type: tx.TypeSend, Data: drafts[1].data, Multisig: m, Signers: owners[1:]}
			return sp.Encode(), TxMeta{Type: byte(tx.TypeSend), Sender: hex.EncodeToString(m.Addr[:]), Nonce: nonce, GasPrice: 1, Kind: "valid", Note: "send-signed-by-weightless-owner", Msig: true, Chain: byte(types.CurrentChainID)}, true
		}
		bz, mt := d.G.Envelope(drafts[i])
		return bz, mt, true
	})
	if os.Getenv("C07_DEBUG") != "" && s.CurRes != nil {
		for i, dl := range s.CurRes.Deliver {
			fmt.Fprintf(os.Stderr, "C07DEBUG malformed-edit tx %d code %d log %s\n", i, dl.Code, dl.Log)
		}
		fmt.Fprintf(os.Stderr, "C07DEBUG dead=%v panic=%v\n", s.Dead, s.CurRes.Panic != nil)
	}
}

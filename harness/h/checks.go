package h

import (
	"bufio"
	"os"
	"sort"
	"strings"
)

// CheckDef registers one property check.
type CheckDef struct {
	ID           string
	Level        string // exploration | fault_enumeration
	Rule         string // how cases are generated and what counts as distinct non-trivial
	Assumptions  []string
	Quick        int // number of cases (histories / batches)
	Thorough     int
	MinEval      int64
	MinDistinct  int
	Mainnet      bool // use mainnet chain constants
	MaxWorkers   int
	Batch        int
	WatchdogS    int
	Binary       string   // other worker binary (race build etc.)
	Parts        []string // ids of sub-checks whose cases make up this check (each with its own binary/env)
	Env          []string // extra env for workers
	Run          func(ctx *WorkCtx, idx int)
	Post         func(total *WorkerResult)
	OnChildDeath func(total *WorkerResult, from, to, code int, tail, logf string)
}

// Checks is the registry.
var Checks = map[string]*CheckDef{}

// Register adds a check.
func Register(d *CheckDef) { Checks[d.ID] = d }

// CheckIDs lists registered ids.
func CheckIDs() []string {
	var ids []string
	for k := range Checks {
		ids = append(ids, k)
	}
	sort.Strings(ids)
	return ids
}

// TailFile returns the last n bytes of a file.
func TailFile(path string, n int) string {
	bz, err := os.ReadFile(path)
	if err != nil {
		return ""
	}
	if len(bz) > n {
		bz = bz[len(bz)-n:]
	}
	return string(bz)
}

// LastCase returns the last "case N start" line of a worker log.
func LastCase(path string) string {
	f, err := os.Open(path)
	if err != nil {
		return "?"
	}
	defer f.Close()
	last := "?"
	sc := bufio.NewScanner(f)
	sc.Buffer(make([]byte, 1<<20), 1<<26)
	for sc.Scan() {
		l := sc.Text()
		if strings.HasPrefix(l, "case ") {
			last = l
		}
	}
	return last
}

// FatalSite extracts a short site from a Go fatal error / panic tail.
func FatalSite(tail string) string {
	lines := strings.Split(tail, "\n")
	msg := ""
	for _, l := range lines {
		if strings.HasPrefix(l, "fatal error:") || strings.HasPrefix(l, "panic:") {
			msg = strings.TrimSpace(l)
			break
		}
	}
	site := siteOf(tail)
	if len(msg) > 80 {
		msg = msg[:80]
	}
	return msg + "@" + site
}

package h

func init() {
	// C04 -------------------------------------------------------------------------------------------
	m4 := func(res *WorkerResult) []Monitor { return []Monitor{&MonNonce{Res: res}} }
	MonitorsFor["C04"] = m4
	Register(&CheckDef{
		ID: "C04", Level: "exploration",
		Rule: "generated histories in which ~25% of the slots re-deliver earlier transaction bytes (same block, next block, much later) and ~4% carry nonce+1 / nonce-1 / a foreign chain id; the monitor keeps, per sender, the last nonce it SAW accepted and judges every delivery against the sequential specification (accept only nonce=last+1 and own chain id; never the same bytes twice), cross-checking GetNonce; one evaluation = one delivery judged; distinct = (freshness class, chain, multisig, response code)",
		Assumptions: []string{"only harness-made (non-mutated) transactions are judged: their sender/nonce/chain id are ground truth of the generator, not decoded by the node"},
		Quick: 42, Thorough: 420, MinEval: 5000, MinDistinct: 8,
		Run: func(ctx *WorkCtx, idx int) {
			r := Rng(ctx.Seed, "C04", idx)
			sc := StdScenario(idx, r, 100)
			s, d := sc.Build("C04", ctx.Seed, idx, r, m4(ctx.Res)...)
			d.PReplay = 0.25
			d.PRestart = 0.08 // replays of earlier blocks' transactions after a process restart
			d.MaxTxs = 12
			d.G.PInvalid, d.G.PBound = 0.1, 0.1
			d.Run(sc.Blocks)
			ctx.Res.Count("blocks", s.H-s.W.InitialHeight+1)
			ctx.Collect(s, idx)
			s.Finish()
		},
	})
	// C26 -------------------------------------------------------------------------------------------
	m26 := func(res *WorkerResult) []Monitor { return []Monitor{&MonChargeOnce{Res: res}} }
	MonitorsFor["C26"] = m26
	Register(&CheckDef{
		ID: "C26", Level: "exploration",
		Rule: "generated histories in which ~30% of the slots re-deliver earlier transaction bytes; per distinct byte string the monitor reads the payer's balances (all coins) around every delivery: every delivery after the first must be rejected and must not decrease any balance of the payer; one evaluation = one repeated delivery judged; distinct = (kind of first delivery: accepted / failed before Run / failed in Run) x (later code, charged?, tx type)",
		Assumptions: []string{"payer = sender, or the check issuer for RedeemCheck (known to the generator)"},
		Quick: 42, Thorough: 420, MinEval: 3000, MinDistinct: 20,
		Run: func(ctx *WorkCtx, idx int) {
			r := Rng(ctx.Seed, "C26", idx)
			sc := StdScenario(idx, r, 100)
			s, d := sc.Build("C26", ctx.Seed, idx, r, m26(ctx.Res)...)
			d.PReplay = 0.3
			d.PRestart = 0.06
			d.MaxTxs = 12
			d.G.PInvalid, d.G.PBound = 0.25, 0.2
			d.Run(sc.Blocks)
			ctx.Res.Count("blocks", s.H-s.W.InitialHeight+1)
			ctx.Collect(s, idx)
			s.Finish()
		},
	})
	// C03 (light) -----------------------------------------------------------------------------------
	m3 := func(res *WorkerResult) []Monitor { return []Monitor{&MonFailedTx{Res: res}} }
	MonitorsFor["C03"] = m3
	Register(&CheckDef{
		ID: "C03", Level: "exploration",
		Rule: "generated histories with 35% invalid and 25% boundary transactions of all types, gas coins of every kind (base, bancor coin, token with pool, coin with both routes) and payers with balance 0 / < fee / = fee / > fee; around every DeliverTx the universe (all known addresses x coins: balances, nonces, waitlists; coins; pools; orders; candidates; stakes) is read through accessors; a failed tx may only change the payer's gas-coin balance by exactly tx.fail_fee and what converting that fee touches (commission pool reserves/orders/owners' credits/burn address, or bancor volume/reserve); an accepted tx must raise the sender nonce by exactly one; one evaluation = one failed DeliverTx diffed; distinct = (tx type, code, fee route)",
		Assumptions: []string{"frozen funds / votes / checks are not part of the accessor snapshot; they are covered by the per-block export comparison in the counterfactual tier"},
		Quick: 42, Thorough: 420, MinEval: 3000, MinDistinct: 60,
		Run: func(ctx *WorkCtx, idx int) {
			r := Rng(ctx.Seed, "C03", idx)
			sc := StdScenario(idx, r, 100)
			s, d := sc.Build("C03", ctx.Seed, idx, r, m3(ctx.Res)...)
			d.MaxTxs = 10
			d.G.PInvalid, d.G.PBound = 0.35, 0.25
			d.G.PGasCustom = 0.5
			d.Run(sc.Blocks)
			ctx.Res.Count("blocks", s.H-s.W.InitialHeight+1)
			ctx.Collect(s, idx)
			s.Finish()
		},
	})
}

package h

import (
	"crypto/sha256"
	"math/big"

	"github.com/MinterTeam/minter-go-node/coreV2/check"
	"github.com/MinterTeam/minter-go-node/coreV2/transaction"
	"github.com/MinterTeam/minter-go-node/coreV2/types"
	"github.com/MinterTeam/minter-go-node/crypto"
	"github.com/MinterTeam/minter-go-node/rlp"
)

// TxSpec describes a transaction before signing.
type TxSpec struct {
	Nonce       uint64
	ChainID     types.ChainID
	GasPrice    uint32
	GasCoin     types.CoinID
	Type        transaction.TxType
	Data        interface{} // rlp-encodable data struct (or []byte for raw)
	Payload     []byte
	ServiceData []byte
	// signing
	Signer   *Key         // single signature
	Multisig *MultisigAcc // multi signature: signed by Signers (default: all owners)
	Signers  []*Key
}

// Encode builds and signs the transaction bytes.
func (s *TxSpec) Encode() []byte {
	var data []byte
	switch d := s.Data.(type) {
	case []byte:
		data = d
	default:
		b, err := rlp.EncodeToBytes(d)
		if err != nil {
			panic(err)
		}
		data = b
	}
	tx := transaction.Transaction{Nonce: s.Nonce, ChainID: s.ChainID, GasPrice: s.GasPrice, GasCoin: s.GasCoin, Type: s.Type,
		Data: data, Payload: s.Payload, ServiceData: s.ServiceData}
	if s.Multisig != nil {
		tx.SignatureType = transaction.SigTypeMulti
		tx.SetMultisigAddress(s.Multisig.Addr)
		signers := s.Signers
		if signers == nil {
			signers = s.Multisig.Owners
		}
		for _, k := range signers {
			if err := tx.Sign(k.Priv); err != nil {
				panic(err)
			}
		}
	} else {
		tx.SignatureType = transaction.SigTypeSingle
		if err := tx.Sign(s.Signer.Priv); err != nil {
			panic(err)
		}
	}
	bz, err := tx.Serialize()
	if err != nil {
		panic(err)
	}
	return bz
}

// Sender is the account the tx is sent from.
func (s *TxSpec) Sender() types.Address {
	if s.Multisig != nil {
		return s.Multisig.Addr
	}
	return s.Signer.Addr
}

// CheckSpec describes a check.
type CheckSpec struct {
	Nonce    []byte
	ChainID  types.ChainID
	DueBlock uint64
	Coin     types.CoinID
	Value    *big.Int
	GasCoin  types.CoinID
	Issuer   *Key
	Password string
}

// IssueCheck signs a check and returns its raw bytes.
func IssueCheck(c *CheckSpec) []byte {
	pass := sha256.Sum256([]byte(c.Password))
	passKey, err := crypto.ToECDSA(pass[:])
	if err != nil {
		panic(err)
	}
	ch := check.Check{Nonce: c.Nonce, ChainID: c.ChainID, DueBlock: c.DueBlock, Coin: c.Coin, Value: c.Value, GasCoin: c.GasCoin}
	lock, err := crypto.Sign(ch.HashWithoutLock().Bytes(), passKey)
	if err != nil {
		panic(err)
	}
	ch.Lock = big.NewInt(0).SetBytes(lock)
	if err := ch.Sign(c.Issuer.Priv); err != nil {
		panic(err)
	}
	bz, err := rlp.EncodeToBytes(ch)
	if err != nil {
		panic(err)
	}
	return bz
}

// CheckProof makes the redemption proof for redeemer address using the password.
func CheckProof(password string, redeemer types.Address) (proof [65]byte) {
	pass := sha256.Sum256([]byte(password))
	passKey, err := crypto.ToECDSA(pass[:])
	if err != nil {
		panic(err)
	}
	var senderAddressHash types.Hash
	hw := newKeccak()
	_ = rlp.Encode(hw, []interface{}{redeemer})
	hw.Sum(senderAddressHash[:0])
	sig, err := crypto.Sign(senderAddressHash.Bytes(), passKey)
	if err != nil {
		panic(err)
	}
	copy(proof[:], sig)
	return
}

package h

import (
	"bytes"
	"crypto/ecdsa"
	"crypto/sha256"
	"math/big"
	"math/rand"

	"github.com/MinterTeam/minter-go-node/coreV2/check"
	"github.com/MinterTeam/minter-go-node/coreV2/transaction"
	"github.com/MinterTeam/minter-go-node/coreV2/types"
	"github.com/MinterTeam/minter-go-node/crypto"
	"github.com/MinterTeam/minter-go-node/rlp"
)

// TxSpec describes a transaction before signing.
type TxSpec struct {
	Nonce       uint64
	ChainID     types.ChainID
	GasPrice    uint32
	GasCoin     types.CoinID
	Type        transaction.TxType
	Data        interface{} // rlp-encodable data struct (or []byte for raw)
	Payload     []byte
	ServiceData []byte
	// signing
	Signer   *Key         // single signature
	Multisig *MultisigAcc // multi signature: signed by Signers (default: all owners)
	Signers  []*Key
	// SignRand: when set, a signer that appears a second time signs with a fresh random ECDSA nonce, i.e. attaches a
	// DIFFERENT valid signature of the same key (a duplicate check keyed by signature bytes would not notice)
	SignRand *rand.Rand
}

// Encode builds and signs the transaction bytes.
func (s *TxSpec) Encode() []byte {
	var data []byte
	switch d := s.Data.(type) {
	case []byte:
		data = d
	default:
		b, err := rlp.EncodeToBytes(d)
		if err != nil {
			panic(err)
		}
		data = b
	}
	tx := transaction.Transaction{Nonce: s.Nonce, ChainID: s.ChainID, GasPrice: s.GasPrice, GasCoin: s.GasCoin, Type: s.Type,
		Data: data, Payload: s.Payload, ServiceData: s.ServiceData}
	if s.Multisig != nil {
		tx.SignatureType = transaction.SigTypeMulti
		tx.SetMultisigAddress(s.Multisig.Addr)
		signers := s.Signers
		if signers == nil {
			signers = s.Multisig.Owners
		}
		seen := map[*Key]bool{}
		for _, k := range signers {
			if seen[k] && s.SignRand != nil {
				h := tx.Hash()
				tx.SetSignature(SignRandomK(k, h[:], s.SignRand))
				continue
			}
			seen[k] = true
			if err := tx.Sign(k.Priv); err != nil {
				panic(err)
			}
		}
	} else {
		tx.SignatureType = transaction.SigTypeSingle
		if err := tx.Sign(s.Signer.Priv); err != nil {
			panic(err)
		}
	}
	bz, err := tx.Serialize()
	if err != nil {
		panic(err)
	}
	return bz
}

// Sender is the account the tx is sent from.
func (s *TxSpec) Sender() types.Address {
	if s.Multisig != nil {
		return s.Multisig.Addr
	}
	return s.Signer.Addr
}

// CheckSpec describes a check.
type CheckSpec struct {
	Nonce    []byte
	ChainID  types.ChainID
	DueBlock uint64
	Coin     types.CoinID
	Value    *big.Int
	GasCoin  types.CoinID
	Issuer   *Key
	Password string
}

// IssueCheck signs a check and returns its raw bytes.
func IssueCheck(c *CheckSpec) []byte {
	pass := sha256.Sum256([]byte(c.Password))
	passKey, err := crypto.ToECDSA(pass[:])
	if err != nil {
		panic(err)
	}
	ch := check.Check{Nonce: c.Nonce, ChainID: c.ChainID, DueBlock: c.DueBlock, Coin: c.Coin, Value: c.Value, GasCoin: c.GasCoin}
	lock, err := crypto.Sign(ch.HashWithoutLock().Bytes(), passKey)
	if err != nil {
		panic(err)
	}
	ch.Lock = big.NewInt(0).SetBytes(lock)
	if err := ch.Sign(c.Issuer.Priv); err != nil {
		panic(err)
	}
	bz, err := rlp.EncodeToBytes(ch)
	if err != nil {
		panic(err)
	}
	return bz
}

// CheckProof makes the redemption proof for redeemer address using the password.
func CheckProof(password string, redeemer types.Address) (proof [65]byte) {
	pass := sha256.Sum256([]byte(password))
	passKey, err := crypto.ToECDSA(pass[:])
	if err != nil {
		panic(err)
	}
	var senderAddressHash types.Hash
	hw := newKeccak()
	_ = rlp.Encode(hw, []interface{}{redeemer})
	hw.Sum(senderAddressHash[:0])
	sig, err := crypto.Sign(senderAddressHash.Bytes(), passKey)
	if err != nil {
		panic(err)
	}
	copy(proof[:], sig)
	return
}

// SignRandomK signs hash with an ECDSA nonce drawn from r (not the deterministic RFC 6979 one): a second, different,
// valid low-S signature of the same key over the same hash. Returns r||s||v (65 bytes, v = recovery id).
func SignRandomK(k *Key, hash []byte, r *rand.Rand) []byte {
	curve := crypto.S256()
	n := curve.Params().N
	half := new(big.Int).Rsh(n, 1)
	for {
		rr, ss, err := ecdsa.Sign(r, k.Priv, hash)
		if err != nil {
			panic(err)
		}
		if ss.Cmp(half) > 0 {
			ss.Sub(n, ss)
		}
		sig := make([]byte, 65)
		rb, sb := rr.Bytes(), ss.Bytes()
		copy(sig[32-len(rb):32], rb)
		copy(sig[64-len(sb):64], sb)
		want := crypto.FromECDSAPub(&k.Priv.PublicKey)
		for v := byte(0); v < 2; v++ {
			sig[64] = v
			if pub, err := crypto.Ecrecover(hash, sig); err == nil && bytes.Equal(pub, want) {
				return sig
			}
		}
	}
}

package h

import (
	"fmt"
	"strings"
)

type crashPending struct {
	h   int64
	img *MemImage
}

// MonCrash implements C10: for chosen blocks, enumerate every prefix of the writes of Commit, "kill" the process there,
// restart on the surviving data, do what Tendermint's handshake would do, and compare with the uncrashed run.
type MonCrash struct {
	BaseMon
	Res     *WorkerResult
	Heights map[int64]bool
	Ahead   int64 // blocks executed after the crashed one before comparing
	MaxK    int
	pend    []*crashPending
	reqs    map[int64]*BlockReq
	ress    map[int64]*BlockRes
}

func (m *MonCrash) Name() string { return "C10" }

func (m *MonCrash) Init(s *Sim) {
	m.reqs, m.ress = map[int64]*BlockReq{}, map[int64]*BlockRes{}
}

func (m *MonCrash) BeforeBlock(s *Sim, req *BlockReq) {
	if m.Heights[req.Height] {
		m.pend = append(m.pend, &crashPending{h: req.Height, img: s.N.Image()})
	}
}

func writeClass(w WriteRec) string {
	k := strings.Trim(w.Key, "\"")
	if w.Store != "app" || w.Kind == "batch" {
		k = w.Kind
	}
	return w.Store + ":" + k
}

func (m *MonCrash) AfterBlock(s *Sim, req *BlockReq, res *BlockRes) {
	m.reqs[req.Height], m.ress[req.Height] = req, res
	delete(m.reqs, req.Height-m.Ahead-3)
	delete(m.ress, req.Height-m.Ahead-3)
	var rest []*crashPending
	for _, p := range m.pend {
		if s.H == p.h+m.Ahead {
			m.trials(s, p)
		} else {
			rest = append(rest, p)
		}
	}
	m.pend = rest
}

// runUpToCommit executes Begin/Deliver/End of a recorded block (no commit). ok=false on panic/halt.
func runUpToCommit(n *Node, req *BlockReq) (*BlockRes, bool) {
	out := &BlockRes{PanicTxI: -1}
	if stopped, pi := n.Begin(req); pi != nil || stopped {
		return out, false
	}
	for _, tx := range req.Txs {
		d, pi := n.Deliver(tx)
		if pi != nil {
			return out, false
		}
		out.Deliver = append(out.Deliver, d)
	}
	e, pi := n.End(req.Height)
	if pi != nil {
		return out, false
	}
	out.End = e
	return out, true
}

func (m *MonCrash) trials(s *Sim, p *crashPending) {
	req := m.reqs[p.h]
	ref := m.ress[p.h]
	if req == nil || ref == nil {
		return
	}
	// learn the write sequence of Commit(h)
	f0 := &Fault{Armed: -1}
	n0 := p.img.BootWrapped(f0.Wrap)
	if _, ok := runUpToCommit(n0, req); !ok {
		m.Res.Inconcl = append(m.Res.Inconcl, fmt.Sprintf("height %d: block did not re-execute on the booted image", p.h))
		return
	}
	f0.On = true
	if _, pi := n0.Commit(); pi != nil {
		m.Res.Inconcl = append(m.Res.Inconcl, fmt.Sprintf("height %d: unarmed commit panicked on the booted image: %s", p.h, pi.Value))
		return
	}
	f0.On = false
	W := f0.Count
	var seq []string
	for _, w := range f0.Log {
		seq = append(seq, writeClass(w))
	}
	m.Res.Sample(map[string]interface{}{"height": p.h, "commit_writes": seq}, 4)
	m.Res.Count("commit_writes_total", int64(W))
	ks := make([]int, 0, W)
	for k := 0; k < W; k++ {
		ks = append(ks, k)
	}
	if m.MaxK > 0 && len(ks) > m.MaxK {
		// keep the last MaxK (app-DB writes come last) plus an even sample of the others
		head := ks[:len(ks)-m.MaxK]
		tail := ks[len(ks)-m.MaxK:]
		var pick []int
		for i := 0; i < len(head); i += 1 + len(head)/6 {
			pick = append(pick, head[i])
		}
		ks = append(pick, tail...)
	}
	for _, k := range ks {
		m.oneCrash(s, p, req, ref, k, seq)
	}
}

func (m *MonCrash) report(s *Sim, p *crashPending, rule, pos, detail string) {
	s.Report(Violation{Property: "C10", Rule: rule, Site: pos, Height: p.h, TxIndex: -1, Detail: detail})
}

func (m *MonCrash) oneCrash(s *Sim, p *crashPending, req *BlockReq, ref *BlockRes, k int, seq []string) {
	pos := "before-first-write"
	if k > 0 {
		pos = "after " + seq[k-1]
	}
	if k < len(seq) {
		pos += " before " + seq[k]
	}
	f := &Fault{Armed: k}
	n := p.img.BootWrapped(f.Wrap)
	if _, ok := runUpToCommit(n, req); !ok {
		m.Res.Inconcl = append(m.Res.Inconcl, fmt.Sprintf("height %d k=%d: block did not re-execute", p.h, k))
		return
	}
	f.On = true
	_, pi := n.Commit()
	f.On = false
	if pi == nil {
		m.Res.Count("crash_point_not_reached", 1)
		return
	}
	if !strings.Contains(pi.Value, "{") && !strings.Contains(pi.Value, "CrashSentinel") {
		// some other panic during commit
		m.report(s, p, "commit-panic", pos, firstLine(pi.Value))
		return
	}
	m.Res.Evaluations++
	m.Res.Seen(pos)
	// the process is dead; a new one starts on what was written
	var n2 *Node
	if bp := n.guard("Reboot", func() { n2 = n.RebootSame() }); bp != nil {
		m.report(s, p, "restart-panic", pos, firstLine(bp.Value))
		return
	}
	info, ip := n2.Info()
	if ip != nil {
		m.report(s, p, "restart-panic", pos, "Info: "+firstLine(ip.Value))
		return
	}
	a := info.LastBlockHeight
	refHash := fmt.Sprintf("%x", ref.Commit.Data)
	switch {
	case a > p.h:
		m.report(s, p, "reports-future-height", pos, fmt.Sprintf("Info height %d > %d", a, p.h))
		return
	case a == p.h:
		if got := fmt.Sprintf("%x", info.LastBlockAppHash); got != refHash {
			m.report(s, p, "wrong-hash-at-reported-height", pos, fmt.Sprintf("Info (%d,%s) but the uncrashed hash of %d is %s", a, got, p.h, refHash))
			return
		}
	case a == p.h-1:
		// Tendermint replays block h
		r2 := n2.RunBlock(req, nil)
		if d := CompareBlocks(ref, r2); d != "" {
			if r2.Panic != nil {
				d += " / " + r2.Panic.Call + ": " + firstLine(r2.Panic.Value)
			}
			m.report(s, p, "replayed-block-differs", pos, d)
			return
		}
	default:
		m.report(s, p, "reports-unreplayable-height", pos, fmt.Sprintf("Info height %d, crashed while committing %d", a, p.h))
		return
	}
	// later blocks and queries must match the uncrashed node
	for h := p.h + 1; h <= p.h+m.Ahead; h++ {
		rq, rr := m.reqs[h], m.ress[h]
		if rq == nil {
			break
		}
		r2 := n2.RunBlock(rq, nil)
		if d := CompareBlocks(rr, r2); d != "" {
			if r2.Panic != nil {
				d += " / " + r2.Panic.Call + ": " + firstLine(r2.Panic.Value)
			}
			m.report(s, p, "later-block-differs", pos, fmt.Sprintf("height %d (+%d): %s (Info was %d)", h, h-p.h, d, a))
			return
		}
	}
	va, _ := s.N.View(s.H, int(m.Ahead)+1)
	vb, vp := n2.View(s.H, int(m.Ahead)+1)
	if vp != nil {
		m.report(s, p, "query-panic", pos, firstLine(vp.Value))
		return
	}
	if d := DiffView(va, vb); len(d) > 0 {
		m.report(s, p, "query-differs", pos+" / "+fieldOf(d[0]), fmt.Sprintf("Info was %d; %v", a, clip(d, 3)))
		return
	}
	if e, err := n2.DiskExport(); err != nil {
		m.report(s, p, "query-panic", pos, err.Error())
	} else if d := DiffExports(s.Post, e, 5); len(d) > 0 {
		m.report(s, p, "export-differs", pos+" / "+pathClass(d[0]), fmt.Sprint(d))
	}
}

func init() {
	Register(&CheckDef{
		ID: "C10", Level: "fault_enumeration",
		Rule: "for ~6 blocks of each generated history (always including a payout block, a period-start block and blocks with events/pruning/validator updates) the sequence of DB writes of Commit is first recorded with a counting wrapper around the state, events and app stores, then for EVERY prefix length k the block is re-executed on a copy of the pre-block data, the process 'dies' (panic) before write k+1, a new instance starts on the surviving data and the driver does what Tendermint's handshake does (Info; height=h needs the right hash, height=h-1 gets block h replayed) and then 4 further blocks; responses, app hashes, Info/emission/versions/validators/price/events and the from-disk export must equal the uncrashed instance; one evaluation = one (block, write index) crash-recover-compare; distinct = crash positions (store:key-class before/after)",
		Assumptions: []string{"process-crash model: completed writes survive, no torn single write; a DB batch is atomic (true for goleveldb and the memdb used here)", "Tendermint replays block h when the app reports h-1 and nothing when it reports h (0.34 handshake)"},
		Quick: 28, Thorough: 280, MinEval: 800, MinDistinct: 4,
		Run: func(ctx *WorkCtx, idx int) {
			r := Rng(ctx.Seed, "C10", idx)
			sc := StdScenario(idx, r, 70)
			mc := &MonCrash{Res: ctx.Res, Heights: map[int64]bool{}, Ahead: 4, MaxK: 0}
			first := sc.Spec.InitialHeight
			p := int64(sc.Opts.StakePeriod)
			b := (first/p + 1) * p
			for b < first+3 {
				b += p
			}
			mc.Heights[b] = true   // payout block
			mc.Heights[b+1] = true // first block of a period (price update window)
			for i := 0; i < 4; i++ {
				mc.Heights[first+2+int64(r.Intn(60))] = true
			}
			s, d := sc.Build("C10", ctx.Seed, idx, r, mc)
			d.MaxTxs = 6
			d.PTimeJump = 0.08
			d.G.SetWeight(TxT(0x21), 2)
			d.Run(sc.Blocks)
			ctx.Res.Count("blocks", s.H-s.W.InitialHeight+1)
			ctx.Collect(s, idx)
			s.Finish()
		},
	})
}

package h

func init() {
	m6 := func(res *WorkerResult) []Monitor {
		return []Monitor{&MonCheckTx{Res: res}, &MonShadow{Prop: "C06", Rule: "checktx-has-side-effects", Res: res}}
	}
	MonitorsFor["C06"] = m6
	Register(&CheckDef{
		ID: "C06", Level: "exploration",
		Rule: "generated histories weighted towards pool trades, order-book trades, custom gas coins (commission pool shared with the route) and mid-block dependencies; the real CheckTx is called on the same instance immediately before every DeliverTx of the same bytes and acceptance is compared (codes 0 and 113 = accept; TooLowGasPrice excluded); second oracle: an undisturbed second instance executes the same blocks without CheckTx probes and must answer identically (CheckTx must be side-effect free); one evaluation = one CheckTx/DeliverTx pair; distinct = (tx type, check code, deliver code, commission route)",
		Assumptions: []string{"the stub mempool is empty, so the CheckTx gas-price floor is 1"},
		Quick: 42, Thorough: 420, MinEval: 8000, MinDistinct: 80,
		Run: func(ctx *WorkCtx, idx int) {
			r := Rng(ctx.Seed, "C06", idx)
			sc := StdScenario(idx, r, 100)
			sc.Spec.Orders = 4 + r.Intn(8)
			s, d := sc.Build("C06", ctx.Seed, idx, r, m6(ctx.Res)...)
			d.MaxTxs = 12
			d.G.PInvalid, d.G.PBound = 0.15, 0.3
			d.G.PGasCustom = 0.6
			for _, t := range []byte{0x17, 0x18, 0x19, 0x23, 0x24, 0x15, 0x16} {
				d.G.SetWeight(TxT(t), 30)
			}
			d.Run(sc.Blocks)
			ctx.Res.Count("blocks", s.H-s.W.InitialHeight+1)
			ctx.Collect(s, idx)
			s.Finish()
		},
	})
}

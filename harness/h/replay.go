package h

import (
	"fmt"
	"os"

	"github.com/MinterTeam/minter-go-node/coreV2/types"
)

// MonitorsFor returns the monitors a property attaches to histories (used by replay).
var MonitorsFor = map[string]func(res *WorkerResult) []Monitor{}

// ReplayFile re-executes a recorded history with the monitors of its property and prints the verdicts.
func ReplayFile(path string) int {
	hist, err := LoadHistory(path)
	if err != nil {
		fmt.Println("cannot load:", err)
		return 2
	}
	types.CurrentChainID = types.ChainID(hist.ChainID)
	res := NewResult(hist.Property)
	var mons []Monitor
	if f, ok := MonitorsFor[hist.Property]; ok {
		mons = f(res)
	}
	gen := hist.GenesisOf()
	w := &World{ValOwner: map[types.Pubkey]*Key{}, ValCtl: map[types.Pubkey]*Key{}, ChainID: types.CurrentChainID, InitialHeight: hist.InitialHeight, StakePeriod: hist.StakePeriod, ExpirePeriod: hist.ExpirePeriod}
	opts := NodeOpts{StakePeriod: hist.StakePeriod, ExpirePeriod: hist.ExpirePeriod, KeepLastStates: hist.KeepLast}
	s := NewSim(hist.Property, hist.Seed, hist.Index, gen, w, opts, Rng(hist.Seed, "replay", hist.Index), mons...)
	for i := range hist.Blocks {
		req, metas := hist.Blocks[i].Req()
		if hist.Blocks[i].Restart {
			s.Restart()
		}
		r := s.RunBlock(req, metas, nil)
		if d := os.Getenv("REPLAY_DUMP"); d != "" && r != nil { // "height:txindex": print that transaction's response
			var hh int64
			var ti int
			if n, _ := fmt.Sscanf(d, "%d:%d", &hh, &ti); n == 2 && hh == req.Height && ti < len(r.Deliver) {
				dl := r.Deliver[ti]
				fmt.Printf("DUMP code %d log %s\n tags %v\n", dl.Code, dl.Log, Tags(&dl))
			}
		}
		if r == nil || s.Dead || s.Stopped {
			break
		}
	}
	s.Finish()
	fmt.Printf("replayed %d blocks up to height %d; recorded violations: %d; reproduced: %d\n", len(hist.Blocks), s.H, len(hist.Violations), len(s.Viol))
	for _, v := range s.Viol {
		fmt.Printf("  %s height=%d tx=%d %s\n", v.Sig(), v.Height, v.TxIndex, v.Detail)
	}
	if len(s.Viol) > 0 {
		return 1
	}
	return 0
}

package h

// C23: signature / semantic mutators and the case driver.

import (
	"crypto/sha256"
	"encoding/hex"
	"fmt"
	"math/big"
	"math/rand"

	"github.com/MinterTeam/minter-go-node/crypto"
)

// C23LockPub is the uncompressed public key of the password-derived lock key (computed from the private key,
// not by recovery).
func C23LockPub(password string) string {
	pass := sha256.Sum256([]byte(password))
	k, err := crypto.ToECDSA(pass[:])
	if err != nil {
		return "?"
	}
	return hex.EncodeToString(crypto.FromECDSAPub(&k.PublicKey))
}

// sigTriples returns the [V,R,S] node triples of a base tree (copy) and, for multisig, the list node holding them.
func c23SigTriples(kind string, t *rl) (triples [][]*rl, list *rl) {
	switch kind {
	case "check":
		return [][]*rl{t.kids[7:10]}, nil
	case "tx-single":
		return [][]*rl{t.kids[9].wrap.kids}, nil
	default:
		list = t.kids[9].wrap.kids[1]
		for _, s := range list.kids {
			triples = append(triples, s.kids)
		}
		return triples, list
	}
}

func bi(n *rl) *big.Int { return new(big.Int).SetBytes(n.b) }
func setBi(n *rl, x *big.Int) {
	n.b = x.Bytes()
}

// c23MutSig applies one signature-level mutation (canonical re-encoding of changed values).
func (c *c23Run) mutSig(b *c23Base, t *rl) string {
	r := c.r
	tr, list := c23SigTriples(b.kind, t)
	if len(tr) == 0 {
		return ""
	}
	s := tr[r.Intn(len(tr))]
	V, R, S := s[0], s[1], s[2]
	n := 8
	if list != nil {
		n = 14
	}
	switch r.Intn(n) {
	case 0:
		setBi(S, new(big.Int).Sub(c23N, bi(S)))
		setBi(V, new(big.Int).Sub(big.NewInt(55), bi(V))) // 27 <-> 28
		return "high-s-twin"
	case 1:
		setBi(S, new(big.Int).Sub(c23N, bi(S)))
		return "high-s"
	case 2:
		vals := []*big.Int{big.NewInt(0), big.NewInt(1), big.NewInt(2), big.NewInt(26), big.NewInt(29), big.NewInt(30), big.NewInt(255), big.NewInt(256 + 27), big.NewInt(256 + 28),
			new(big.Int).Add(new(big.Int).Lsh(big.NewInt(1), 64), bi(V)), new(big.Int).Add(new(big.Int).Lsh(big.NewInt(1), 72), bi(V)), new(big.Int).Add(big.NewInt(512), bi(V)), big.NewInt(27 + 4), big.NewInt(28 + 4)}
		setBi(V, vals[r.Intn(len(vals))])
		return "bad-v"
	case 3:
		vals := []*big.Int{big.NewInt(0), c23N, new(big.Int).Add(c23N, big.NewInt(1)), new(big.Int).Sub(c23Two256, big.NewInt(1)), new(big.Int).Add(c23Two256, bi(R)), new(big.Int).Add(c23N, bi(R))}
		setBi(R, vals[r.Intn(len(vals))])
		return "r-out-of-range"
	case 4:
		vals := []*big.Int{big.NewInt(0), c23N, new(big.Int).Add(c23N, big.NewInt(1)), new(big.Int).Sub(c23Two256, big.NewInt(1)), new(big.Int).Add(c23Two256, bi(S)), new(big.Int).Add(c23N, bi(S)), new(big.Int).Add(c23HalfN, big.NewInt(1))}
		setBi(S, vals[r.Intn(len(vals))])
		return "s-out-of-range"
	case 5:
		R.b, S.b = S.b, R.b
		return "swap-r-s"
	case 6:
		setBi(V, new(big.Int).Sub(big.NewInt(55), bi(V)))
		return "flip-v"
	case 7:
		// a valid low-S signature by the same key over another hash
		k := NewKey("c23x", r.Intn(100))
		h := sha256.Sum256([]byte(fmt.Sprint(r.Int63())))
		sig, err := crypto.Sign(h[:], k.Priv)
		if err != nil {
			panic(err)
		}
		R.b, S.b = new(big.Int).SetBytes(sig[:32]).Bytes(), new(big.Int).SetBytes(sig[32:64]).Bytes()
		setBi(V, big.NewInt(int64(sig[64])+27))
		return "foreign-signature"
	case 8:
		if len(list.kids) > 1 {
			i, j := r.Intn(len(list.kids)), r.Intn(len(list.kids))
			if i != j {
				list.kids[i], list.kids[j] = list.kids[j], list.kids[i]
				return "msig-swap-signers"
			}
		}
	case 9:
		i := r.Intn(len(list.kids))
		list.kids = append(list.kids, list.kids[i].clone())
		return "msig-duplicate-signer"
	case 10:
		if len(list.kids) > 1 {
			i := r.Intn(len(list.kids))
			list.kids = append(list.kids[:i], list.kids[i+1:]...)
			return "msig-drop-signer"
		}
	case 11:
		// one more valid signature over the same hash by a key that is not an owner
		k := NewKey("c23x", 1000+r.Intn(100))
		hs, _ := hex.DecodeString(b.verdict.Hash)
		sig, err := crypto.Sign(hs, k.Priv)
		if err != nil {
			panic(err)
		}
		list.kids = append(list.kids, rlList(rlInt(big.NewInt(int64(sig[64])+27)), rlInt(new(big.Int).SetBytes(sig[:32])), rlInt(new(big.Int).SetBytes(sig[32:64]))))
		return "msig-add-foreign-signer"
	case 12:
		a := t.kids[9].wrap.kids[0]
		a.b[r.Intn(len(a.b))] ^= 1 << uint(r.Intn(8))
		return "msig-other-address"
	case 13:
		list.kids = nil
		return "msig-no-signatures"
	}
	return ""
}

// mutSemantic changes a signed field without re-signing (canonical encoding).
func (c *c23Run) mutSemantic(b *c23Base, t *rl) string {
	r := c.r
	if b.kind == "check" {
		f := r.Intn(7)
		n := t.kids[f]
		switch f {
		case 0:
			n.b = append(n.b, byte(r.Intn(256)))
		default:
			setBi(n, new(big.Int).Add(bi(n), big.NewInt(1)))
		}
		return fmt.Sprintf("unsigned-change-field%d", f)
	}
	f := []int{0, 1, 2, 3, 4, 6, 7, 8}[r.Intn(8)]
	n := t.kids[f]
	switch f {
	case 6, 7:
		n.b = append(n.b, byte(r.Intn(256)))
	case 8:
		setBi(n, new(big.Int).Sub(big.NewInt(3), bi(n))) // 1 <-> 2
	case 4:
		setBi(n, big.NewInt(int64(1+r.Intn(0x26))))
	case 1:
		setBi(n, new(big.Int).Sub(big.NewInt(3), bi(n))) // other chain id
	default:
		d := int64(1)
		if r.Intn(2) == 0 && bi(n).Sign() > 0 {
			d = -1
		}
		setBi(n, new(big.Int).Add(bi(n), big.NewInt(d)))
	}
	return fmt.Sprintf("unsigned-change-field%d", f)
}

// mutant makes one mutated encoding of the base.
func (c *c23Run) mutant(b *c23Base) (class string, out []byte) {
	r := c.r
	x := r.Intn(100)
	switch {
	case x < 15:
		return "bytes", MutateBytes(r, b.raw)
	case x < 40:
		t := b.tree.clone()
		if cl := c.mutSig(b, t); cl != "" {
			return cl, t.enc()
		}
		return "bytes", MutateBytes(r, b.raw)
	case x < 48:
		t := b.tree.clone()
		return c.mutSemantic(b, t), t.enc()
	default:
		t := b.tree.clone()
		cl, tail := rlMutate(r, t)
		out := append(t.enc(), tail...)
		if r.Intn(12) == 0 {
			// a second mutation on top
			t2, err := rlParseAll(out)
			if err == nil {
				cl2, tail2 := rlMutate(r, t2)
				return cl + "+" + cl2, append(t2.enc(), tail2...)
			}
		}
		return cl, out
	}
}

// c23PerBase is the number of mutants per base object.
const c23PerBase = 112

func c23RunCase(ctx *WorkCtx, idx int) {
	r := Rng(ctx.Seed, "C23", idx)
	c := &c23Run{ctx: ctx, idx: idx, r: r, corpus: newC23Corpus(ctx, idx)}
	defer c.corpus.close()
	var bases []*c23Base
	for i, t := range AllTxTypes {
		multi := (i+idx)%3 == 0
		bases = append(bases, c.newTxBase(t, multi))
	}
	for k := 0; k < 10; k++ {
		bases = append(bases, c.newCheckBase((idx*10+k)%18))
	}
	for _, b := range bases {
		if !c.checkBase(b) {
			// unregistered type: still feed mutants to the decoder (round trip oracle only)
			if b.verdict.Dec || c.nviol > 0 {
				continue
			}
		}
		isCheck := b.kind == "check"
		for m := 0; m < c23PerBase; m++ {
			class, in := c.mutant(b)
			base := b
			if !b.verdict.Dec {
				base = nil
			}
			out := c.judge(in, base, class, isCheck)
			ctx.Res.Seen(b.kind + "/" + b.label + "/" + class + "/" + out)
			ctx.Res.Count("outcome/"+out, 1)
			ctx.Res.Count("mutants", 1)
			if out == "violation" || out == "panic" {
				ctx.Res.Sample(map[string]interface{}{"class": class, "outcome": out, "input": hex.EncodeToString(in)}, 6)
			}
		}
		c.rawSigs(b)
	}
	// random strings and random canonical RLP trees, through both decoders
	for k := 0; k < 360; k++ {
		var in []byte
		cl := "random-bytes"
		if k%3 == 0 {
			cl = "random-rlp"
			in = rlRandom(r, 0).enc()
			if k%9 == 0 {
				// a 10-element list like a transaction / check
				t := rlList()
				for i := 0; i < 10; i++ {
					t.kids = append(t.kids, rlRandom(r, 2))
				}
				in = t.enc()
			}
		} else {
			in = make([]byte, r.Intn(300))
			r.Read(in)
		}
		out := c.judge(in, nil, cl, k%2 == 0)
		ctx.Res.Seen("random/" + cl + "/" + out)
		ctx.Res.Count("random_inputs", 1)
	}
}

// rawSigs feeds Ecrecover directly (the unvalidated path of check locks and redeem proofs) and records the
// results for the cgo / pure-Go comparison. In this build: a valid signature must recover its key.
func (c *c23Run) rawSigs(b *c23Base) {
	if c.corpus == nil || !c.corpus.on {
		if c.r.Intn(8) != 0 {
			return
		}
	}
	r := c.r
	k := NewKey("c23p", r.Intn(200))
	var h [32]byte
	r.Read(h[:])
	sig, err := crypto.Sign(h[:], k.Priv)
	if err != nil {
		panic(err)
	}
	want := hex.EncodeToString(crypto.FromECDSAPub(&k.Priv.PublicKey))
	v := C23JudgeRaw(h[:], sig)
	c.ctx.Res.Evaluations++
	c.corpus.add("raw", h[:], sig, v)
	if !v.SndOK || v.Sender != want {
		c.viol("binding", "ecrecover", fmt.Sprintf("hash %x sig %x recovers %s want %s", h, sig, v.Sender, want), b, "raw-valid", sig, v)
	}
	c.ctx.Res.Seen("raw/valid")
	for m := 0; m < 6; m++ {
		s := append([]byte{}, sig...)
		cl := ""
		switch r.Intn(9) {
		case 0:
			s[64] = byte(2 + r.Intn(2)) // recovery ids 2,3
			cl = "recid-2-3"
		case 1:
			s[64] = byte(4 + r.Intn(252))
			cl = "recid>=4"
		case 2:
			copy(s[:32], make([]byte, 32))
			cl = "r-zero"
		case 3:
			copy(s[32:64], make([]byte, 32))
			cl = "s-zero"
		case 4:
			copy(s[:32], c23N.Bytes())
			cl = "r=N"
		case 5:
			copy(s[32:64], new(big.Int).Sub(c23N, new(big.Int).SetBytes(s[32:64])).Bytes())
			cl = "high-s"
		case 6:
			for i := 0; i < 32; i++ {
				s[i] = 0xff
			}
			cl = "r-max"
		case 7:
			s = append(s, byte(r.Intn(256)))
			cl = "len-66"
		case 8:
			s[r.Intn(64)] ^= 1 << uint(r.Intn(8))
			cl = "bitflip"
		}
		v := C23JudgeRaw(h[:], s)
		c.ctx.Res.Evaluations++
		c.corpus.add("raw", h[:], s, v)
		if v.Panic != "" {
			c.viol("panic", "ecrecover", v.Panic, b, "raw-"+cl, s, v)
		}
		out := "rejected"
		if v.SndOK {
			out = "recovered-other"
			if v.Sender == want {
				out = "recovered-same"
			}
		}
		c.ctx.Res.Seen("raw/" + cl + "/" + out)
	}
}

func init() {
	Register(&CheckDef{
		ID: "C23", Level: "exploration",
		Rule:        "per case: one harness-signed transaction of each of the 38 types (random Data values built by reflection, single signature or 1..32-signer multisig) and 10 signed checks (nonce length 0..17), each mutated 112 times by byte-level, structure-aware RLP (non-minimal lengths, single byte as string, leading zeros, trailing bytes, extra/dropped/duplicated/swapped elements, integer edges, resized arrays, nesting, lying lengths; also inside Data and SignatureData), signature (high-S twin, bad V, R/S out of range, swapped/duplicated/dropped/foreign multisig signers) and unsigned-field mutators, plus 360 random strings / random RLP trees; one evaluation = one input given to the real decoder (+Sender) and judged by round trip, an independent strict RLP parser with type-directed canonical-value rules, and signer binding against the keys the harness used; distinct = object kind x tx type x mutator x outcome",
		Assumptions: []string{"multisig admission (distinct recovered signers, weight >= threshold, at most 32 and at most len(owners) signatures) is modelled from the recovered signers, the account state is not involved", "a multisig transaction's sender is the address inside the signature data; 'same sender' for multisig means same address and admitted signer set"},
		Quick:       56, Thorough: 560, MinEval: 200000, MinDistinct: 400,
		Run:  c23RunCase,
		Post: c23Post,
	})
}

var _ = rand.Int

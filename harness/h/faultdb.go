package h

import (
	"fmt"
	"time"

	db "github.com/tendermint/tm-db"
)

// CrashSentinel is the panic value of a simulated process death.
type CrashSentinel struct{ After int }

// WriteRec describes one observed write.
type WriteRec struct {
	Store string
	Kind  string
	Key   string
	N     int // operations in a batch
}

// Fault numbers every write across the wrapped stores and kills the "process" after Armed writes.
type Fault struct {
	Count int
	Armed int // -1 = never
	Log   []WriteRec
	On    bool // count/log only while On
}

func (f *Fault) hit(store, kind string, key []byte, n int) {
	if !f.On {
		return
	}
	if f.Armed >= 0 && f.Count >= f.Armed {
		panic(CrashSentinel{After: f.Count})
	}
	f.Count++
	k := string(key)
	if len(k) > 12 {
		k = fmt.Sprintf("%x", key[:6])
	} else {
		k = fmt.Sprintf("%q", k)
	}
	f.Log = append(f.Log, WriteRec{Store: store, Kind: kind, Key: k, N: n})
}

// Wrap returns the NodeOpts.Wrap function for this fault controller.
func (f *Fault) Wrap(store string, d db.DB) db.DB { return &faultDB{DB: d, f: f, store: store} }

type faultDB struct {
	db.DB
	f     *Fault
	store string
}

func (d *faultDB) Set(k, v []byte) error {
	d.f.hit(d.store, "set", k, 1)
	return d.DB.Set(k, v)
}
func (d *faultDB) SetSync(k, v []byte) error {
	d.f.hit(d.store, "set", k, 1)
	return d.DB.SetSync(k, v)
}
func (d *faultDB) Delete(k []byte) error {
	d.f.hit(d.store, "del", k, 1)
	return d.DB.Delete(k)
}
func (d *faultDB) DeleteSync(k []byte) error {
	d.f.hit(d.store, "del", k, 1)
	return d.DB.DeleteSync(k)
}
func (d *faultDB) NewBatch() db.Batch {
	return &faultBatch{Batch: d.DB.NewBatch(), d: d}
}

type faultBatch struct {
	db.Batch
	d     *faultDB
	n     int
	first []byte
}

func (b *faultBatch) Set(k, v []byte) error {
	if b.n == 0 {
		b.first = append([]byte{}, k...)
	}
	b.n++
	return b.Batch.Set(k, v)
}
func (b *faultBatch) Delete(k []byte) error {
	if b.n == 0 {
		b.first = append([]byte{}, k...)
	}
	b.n++
	return b.Batch.Delete(k)
}
func (b *faultBatch) Write() error {
	if b.n > 0 {
		b.d.f.hit(b.d.store, "batch", b.first, b.n)
	}
	return b.Batch.Write()
}
func (b *faultBatch) WriteSync() error {
	if b.n > 0 {
		b.d.f.hit(b.d.store, "batch", b.first, b.n)
	}
	return b.Batch.WriteSync()
}

// slowDB delays every batch write of a store: the time the node spends between handing its changes to the tree and being
// able to read the new version grows from microseconds (memdb) to what a disk needs. Used by C25 to give concurrent readers
// a realistic chance to run inside a commit.
type slowDB struct {
	db.DB
	d time.Duration
}

func (s *slowDB) NewBatch() db.Batch { return &slowBatch{Batch: s.DB.NewBatch(), d: s.d} }

type slowBatch struct {
	db.Batch
	d time.Duration
	n int
}

// Set: the tree hands its new nodes to the batch one by one, taking the node-DB mutex per node; a reader of the previous
// version can run between two of them (the final Write happens under that mutex, a delay there only blocks readers)
func (b *slowBatch) Set(k, v []byte) error {
	if b.n++; b.n%4 == 0 {
		time.Sleep(b.d / 50)
	}
	return b.Batch.Set(k, v)
}
func (b *slowBatch) Write() error     { time.Sleep(b.d); return b.Batch.Write() }
func (b *slowBatch) WriteSync() error { time.Sleep(b.d); return b.Batch.WriteSync() }

// SlowWrap returns a NodeOpts.Wrap that delays the batch writes of the state store.
func SlowWrap(d time.Duration) func(store string, x db.DB) db.DB {
	return func(store string, x db.DB) db.DB {
		if store != "state" {
			return x
		}
		return &slowDB{DB: x, d: d}
	}
}

package h

import (
	"fmt"

	db "github.com/tendermint/tm-db"
)

// CrashSentinel is the panic value of a simulated process death.
type CrashSentinel struct{ After int }

// WriteRec describes one observed write.
type WriteRec struct {
	Store string
	Kind  string
	Key   string
	N     int // operations in a batch
}

// Fault numbers every write across the wrapped stores and kills the "process" after Armed writes.
type Fault struct {
	Count int
	Armed int // -1 = never
	Log   []WriteRec
	On    bool // count/log only while On
}

func (f *Fault) hit(store, kind string, key []byte, n int) {
	if !f.On {
		return
	}
	if f.Armed >= 0 && f.Count >= f.Armed {
		panic(CrashSentinel{After: f.Count})
	}
	f.Count++
	k := string(key)
	if len(k) > 12 {
		k = fmt.Sprintf("%x", key[:6])
	} else {
		k = fmt.Sprintf("%q", k)
	}
	f.Log = append(f.Log, WriteRec{Store: store, Kind: kind, Key: k, N: n})
}

// Wrap returns the NodeOpts.Wrap function for this fault controller.
func (f *Fault) Wrap(store string, d db.DB) db.DB { return &faultDB{DB: d, f: f, store: store} }

type faultDB struct {
	db.DB
	f     *Fault
	store string
}

func (d *faultDB) Set(k, v []byte) error {
	d.f.hit(d.store, "set", k, 1)
	return d.DB.Set(k, v)
}
func (d *faultDB) SetSync(k, v []byte) error {
	d.f.hit(d.store, "set", k, 1)
	return d.DB.SetSync(k, v)
}
func (d *faultDB) Delete(k []byte) error {
	d.f.hit(d.store, "del", k, 1)
	return d.DB.Delete(k)
}
func (d *faultDB) DeleteSync(k []byte) error {
	d.f.hit(d.store, "del", k, 1)
	return d.DB.DeleteSync(k)
}
func (d *faultDB) NewBatch() db.Batch {
	return &faultBatch{Batch: d.DB.NewBatch(), d: d}
}

type faultBatch struct {
	db.Batch
	d     *faultDB
	n     int
	first []byte
}

func (b *faultBatch) Set(k, v []byte) error {
	if b.n == 0 {
		b.first = append([]byte{}, k...)
	}
	b.n++
	return b.Batch.Set(k, v)
}
func (b *faultBatch) Delete(k []byte) error {
	if b.n == 0 {
		b.first = append([]byte{}, k...)
	}
	b.n++
	return b.Batch.Delete(k)
}
func (b *faultBatch) Write() error {
	if b.n > 0 {
		b.d.f.hit(b.d.store, "batch", b.first, b.n)
	}
	return b.Batch.Write()
}
func (b *faultBatch) WriteSync() error {
	if b.n > 0 {
		b.d.f.hit(b.d.store, "batch", b.first, b.n)
	}
	return b.Batch.WriteSync()
}

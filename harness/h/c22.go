package h

// C22: coin registry - unique active tickers, fresh ids, owner-only control.
//
// The monitor keeps a reference registry that is fed only by observations: the genesis, the bytes of every delivered
// transaction (decoded here with own mirror structs through the rlp library, not with the transaction package), the
// response code and the id tags of accepted create / recreate / pool-create transactions.  Every acceptance is judged
// against the registry rules, and every export is compared with the registry coin by coin.

import (
	"encoding/hex"
	"fmt"
	"math/big"
	"math/rand"
	"sort"
	"strings"

	tx "github.com/MinterTeam/minter-go-node/coreV2/transaction"
	"github.com/MinterTeam/minter-go-node/coreV2/types"
	"github.com/MinterTeam/minter-go-node/rlp"
	abci "github.com/tendermint/tendermint/abci/types"
)

// wire mirrors (field order = wire order)
type c22Env struct {
	Nonce         uint64
	ChainID       uint8
	GasPrice      uint32
	GasCoin       uint32
	Type          uint8
	Data          []byte
	Payload       []byte
	ServiceData   []byte
	SignatureType uint8
	SignatureData []byte
}

type c22CreateCoin struct {
	Name                 string
	Symbol               [10]byte
	InitialAmount        *big.Int
	InitialReserve       *big.Int
	ConstantReserveRatio uint32
	MaxSupply            *big.Int
}

type c22CreateToken struct {
	Name          string
	Symbol        [10]byte
	InitialAmount *big.Int
	MaxSupply     *big.Int
	Mintable      bool
	Burnable      bool
}

type c22EditOwner struct {
	Symbol   [10]byte
	NewOwner [20]byte
}

type c22MintBurn struct {
	Coin  uint32
	Value *big.Int
}

func symStr(b [10]byte) string { return strings.TrimRight(string(b[:]), "\x00") }

// c22Decoded is what the registry needs to know about a transaction.
type c22Decoded struct {
	ok       bool
	symbol   string
	newOwner types.Address
	coin     uint32
	value    *big.Int
	initial  *big.Int
	max      *big.Int
}

func c22Decode(raw []byte) (t byte, d c22Decoded) {
	var env c22Env
	if err := rlp.DecodeBytes(raw, &env); err != nil {
		return 0, d
	}
	t = env.Type
	switch tx.TxType(t) {
	case tx.TypeCreateCoin, tx.TypeRecreateCoin:
		var x c22CreateCoin
		if rlp.DecodeBytes(env.Data, &x) == nil {
			d = c22Decoded{ok: true, symbol: symStr(x.Symbol), initial: x.InitialAmount, max: x.MaxSupply}
		}
	case tx.TypeCreateToken, tx.TypeRecreateToken:
		var x c22CreateToken
		if rlp.DecodeBytes(env.Data, &x) == nil {
			d = c22Decoded{ok: true, symbol: symStr(x.Symbol), initial: x.InitialAmount, max: x.MaxSupply}
		}
	case tx.TypeEditCoinOwner:
		var x c22EditOwner
		if rlp.DecodeBytes(env.Data, &x) == nil {
			d = c22Decoded{ok: true, symbol: symStr(x.Symbol), newOwner: types.Address(x.NewOwner)}
		}
	case tx.TypeMintToken, tx.TypeBurnToken:
		var x c22MintBurn
		if rlp.DecodeBytes(env.Data, &x) == nil {
			d = c22Decoded{ok: true, coin: x.Coin, value: x.Value}
		}
	case tx.TypeCreateSwapPool:
		d.ok = true
	}
	return
}

// ---------------------------------------------------------------------------------------------------------------
// reference registry

type c22Coin struct {
	id      uint64
	symbol  string
	active  bool
	version uint64 // of an archived coin; 0 = not yet learned from an export
	lp      bool
	born    int64 // height (0 = genesis)
}

type c22Registry struct {
	coins   map[uint64]*c22Coin
	count   uint64
	active  map[string]uint64            // ticker -> id of the coin the bare ticker resolves to
	owner   map[string]*types.Address    // ticker -> owner (absent: none)
	usedVer map[string]map[uint64]uint64 // ticker -> version -> id
	prevOwn map[string][]types.Address   // former owners (generation only)
	recN    map[string]int               // number of recreations per ticker
}

// MonRegistry implements C22.
type MonRegistry struct {
	BaseMon
	Res    *WorkerResult
	M      *c22Registry
	dec    c22Decoded
	typ    byte
	lpVol  map[uint64]*big.Int
	volB   *big.Int // volume / max supply of the coin a mint addresses, before the tx
	maxB   *big.Int
	lpTxOK map[uint64]bool // LP tokens whose pool saw an accepted liquidity tx in this block
}

func (m *MonRegistry) Name() string { return "C22" }

func (m *MonRegistry) rep(s *Sim, rule, site string, i int, format string, a ...interface{}) {
	h := s.H
	if s.CurReq != nil {
		h = s.CurReq.Height
	}
	s.Report(Violation{Property: "C22", Rule: rule, Site: site, Height: h, TxIndex: i, Detail: fmt.Sprintf(format, a...)})
}

func (m *MonRegistry) Init(s *Sim) {
	g := &c22Registry{coins: map[uint64]*c22Coin{}, active: map[string]uint64{}, owner: map[string]*types.Address{}, usedVer: map[string]map[uint64]uint64{},
		prevOwn: map[string][]types.Address{}, recN: map[string]int{}}
	m.M = g
	m.lpTxOK = map[uint64]bool{}
	for _, c := range s.Gen.Coins {
		sym := c.Symbol.String()
		rc := &c22Coin{id: c.ID, symbol: sym, active: c.Version == 0, version: c.Version, lp: strings.HasPrefix(sym, "LP-")}
		g.coins[c.ID] = rc
		if rc.active {
			g.active[sym] = c.ID
		} else {
			if g.usedVer[sym] == nil {
				g.usedVer[sym] = map[uint64]uint64{}
			}
			g.usedVer[sym][c.Version] = c.ID
		}
		if c.OwnerAddress != nil {
			o := *c.OwnerAddress
			g.owner[sym] = &o
		}
	}
	g.count = uint64(len(s.Gen.Coins))
	contiguous := true
	for id := uint64(1); id <= g.count; id++ {
		if g.coins[id] == nil {
			contiguous = false
		}
	}
	if contiguous {
		m.Res.Count("genesis/contiguous-ids", 1)
	} else {
		m.Res.Count("genesis/sparse-ids", 1)
	}
}

func (m *MonRegistry) lpVolumes(s *Sim) map[uint64]*big.Int {
	out := map[uint64]*big.Int{}
	cs := s.N.App.CurrentState()
	for id, c := range m.M.coins {
		if c.lp {
			if mc := cs.Coins().GetCoin(types.CoinID(id)); mc != nil {
				out[id] = new(big.Int).Set(mc.Volume())
			}
		}
	}
	return out
}

func (m *MonRegistry) BeforeTx(s *Sim, i int, raw []byte, meta *TxMeta) {
	m.typ, m.dec = c22Decode(raw)
	m.lpVol = m.lpVolumes(s)
	m.volB, m.maxB = nil, nil
	if m.dec.ok && tx.TxType(m.typ) == tx.TypeMintToken {
		if mc := s.N.App.CurrentState().Coins().GetCoin(types.CoinID(m.dec.coin)); mc != nil {
			m.volB, m.maxB = new(big.Int).Set(mc.Volume()), new(big.Int).Set(mc.MaxSupply())
		}
	}
}

func ownerStr(o *types.Address) string {
	if o == nil {
		return "nobody"
	}
	return o.String()
}

func (m *MonRegistry) newCoin(s *Sim, i int, idTag string, sym string, lp bool, site string) *c22Coin {
	g := m.M
	id := BI(idTag).Uint64()
	if id != g.count+1 {
		m.rep(s, "new-id-not-next", site, i, "new coin %s got id %d, registry has %d coins so the next id is %d", sym, id, g.count, g.count+1)
	}
	if old := g.coins[id]; old != nil {
		m.rep(s, "id-reused", site, i, "id %d given to %s already belongs to %s (created at height %d)", id, sym, old.symbol, old.born)
		return nil
	}
	if cur, dup := g.active[sym]; dup && site != "recreate" {
		m.rep(s, "duplicate-active-ticker", site, i, "ticker %s created with id %d while coin %d is active under the same ticker", sym, id, cur)
	}
	c := &c22Coin{id: id, symbol: sym, active: true, lp: lp, born: s.CurReq.Height}
	g.coins[id] = c
	g.active[sym] = id
	if id > g.count {
		g.count = id
	} else {
		g.count++
	}
	return c
}

func (m *MonRegistry) AfterTx(s *Sim, i int, raw []byte, meta *TxMeta, res *abci.ResponseDeliverTx) {
	g := m.M
	t := tx.TxType(m.typ)
	tags := Tags(res)
	// pool tokens are minted only by adding liquidity
	after := m.lpVolumes(s)
	for id, v := range after {
		b := m.lpVol[id]
		if b == nil {
			continue
		}
		if c := v.Cmp(b); c > 0 {
			okTx := res.Code == 0 && t == tx.TypeAddLiquidity && tags["tx.pool_token_id"] == fmt.Sprint(id)
			if okTx {
				m.Res.Count("lp-minted-by-add-liquidity", 1)
				if inc := new(big.Int).Sub(v, b); inc.Cmp(BI(tags["tx.liquidity"])) != 0 {
					m.rep(s, "pool-token-minted", "add-liquidity-amount", i, "pool token %d volume +%s but tx.liquidity=%s", id, inc, tags["tx.liquidity"])
				}
			} else {
				m.rep(s, "pool-token-minted", fmt.Sprintf("type %02x", m.typ), i, "pool token %d (%s) volume %s -> %s in a transaction of type %02x code %d", id, g.coins[id].symbol, b, v, m.typ, res.Code)
			}
		} else if c < 0 {
			m.Res.Count(fmt.Sprintf("lp-volume-decreased/type-%02x", m.typ), 1)
		}
	}
	if res.Code == 0 && (t == tx.TypeAddLiquidity || t == tx.TypeRemoveLiquidity || t == tx.TypeCreateSwapPool) {
		m.lpTxOK[BI(tags["tx.pool_token_id"]).Uint64()] = true
	}
	if !m.dec.ok || meta.Sender == "" || meta.Kind == "mutated" || meta.Kind == "raw" {
		return
	}
	snd := addrOf(meta.Sender)
	d := m.dec
	m.Res.Evaluations++
	own := g.owner[d.symbol]
	rel := func(sym string) string {
		o := g.owner[sym]
		switch {
		case o == nil:
			return "ticker-without-owner"
		case *o == snd:
			return "by-owner"
		}
		for _, p := range g.prevOwn[sym] {
			if p == snd {
				return "by-former-owner"
			}
		}
		return "by-stranger"
	}
	acc := fmt.Sprintf("code %d", res.Code)
	if res.Code == 0 {
		acc = "ACCEPTED"
	}
	ms := ""
	if meta.Msig {
		ms = "/msig"
	}
	switch t {
	case tx.TypeCreateCoin, tx.TypeCreateToken:
		cls := "fresh-ticker"
		if _, dup := g.active[d.symbol]; dup {
			cls = "active-ticker"
		}
		ln := "long"
		if len(d.symbol) <= 6 {
			ln = "short"
		}
		m.Res.Seen(fmt.Sprintf("create %02x %s %s-ticker%s -> %s", m.typ, cls, ln, ms, acc))
		if res.Code != 0 {
			return
		}
		if tags["tx.coin_symbol"] != d.symbol {
			m.rep(s, "registry-differs", "create-tag-symbol", i, "tx.coin_symbol=%s, data says %s", tags["tx.coin_symbol"], d.symbol)
		}
		if c := m.newCoin(s, i, tags["tx.coin_id"], d.symbol, false, "create"); c != nil {
			o := snd
			g.owner[d.symbol] = &o
		}
		m.Res.Count("accepted/create", 1)
	case tx.TypeRecreateCoin, tx.TypeRecreateToken:
		state := "unknown-ticker"
		if id, okk := g.active[d.symbol]; okk {
			state = rel(d.symbol)
			if g.coins[id].lp {
				state = "pool-token/" + state
			}
			if g.recN[d.symbol] > 0 {
				state += fmt.Sprintf("/recreated-%dx-before", minInt(g.recN[d.symbol], 3))
			}
		}
		m.Res.Seen(fmt.Sprintf("recreate %02x %s%s -> %s", m.typ, state, ms, acc))
		if res.Code != 0 {
			if strings.Contains(state, "by-stranger") || strings.Contains(state, "by-former-owner") || strings.Contains(state, "without-owner") {
				m.Res.Count("must-reject-and-rejected/recreate-not-owner", 1)
			}
			return
		}
		oldID, okk := g.active[d.symbol]
		if !okk {
			m.rep(s, "recreate-unknown-ticker", "recreate", i, "ticker %s recreated but no active coin has it", d.symbol)
			return
		}
		if own == nil || *own != snd {
			m.rep(s, "owner-only", "recreate", i, "ticker %s (owner %s) recreated by %s", d.symbol, ownerStr(own), snd.String())
		}
		if tags["tx.old_coin_id"] != fmt.Sprint(oldID) {
			m.rep(s, "registry-differs", "recreate-old-id-tag", i, "tx.old_coin_id=%s but the active coin of %s is %d", tags["tx.old_coin_id"], d.symbol, oldID)
		}
		old := g.coins[oldID]
		old.active, old.version = false, 0 // version learned from the next export
		delete(g.active, d.symbol)
		m.newCoin(s, i, tags["tx.coin_id"], d.symbol, false, "recreate")
		g.recN[d.symbol]++
		m.Res.Count("accepted/recreate", 1)
		m.Res.Sample(map[string]interface{}{"height": s.CurReq.Height, "op": "recreate", "ticker": d.symbol, "by": snd.String(), "old_id": oldID, "new_id": tags["tx.coin_id"], "recreations_of_ticker": g.recN[d.symbol]}, 3)
	case tx.TypeEditCoinOwner:
		state := "unknown-ticker"
		if _, okk := g.active[d.symbol]; okk {
			state = rel(d.symbol)
		}
		m.Res.Seen(fmt.Sprintf("edit-owner %s%s -> %s", state, ms, acc))
		if res.Code != 0 {
			if state != "by-owner" {
				m.Res.Count("must-reject-and-rejected/edit-owner-not-owner", 1)
			}
			return
		}
		if own == nil || *own != snd {
			m.rep(s, "owner-only", "edit-owner", i, "owner of ticker %s (owner %s) changed by %s", d.symbol, ownerStr(own), snd.String())
		}
		if own != nil {
			g.prevOwn[d.symbol] = append(g.prevOwn[d.symbol], *own)
		}
		o := d.newOwner
		g.owner[d.symbol] = &o
		m.Res.Count("accepted/edit-owner", 1)
	case tx.TypeMintToken:
		c := g.coins[uint64(d.coin)]
		state := "unknown-coin"
		over := false
		if c != nil {
			state = rel(c.symbol)
			if c.lp {
				state = "pool-token"
			}
			if !c.active {
				state += "/archived-version"
			}
			if m.volB != nil && new(big.Int).Add(m.volB, d.value).Cmp(m.maxB) > 0 {
				over = true
				state += "/over-max-supply"
			}
		}
		m.Res.Seen(fmt.Sprintf("mint %s%s -> %s", state, ms, acc))
		if res.Code != 0 {
			if c != nil && (c.lp || over || !strings.HasPrefix(state, "by-owner")) {
				m.Res.Count("must-reject-and-rejected/mint", 1)
			}
			return
		}
		if c == nil {
			m.rep(s, "owner-only", "mint-unknown-coin", i, "mint of coin %d accepted, the registry has no such coin", d.coin)
			return
		}
		if c.lp {
			m.rep(s, "pool-token-minted", "mint-tx", i, "MintToken of pool token %d (%s) by %s accepted", c.id, c.symbol, snd.String())
		}
		if o := g.owner[c.symbol]; o == nil || *o != snd {
			m.rep(s, "owner-only", "mint", i, "coin %d of ticker %s (owner %s) minted by %s", c.id, c.symbol, ownerStr(o), snd.String())
		}
		if over {
			m.rep(s, "mint-over-max-supply", "mint", i, "coin %d: volume %s + %s > max supply %s", c.id, m.volB, d.value, m.maxB)
		}
		m.Res.Count("accepted/mint", 1)
	case tx.TypeBurnToken:
		c := g.coins[uint64(d.coin)]
		if c != nil && c.lp {
			m.Res.Seen("burn of a pool token -> " + acc)
		}
	case tx.TypeCreateSwapPool:
		m.Res.Seen("create-pool -> " + acc)
		if res.Code != 0 {
			return
		}
		sym := tags["tx.pool_token"]
		if sym != "LP-"+tags["tx.pool_id"] {
			m.rep(s, "registry-differs", "pool-token-symbol", i, "pool %s got token %s", tags["tx.pool_id"], sym)
		}
		m.newCoin(s, i, tags["tx.pool_token_id"], sym, true, "create-pool")
		m.Res.Count("accepted/create-pool", 1)
		m.Res.Sample(map[string]interface{}{"height": s.CurReq.Height, "op": "create-pool", "pool_token": sym, "new_id": tags["tx.pool_token_id"], "registry_count": g.count}, 5)
	}
}

func (m *MonRegistry) AfterBlock(s *Sim, req *BlockReq, res *BlockRes) {
	if s.Post == nil || res.Stopped {
		return
	}
	g := m.M
	m.Res.Evaluations++
	site := func(c string) string { return "export:" + c }
	if uint64(len(s.Post.Coins)) != g.count {
		m.rep(s, "registry-differs", site("count"), -1, "export has %d coins, registry %d", len(s.Post.Coins), g.count)
	}
	if n := uint64(s.N.App.CurrentState().App().GetCoinsCount()); n != g.count {
		m.rep(s, "registry-differs", site("coins-count"), -1, "node's coin counter %d, registry %d", n, g.count)
	}
	seen := map[uint64]bool{}
	pair := map[string]uint64{}
	bad := 0
	for i := range s.Post.Coins {
		c := &s.Post.Coins[i]
		sym := c.Symbol.String()
		seen[c.ID] = true
		k := fmt.Sprintf("%s-%d", sym, c.Version)
		if o, dup := pair[k]; dup {
			if c.Version == 0 {
				m.rep(s, "duplicate-active-ticker", site("export"), -1, "coins %d and %d are both active under ticker %s", o, c.ID, sym)
			} else {
				m.rep(s, "version-reused", site("export"), -1, "coins %d and %d both are %s", o, c.ID, k)
			}
		}
		pair[k] = c.ID
		rc := g.coins[c.ID]
		if rc == nil {
			if bad++; bad < 3 {
				m.rep(s, "registry-differs", site("unknown-coin"), -1, "export has coin %d (%s) the registry never saw created", c.ID, sym)
			}
			continue
		}
		if rc.symbol != sym {
			m.rep(s, "id-reused", site("symbol-changed"), -1, "coin %d was %s, now %s", c.ID, rc.symbol, sym)
			continue
		}
		switch {
		case rc.active && c.Version != 0:
			m.rep(s, "registry-differs", site("active-coin-has-version"), -1, "coin %d is the active %s in the registry but exported with version %d", c.ID, sym, c.Version)
		case !rc.active && c.Version == 0:
			m.rep(s, "recreated-coin-keeps-bare-ticker", site("version"), -1, "coin %d (%s) was replaced by a recreation but is still exported with version 0", c.ID, sym)
		case !rc.active && rc.version == 0:
			// first export after its recreation: the version must be new for this ticker
			if g.usedVer[sym] == nil {
				g.usedVer[sym] = map[uint64]uint64{}
			}
			if o, used := g.usedVer[sym][c.Version]; used && o != c.ID {
				m.rep(s, "version-reused", site("version"), -1, "coin %d archived as %s-%d, a version already carried by coin %d", c.ID, sym, c.Version, o)
			}
			g.usedVer[sym][c.Version] = c.ID
			rc.version = c.Version
			m.Res.Seen(fmt.Sprintf("archived under version %d", minInt(int(c.Version), 6)))
		case !rc.active && rc.version != c.Version:
			m.rep(s, "registry-differs", site("version-changed"), -1, "coin %d (%s) version %d -> %d", c.ID, sym, rc.version, c.Version)
			rc.version = c.Version
		}
		o := g.owner[sym]
		if (o == nil) != (c.OwnerAddress == nil) || (o != nil && *o != *c.OwnerAddress) {
			if bad++; bad < 3 {
				m.rep(s, "registry-differs", site("owner"), -1, "ticker %s (coin %d): export owner %s, registry owner %s", sym, c.ID, ownerStr(c.OwnerAddress), ownerStr(o))
			}
		}
	}
	for id, rc := range g.coins {
		if !seen[id] {
			m.rep(s, "registry-differs", site("missing-coin"), -1, "coin %d (%s) is gone from the export", id, rc.symbol)
			break
		}
	}
	// pool token volumes between exports: growth only in blocks with an accepted liquidity tx of that pool
	if s.Pre != nil {
		pre := map[uint64]string{}
		for _, c := range s.Pre.Coins {
			pre[c.ID] = c.Volume
		}
		for _, c := range s.Post.Coins {
			rc := g.coins[c.ID]
			if rc == nil || !rc.lp {
				continue
			}
			if b, okk := pre[c.ID]; okk && BI(c.Volume).Cmp(BI(b)) > 0 && !m.lpTxOK[c.ID] {
				m.rep(s, "pool-token-minted", "block", -1, "pool token %d volume %s -> %s in a block without an accepted liquidity transaction of its pool", c.ID, b, c.Volume)
			}
		}
	}
	m.lpTxOK = map[uint64]bool{}
	m.Res.Count("exports_compared", 1)
	m.Res.Count("export_coins_compared", int64(len(s.Post.Coins)))
}

// ---------------------------------------------------------------------------------------------------------------
// generator

type c22Gen struct {
	s    *Sim
	d    *Driver
	r    *rand.Rand
	mon  *MonRegistry
	idx  int
	symN int
}

func (g *c22Gen) cs() interface {
	GetBalance(types.Address, types.CoinID) *big.Int
} {
	return g.s.N.App.CurrentState().Accounts()
}

func (g *c22Gen) freshSymbol() string {
	g.symN++
	const al = "ABCDEFGHIJKLMNOPQRSTUVWXYZ0123456789"
	n := 7 + g.r.Intn(4)
	switch g.r.Intn(14) {
	case 0:
		n = 6
	case 1:
		n = 5
	}
	base := fmt.Sprintf("Q%d", g.symN)
	for len(base) < n {
		base += string(al[g.r.Intn(len(al))])
	}
	return base[:n]
}

func (g *c22Gen) env(t tx.TxType, data interface{}, snd Senderish, variant string) ([]byte, TxMeta) {
	a := snd.Addr()
	nonce := g.s.N.App.CurrentState().Accounts().GetNonce(a) + 1
	sp := &TxSpec{Nonce: nonce, ChainID: types.CurrentChainID, GasPrice: 1, GasCoin: 0, Type: t, Data: data, Signer: snd.K, Multisig: snd.M}
	if g.r.Intn(6) == 0 {
		sp.GasCoin, _ = g.d.G.heldCoin(a)
	}
	meta := TxMeta{Type: byte(t), Sender: hex.EncodeToString(a[:]), Nonce: nonce, GasCoin: uint32(sp.GasCoin), GasPrice: 1, Kind: "c22:" + variant, Msig: snd.M != nil, Chain: byte(types.CurrentChainID)}
	return sp.Encode(), meta
}

func (g *c22Gen) rich() Senderish {
	best := g.s.W.Users[g.r.Intn(len(g.s.W.Users))]
	for try := 0; try < 4; try++ {
		u := g.s.W.Users[g.r.Intn(len(g.s.W.Users))]
		if g.cs().GetBalance(u.Addr, 0).Cmp(g.cs().GetBalance(best.Addr, 0)) > 0 {
			best = u
		}
	}
	if g.r.Intn(12) == 0 && len(g.s.W.Multisigs) > 0 {
		return Senderish{M: g.s.W.Multisigs[g.r.Intn(len(g.s.W.Multisigs))]}
	}
	return Senderish{K: best}
}

func (g *c22Gen) anyone() Senderish {
	if g.r.Intn(10) == 0 && len(g.s.W.Multisigs) > 0 {
		return Senderish{M: g.s.W.Multisigs[g.r.Intn(len(g.s.W.Multisigs))]}
	}
	return Senderish{K: g.s.W.Users[g.r.Intn(len(g.s.W.Users))]}
}

// tickers lists active non-pool tickers the scenario may play with (sorted for determinism).
func (g *c22Gen) tickers(filter func(sym string, c *c22Coin) bool) []string {
	var out []string
	for sym, id := range g.mon.M.active {
		c := g.mon.M.coins[id]
		if c.lp || sym == "USDTE" || (strings.HasPrefix(sym, "F") && id > 4 && id < CoinUSDT) {
			continue
		}
		if filter == nil || filter(sym, c) {
			out = append(out, sym)
		}
	}
	sort.Strings(out)
	return out
}

func (g *c22Gen) createData(t tx.TxType, sym string) interface{} {
	r := g.r
	amt := Bip(int64(1 + r.Intn(1000000)))
	max := new(big.Int).Add(amt, Bip(int64(r.Intn(1000000))))
	s := types.StrToCoinSymbol(sym)
	switch t {
	case tx.TypeCreateCoin:
		return tx.CreateCoinData{Name: "c22 coin", Symbol: s, InitialAmount: amt, InitialReserve: Bip(int64(10000 + r.Intn(20000))), ConstantReserveRatio: uint32(10 + r.Intn(91)), MaxSupply: max}
	case tx.TypeRecreateCoin:
		return tx.RecreateCoinData{Name: "c22 coin r", Symbol: s, InitialAmount: amt, InitialReserve: Bip(int64(10000 + r.Intn(20000))), ConstantReserveRatio: uint32(10 + r.Intn(91)), MaxSupply: max}
	case tx.TypeCreateToken:
		return tx.CreateTokenData{Name: "c22 token", Symbol: s, InitialAmount: amt, MaxSupply: max, Mintable: r.Intn(4) != 0, Burnable: r.Intn(2) == 0}
	default:
		return tx.RecreateTokenData{Name: "c22 token r", Symbol: s, InitialAmount: amt, MaxSupply: max, Mintable: r.Intn(4) != 0, Burnable: r.Intn(2) == 0}
	}
}

func (g *c22Gen) ownerOf(sym string) (Senderish, bool) {
	o := g.mon.M.owner[sym]
	if o == nil {
		return Senderish{}, false
	}
	return g.d.G.signerFor(*o)
}

func (g *c22Gen) stranger(sym string) Senderish {
	o := g.mon.M.owner[sym]
	// prefer a former owner
	if fo := g.mon.M.prevOwn[sym]; len(fo) > 0 && g.r.Intn(2) == 0 {
		if sg, ok := g.d.G.signerFor(fo[g.r.Intn(len(fo))]); ok && (o == nil || sg.Addr() != *o) {
			return sg
		}
	}
	for {
		x := g.anyone()
		if o == nil || x.Addr() != *o {
			return x
		}
	}
}

func (g *c22Gen) lpIDs() []uint64 {
	var out []uint64
	for id, c := range g.mon.M.coins {
		if c.lp {
			out = append(out, id)
		}
	}
	sort.Slice(out, func(i, j int) bool { return out[i] < out[j] })
	return out
}

// next produces one registry transaction (ok=false: fall back to the shared generator).
func (g *c22Gen) next() ([]byte, TxMeta, bool) {
	r := g.r
	M := g.mon.M
	ct := []tx.TxType{tx.TypeCreateCoin, tx.TypeCreateToken}[r.Intn(2)]
	rt := []tx.TxType{tx.TypeRecreateCoin, tx.TypeRecreateToken}[r.Intn(2)]
	x := r.Intn(100)
	switch {
	case x < 16:
		if r.Intn(8) == 0 {
			// a ticker of the form pool tokens get ("LP-<pool id>") for a pool that does not exist yet (lead: added after seed
			// C13-m3): if the node accepts it, the pool created next has a pool token whose ticker is already active
			next := uint64(1)
			for _, p := range g.s.Post.Pools {
				if p.ID >= next {
					next = p.ID + 1
				}
			}
			b, m := g.env(ct, g.createData(ct, fmt.Sprintf("LP-%d", next+uint64(r.Intn(3)))), g.rich(), "create-pool-token-ticker")
			return b, m, true
		}
		b, m := g.env(ct, g.createData(ct, g.freshSymbol()), g.rich(), "create-fresh")
		return b, m, true
	case x < 22:
		ts := g.tickers(nil)
		if len(ts) == 0 {
			return nil, TxMeta{}, false
		}
		sym := ts[r.Intn(len(ts))]
		if r.Intn(6) == 0 {
			sym = "USDTE"
		}
		b, m := g.env(ct, g.createData(ct, sym), g.rich(), "create-active-ticker")
		return b, m, true
	case x < 40:
		// recreate by the owner; prefer tickers recreated before (version numbers must keep growing)
		ts := g.tickers(func(sym string, c *c22Coin) bool { _, ok := g.ownerOf(sym); return ok })
		if len(ts) == 0 {
			return nil, TxMeta{}, false
		}
		sym := ts[r.Intn(len(ts))]
		if r.Intn(2) == 0 {
			var again []string
			for _, t := range ts {
				if M.recN[t] > 0 {
					again = append(again, t)
				}
			}
			if len(again) > 0 {
				sym = again[r.Intn(len(again))]
			}
		}
		o, _ := g.ownerOf(sym)
		b, m := g.env(rt, g.createData(rt, sym), o, "recreate-by-owner")
		return b, m, true
	case x < 50:
		ts := g.tickers(nil)
		if len(ts) == 0 {
			return nil, TxMeta{}, false
		}
		sym := ts[r.Intn(len(ts))]
		if r.Intn(8) == 0 {
			if lp := g.lpIDs(); len(lp) > 0 {
				sym = M.coins[lp[r.Intn(len(lp))]].symbol
			}
		}
		b, m := g.env(rt, g.createData(rt, sym), g.stranger(sym), "recreate-by-stranger")
		return b, m, true
	case x < 60:
		ts := g.tickers(func(sym string, c *c22Coin) bool { _, ok := g.ownerOf(sym); return ok })
		if len(ts) == 0 {
			return nil, TxMeta{}, false
		}
		sym := ts[r.Intn(len(ts))]
		o, _ := g.ownerOf(sym)
		no := g.anyone().Addr()
		if r.Intn(10) == 0 {
			no = o.Addr() // to itself
		}
		b, m := g.env(tx.TypeEditCoinOwner, tx.EditCoinOwnerData{Symbol: types.StrToCoinSymbol(sym), NewOwner: no}, o, "edit-owner-by-owner")
		return b, m, true
	case x < 67:
		ts := g.tickers(nil)
		if len(ts) == 0 {
			return nil, TxMeta{}, false
		}
		sym := ts[r.Intn(len(ts))]
		st := g.stranger(sym)
		b, m := g.env(tx.TypeEditCoinOwner, tx.EditCoinOwnerData{Symbol: types.StrToCoinSymbol(sym), NewOwner: st.Addr()}, st, "edit-owner-by-stranger")
		return b, m, true
	case x < 88:
		// mint: by owner, by stranger, of a pool token, over max supply, of an archived version
		var ids []uint64
		for id, c := range M.coins {
			if c.lp || (strings.HasPrefix(c.symbol, "F") && id > 4 && id < CoinUSDT) || id == CoinUSDT {
				continue
			}
			ids = append(ids, id)
		}
		sort.Slice(ids, func(i, j int) bool { return ids[i] < ids[j] })
		if len(ids) == 0 {
			return nil, TxMeta{}, false
		}
		id := ids[r.Intn(len(ids))]
		// prefer mintable tokens
		for try := 0; try < 6; try++ {
			if mc := g.s.N.App.CurrentState().Coins().GetCoin(types.CoinID(id)); mc != nil && mc.IsMintable() {
				break
			}
			id = ids[r.Intn(len(ids))]
		}
		c := M.coins[id]
		v := Bip(int64(1 + r.Intn(10000)))
		variant := "mint-by-owner"
		snd, ok := g.ownerOf(c.symbol)
		k := r.Intn(10)
		switch {
		case k < 3 || !ok:
			snd, variant = g.stranger(c.symbol), "mint-by-stranger"
		case k < 5:
			if lp := g.lpIDs(); len(lp) > 0 {
				id = lp[r.Intn(len(lp))]
				snd, variant = g.anyone(), "mint-pool-token"
				// often: somebody who holds the pool token
				for _, u := range g.s.W.Users {
					if g.cs().GetBalance(u.Addr, types.CoinID(id)).Sign() > 0 && r.Intn(2) == 0 {
						snd = Senderish{K: u}
					}
				}
			}
		case k < 6:
			if mc := g.s.N.App.CurrentState().Coins().GetCoin(types.CoinID(id)); mc != nil {
				v = new(big.Int).Sub(mc.MaxSupply(), mc.Volume())
				if r.Intn(3) != 0 {
					v.Add(v, big.NewInt(1))
					variant = "mint-over-max"
				} else {
					variant = "mint-to-max"
				}
			}
		case k < 7:
			// an archived version of a ticker whose owner we control
			var arch []uint64
			for aid, ac := range M.coins {
				if !ac.active {
					if _, okk := g.ownerOf(ac.symbol); okk {
						arch = append(arch, aid)
					}
				}
			}
			sort.Slice(arch, func(i, j int) bool { return arch[i] < arch[j] })
			if len(arch) > 0 {
				id = arch[r.Intn(len(arch))]
				snd, _ = g.ownerOf(M.coins[id].symbol)
				variant = "mint-archived"
			}
		}
		if variant == "mint-pool-token" && r.Intn(4) == 0 {
			// a holder burns its own pool tokens (volume may only go down)
			if bal := g.cs().GetBalance(snd.Addr(), types.CoinID(id)); bal.Sign() > 0 {
				b, m := g.env(tx.TypeBurnToken, tx.BurnTokenDataV260{Coin: types.CoinID(id), Value: g.d.G.amount(bal, "valid")}, snd, "burn-pool-token")
				return b, m, true
			}
		}
		b, m := g.env(tx.TypeMintToken, tx.MintTokenData{Coin: types.CoinID(id), Value: v}, snd, variant)
		return b, m, true
	default:
		// pool between two coins the sender holds (new coins included)
		snd := g.rich()
		a := snd.Addr()
		var held []uint64
		for id := range M.coins {
			if id > 4 && id < CoinUSDT && strings.HasPrefix(M.coins[id].symbol, "F") {
				continue
			}
			if g.cs().GetBalance(a, types.CoinID(id)).Sign() > 0 {
				held = append(held, id)
			}
		}
		held = append(held, 0)
		sort.Slice(held, func(i, j int) bool { return held[i] < held[j] })
		if len(held) < 2 {
			return nil, TxMeta{}, false
		}
		// prefer the newest coins
		c0 := held[len(held)-1-r.Intn(minInt(len(held), 3))]
		c1 := held[r.Intn(len(held))]
		if c0 == c1 {
			return nil, TxMeta{}, false
		}
		v0 := g.d.G.amount(g.cs().GetBalance(a, types.CoinID(c0)), "valid")
		v1 := g.d.G.amount(g.cs().GetBalance(a, types.CoinID(c1)), "valid")
		b, m := g.env(tx.TypeCreateSwapPool, tx.CreateSwapPoolData{Coin0: types.CoinID(c0), Coin1: types.CoinID(c1), Volume0: v0, Volume1: v1}, snd, "create-pool")
		return b, m, true
	}
}

func (g *c22Gen) block(pOwn float64, maxTxs int) {
	d := g.d
	req := d.NextReq()
	n := 1 + g.r.Intn(maxTxs)
	d.S.RunBlock(req, nil, func(i int) ([]byte, TxMeta, bool) {
		if i > 0 {
			res := d.S.CurRes.Deliver[i-1]
			pm := d.S.Metas[i-1]
			d.G.Learn(&pm, res.Code, Tags(&res))
		}
		if i >= n {
			return nil, TxMeta{}, false
		}
		if g.r.Float64() < pOwn {
			if b, m, ok := g.next(); ok {
				return b, m, true
			}
		}
		b, m := d.G.Next()
		return b, m, true
	})
}

var c22Required = []string{
	"accepted/create", "accepted/recreate", "accepted/edit-owner", "accepted/mint", "accepted/create-pool",
	"must-reject-and-rejected/recreate-not-owner", "must-reject-and-rejected/edit-owner-not-owner", "must-reject-and-rejected/mint",
	"lp-minted-by-add-liquidity", "genesis/contiguous-ids",
}

func init() {
	mons := func(res *WorkerResult) []Monitor { return []Monitor{&MonRegistry{Res: res}} }
	MonitorsFor["C22"] = mons
	Register(&CheckDef{
		ID: "C22", Level: "exploration",
		Rule: "generated histories; every second case uses the 'filler' genesis (coin ids 1..1998 contiguous, as on a real chain), the others the standard families (sparse ids: 'next id' = coin count + 1). ~55% of the slots are registry transactions made here: create coin/token with fresh tickers (5..10 letters) and with active tickers, recreate coin/token by the ticker owner (repeatedly: versions must keep growing), by strangers, by former owners, of pool-token tickers; owner changes by owner / stranger / former owner (to users, multisigs, itself); MintToken by owner / stranger / of pool tokens (by holders too) / to and over max supply / of archived versions; pool creation between held coins including coins created in the same block; the rest is background traffic of all types (adds/removes liquidity, burns, trades). Reference registry fed by genesis + delivered bytes (own rlp mirror structs) + response codes + id tags: new id = registry count + 1 and never seen before; active ticker unique; recreate/owner-change/mint accepted only from the registry's owner of the ticker; mint within max supply (accessor read before the tx); pool-token volume (accessor around every DeliverTx, exports around every block) grows only in an accepted AddLiquidity of its pool and by exactly tx.liquidity; after every block the export is compared coin by coin with the registry (same id set, tickers, active/archived state, archived version new for its ticker, (ticker,version) unique, owners, coin counter). One evaluation = one registry transaction judged or one export compared; distinct = (operation, relation of sender to ticker, ticker state, outcome)",
		Assumptions: []string{
			"transactions are decoded by the monitor itself (mirror structs + rlp library); sender = generator ground truth (no mutated transactions in these histories)",
			"on sparse-id genesis families 'next unused id' is read as coin count + 1 (what a contiguous chain gives); the contiguous filler family is the authoritative one",
			"only INCREASES of pool-token volume are judged (burning one's own pool tokens is not excluded by the statement)",
		},
		Quick: 42, Thorough: 420, MinEval: 6000, MinDistinct: 80,
		Run: func(ctx *WorkCtx, idx int) {
			r := Rng(ctx.Seed, "C22", idx)
			blocks := 60
			var sc Scenario
			if idx%2 == 0 {
				sc = StdScenario(8, r, blocks) // filler
			} else {
				sc = StdScenario(idx/2, r, blocks)
				if sc.Family == "crowded" || sc.Family == "filler" {
					sc = StdScenario(0, r, blocks)
				}
			}
			mon := &MonRegistry{Res: ctx.Res}
			s, d := sc.Build("C22", ctx.Seed, idx, r, mon)
			d.PByz = 0
			d.G.SetWeight(tx.TypeAddLiquidity, 30)
			d.G.SetWeight(tx.TypeRemoveLiquidity, 15)
			d.G.SetWeight(tx.TypeBurnToken, 15)
			g := &c22Gen{s: s, d: d, r: Rng(ctx.Seed, "C22gen", idx), mon: mon, idx: idx}
			for b := 0; b < sc.Blocks && !s.Dead && !s.Stopped; b++ {
				// process restarts between blocks (lead: added after seed C22-m1 - the coin counter and the registry must be what the
				// disk holds, not what the process remembers): the ids handed out after a restart are judged like all others
				if b > 0 && g.r.Intn(7) == 0 {
					s.Restart()
					ctx.Res.Count("restarts", 1)
					ctx.Res.Seen("process restarted between registry transactions")
				}
				g.block(0.55, 10)
			}
			ctx.Res.Count("blocks", s.H-s.W.InitialHeight+1)
			ctx.Res.Count("family/"+sc.Family, 1)
			ctx.Collect(s, idx)
			s.Finish()
		},
		Post: func(total *WorkerResult) {
			var missing []string
			for _, k := range c22Required {
				if total.Counters[k] == 0 {
					missing = append(missing, k)
				}
			}
			if len(missing) > 0 {
				total.Notes = append(total.Notes, fmt.Sprintf("required observations missing (evaluations zeroed so that the run is reported broken): %v", missing))
				total.Evaluations = 0
			}
		},
	})
}

package h

import (
	"bufio"
	"crypto/sha256"
	"encoding/binary"
	"encoding/hex"
	"fmt"
	"os"
	"os/exec"
	"path/filepath"
	"strings"

	"github.com/MinterTeam/minter-go-node/coreV2/types"
)

// BlockDigest hashes everything consensus-relevant an instance answered for one block:
// per tx code, data, gas wanted/used, tags; validator updates; max gas; app hash.
func BlockDigest(res *BlockRes) string {
	h := sha256.New()
	w := func(b []byte) {
		var l [8]byte
		binary.LittleEndian.PutUint64(l[:], uint64(len(b)))
		h.Write(l[:])
		h.Write(b)
	}
	wi := func(x int64) {
		var l [8]byte
		binary.LittleEndian.PutUint64(l[:], uint64(x))
		h.Write(l[:])
	}
	if res.Panic != nil {
		w([]byte("panic"))
	}
	if res.Stopped {
		w([]byte("stopped"))
	}
	for _, d := range res.Deliver {
		wi(int64(d.Code))
		w(d.Data)
		wi(d.GasWanted)
		wi(d.GasUsed)
		for _, e := range d.Events {
			w([]byte(e.Type))
			for _, a := range e.Attributes {
				w(a.Key)
				w(a.Value)
				if a.Index {
					wi(1)
				} else {
					wi(0)
				}
			}
		}
	}
	for _, u := range res.End.ValidatorUpdates {
		w(u.PubKey.GetEd25519())
		wi(u.Power)
	}
	if res.End.ConsensusParamUpdates != nil && res.End.ConsensusParamUpdates.Block != nil {
		wi(res.End.ConsensusParamUpdates.Block.MaxGas)
	}
	w(res.Commit.Data)
	return hex.EncodeToString(h.Sum(nil))
}

// DigestHistory executes a recorded history on a fresh instance and writes "height digest" lines (subcommand `digest`).
func DigestHistory(histPath, outPath string) int {
	hist, err := LoadHistory(histPath)
	if err != nil {
		fmt.Fprintln(os.Stderr, err)
		return 2
	}
	types.CurrentChainID = types.ChainID(hist.ChainID)
	n := NewNode(NodeOpts{StakePeriod: hist.StakePeriod, ExpirePeriod: hist.ExpirePeriod, KeepLastStates: hist.KeepLast})
	defer n.Destroy()
	f, err := os.Create(outPath)
	if err != nil {
		return 2
	}
	defer f.Close()
	bw := bufio.NewWriter(f)
	defer bw.Flush()
	if _, pi := n.InitChain(hist.GenesisOf(), hist.InitialHeight, GenesisT0); pi != nil {
		fmt.Fprintln(bw, "init panic")
		return 0
	}
	for i := range hist.Blocks {
		req, _ := hist.Blocks[i].Req()
		res := n.RunBlock(req, nil)
		fmt.Fprintf(bw, "%d %s\n", req.Height, BlockDigest(res))
		if res.Panic != nil || res.Stopped {
			break
		}
	}
	e := n.App.CurrentState().Export()
	bz := Flatten(&e)
	hs := sha256.New()
	for _, l := range DiffFlat(Flat{}, bz, 0) {
		hs.Write([]byte(l))
	}
	fmt.Fprintf(bw, "export %s\n", hex.EncodeToString(hs.Sum(nil)))
	fmt.Fprintf(bw, "emission %s\n", n.App.GetEmission())
	return 0
}

// MonDigest records the digests of the generating instance.
type MonDigest struct {
	BaseMon
	Lines []string
}

func (m *MonDigest) Name() string { return "digest" }
func (m *MonDigest) AfterBlock(s *Sim, req *BlockReq, res *BlockRes) {
	m.Lines = append(m.Lines, fmt.Sprintf("%d %s", req.Height, BlockDigest(res)))
}

func readLines(path string) []string {
	bz, err := os.ReadFile(path)
	if err != nil {
		return nil
	}
	return strings.Split(strings.TrimSpace(string(bz)), "\n")
}

func init() {
	Register(&CheckDef{
		ID: "C08", Level: "exploration",
		Rule: "one case = one generated history (multi-key commits: many dirty accounts, pools, orders of several owners, candidates/stakes recalculated, frozen-fund batches, expiries, payouts) executed by the generating process (GOMAXPROCS=1, GOGC=off) and re-executed from the recorded requests by two further OS processes with (GOMAXPROCS=4,GOGC=100) and (GOMAXPROCS=16,GOGC=10); per height a digest of (codes, data, gas, tags, validator updates, max gas, app hash) must be identical, and the final exports and emission too; one evaluation = one height compared across the 3 processes; distinct = (tx types x codes) seen in compared blocks",
		Assumptions: []string{"Go randomises map iteration per range statement, so each order-dependent write has an independent chance to differ in each process"},
		Quick: 36, Thorough: 360, MinEval: 2000, MinDistinct: 30, Env: []string{"GOMAXPROCS=1", "GOGC=off"},
		Run: func(ctx *WorkCtx, idx int) {
			r := Rng(ctx.Seed, "C08", idx)
			sc := StdScenario(idx, r, 110)
			sc.Spec.Orders = 3 + r.Intn(6)
			md := &MonDigest{}
			s, d := sc.Build("C08", ctx.Seed, idx, r, md)
			d.MaxTxs = 14
			d.G.PInvalid, d.G.PBound = 0.1, 0.15
			d.PByz = 0.01
			d.Run(sc.Blocks)
			dir := ctx.TempDir("c08")
			defer os.RemoveAll(dir)
			hp := filepath.Join(dir, "hist.json")
			if err := s.SaveReplay(hp); err != nil {
				ctx.Res.Inconcl = append(ctx.Res.Inconcl, "cannot save history: "+err.Error())
				s.Finish()
				return
			}
			self, _ := os.Executable()
			var outs [][]string
			for k, env := range [][]string{{"GOMAXPROCS=4", "GOGC=100"}, {"GOMAXPROCS=16", "GOGC=10"}} {
				op := filepath.Join(dir, fmt.Sprintf("d%d.txt", k))
				cmd := exec.Command("timeout", "-s", "QUIT", "600", self, "digest", hp, op)
				cmd.Env = append(os.Environ(), env...)
				if out, err := cmd.CombinedOutput(); err != nil {
					ctx.Res.Inconcl = append(ctx.Res.Inconcl, fmt.Sprintf("case %d: digest process failed: %v %s", idx, err, clipS(string(out), 300)))
					s.Finish()
					return
				}
				outs = append(outs, readLines(op))
			}
			for k, o := range outs {
				for i, l := range md.Lines {
					if i >= len(o) || o[i] != l {
						got := "(missing)"
						if i < len(o) {
							got = o[i]
						}
						keep := ctx.ReplayPath(idx, 0)
						_ = s.SaveReplay(keep)
						ctx.Res.Violations = append(ctx.Res.Violations, ReportedViol{Violation: Violation{Property: "C08", Rule: "process-divergence", Site: "block-digest", TxIndex: -1,
							Detail: fmt.Sprintf("process %d differs at line %d: generator %q vs %q", k+1, i, l, got)}, Replay: keep})
						break
					}
					ctx.Res.Evaluations++
				}
			}
			// final export / emission of the two re-executions must agree with each other
			if len(outs) == 2 && len(outs[0]) >= 2 && len(outs[1]) >= 2 {
				a, b := outs[0][len(outs[0])-2:], outs[1][len(outs[1])-2:]
				if a[0] != b[0] || a[1] != b[1] {
					keep := ctx.ReplayPath(idx, 1)
					_ = s.SaveReplay(keep)
					ctx.Res.Violations = append(ctx.Res.Violations, ReportedViol{Violation: Violation{Property: "C08", Rule: "process-divergence", Site: "final-export", TxIndex: -1, Detail: fmt.Sprintf("%v vs %v", a, b)}, Replay: keep})
				}
			}
			for k, v := range s.Stats {
				ctx.Res.Distinct[k] += int64(v)
			}
			ctx.Res.Count("blocks", s.H-s.W.InitialHeight+1)
			ctx.Collect(s, idx)
			s.Finish()
		},
	})
}

package h

import (
	"crypto/sha256"
	"fmt"
	"sort"

	"github.com/MinterTeam/minter-go-node/coreV2/dao"
	"github.com/MinterTeam/minter-go-node/coreV2/developers"
	"github.com/MinterTeam/minter-go-node/coreV2/types"
)

// BurnAddress receives 0.1% of every pool trade.
var BurnAddress = types.HexToAddress("Mx00cedde786b34d733d1dc96559253081572df2c6")

// Snap is an accessor snapshot of the live (possibly uncommitted) state over the harness's universe: path -> value.
type Snap map[string]string

// Universe returns the addresses and coins the harness knows about.
func (s *Sim) Universe() ([]types.Address, []types.CoinID) {
	seen := map[types.Address]bool{}
	var addrs []types.Address
	add := func(a types.Address) {
		if !seen[a] {
			seen[a] = true
			addrs = append(addrs, a)
		}
	}
	add(types.Address{})
	add(BurnAddress)
	add(dao.Address)
	add(developers.Address)
	for _, k := range s.W.Users {
		add(k.Addr)
	}
	for _, m := range s.W.Multisigs {
		add(m.Addr)
	}
	if s.Post != nil {
		for _, a := range s.Post.Accounts {
			add(a.Address)
		}
	}
	coins := []types.CoinID{0}
	if s.Post != nil {
		for _, c := range s.Post.Coins {
			if c.ID > 4 && c.ID < CoinUSDT && len(c.Symbol.String()) > 0 && c.Symbol.String()[0] == 'F' {
				continue
			}
			coins = append(coins, types.CoinID(c.ID))
		}
	}
	// coins created in this block are not in Post yet
	cs := s.N.App.CurrentState()
	next := uint32(cs.App().GetNextCoinID())
	last := uint32(0)
	if len(coins) > 0 {
		last = uint32(coins[len(coins)-1])
	}
	for id := last + 1; id < next && id < last+50; id++ {
		coins = append(coins, types.CoinID(id))
	}
	return addrs, coins
}

// TakeSnap reads the universe through the same accessors CheckTx uses.
func (s *Sim) TakeSnap() Snap {
	addrs, coins := s.Universe()
	return s.SnapOf(s.N, addrs, coins)
}

// SnapOf reads the given universe on any node (used to compare two instances through accessors, not through Export).
func (s *Sim) SnapOf(n *Node, addrs []types.Address, coins []types.CoinID) Snap {
	out := Snap{}
	cs := n.App.CurrentState()
	for _, a := range addrs {
		as := a.String()
		out["nonce/"+as] = fmt.Sprint(cs.Accounts().GetNonce(a))
		if cs.Accounts().ExistsMultisig(a) {
			if acc := cs.Accounts().GetAccount(a); acc != nil && acc.IsMultisig() {
				ms := acc.Multisig()
				out["msig/"+as] = fmt.Sprintf("%d %v %v", ms.Threshold, ms.Weights, ms.Addresses)
			} else {
				out["msig/"+as] = "exists"
			}
		}
		for _, c := range coins {
			b := cs.Accounts().GetBalance(a, c)
			if b.Sign() != 0 {
				out[fmt.Sprintf("bal/%s/%d", as, c)] = b.String()
			}
		}
		if wl := cs.WaitList().GetByAddress(a); wl != nil {
			for _, it := range wl.List {
				out[fmt.Sprintf("wl/%s/%d/%d", as, it.CandidateId, it.Coin)] = it.Value.String()
			}
		}
	}
	for _, c := range coins {
		if c == 0 {
			continue
		}
		m := cs.Coins().GetCoin(c)
		if m == nil {
			continue
		}
		out[fmt.Sprintf("coin/%d/volume", c)] = m.Volume().String()
		out[fmt.Sprintf("coin/%d/reserve", c)] = m.Reserve().String()
		out[fmt.Sprintf("coin/%d/max", c)] = m.MaxSupply().String()
		out[fmt.Sprintf("coin/%d/symbol", c)] = m.GetFullSymbol()
		if si := cs.Coins().GetSymbolInfo(m.Symbol()); si != nil {
			if o := si.OwnerAddress(); o != nil {
				out[fmt.Sprintf("coin/%d/owner", c)] = o.String()
			}
		}
	}
	if pr := cs.Commission().GetCommissions(); pr != nil {
		out["commission/table"] = fmt.Sprintf("%x", sha256.Sum256(pr.Encode()))
		out["commission/failed"] = pr.FailedTx.String()
	}
	out["app/coins"] = fmt.Sprint(cs.App().GetCoinsCount())
	out["app/slashed"] = cs.App().GetTotalSlashed().String()
	if s.Post != nil {
		for _, p := range s.Post.Pools {
			r0, r1, id := cs.Swap().SwapPool(types.CoinID(p.Coin0), types.CoinID(p.Coin1))
			if r0 != nil {
				out[fmt.Sprintf("pool/%d-%d", p.Coin0, p.Coin1)] = fmt.Sprintf("%s/%s/%d", r0, r1, id)
			}
		}
		for id := uint32(1); id < uint32(s.Post.NextOrderID)+40; id++ {
			if o := cs.Swap().GetOrder(id); o != nil {
				out[fmt.Sprintf("order/%d", id)] = fmt.Sprintf("%s/%s/%s/%v", o.WantBuy, o.WantSell, o.Owner.String(), o.IsBuy)
			}
		}
	}
	for _, c := range cs.Candidates().GetCandidates() {
		k := "cand/" + c.PubKey.String()
		out[k] = fmt.Sprintf("st=%d own=%s ctl=%s rew=%s com=%d jail=%d id=%d", c.Status, c.OwnerAddress.String(), c.ControlAddress.String(), c.RewardAddress.String(), c.Commission, c.JailedUntil, c.ID)
		for _, st := range cs.Candidates().GetStakes(c.PubKey) {
			if st == nil {
				continue
			}
			out[fmt.Sprintf("stake/%s/%s/%d", c.PubKey.String(), st.Owner.String(), st.Coin)] = st.Value.String()
		}
	}
	return out
}

// DiffSnap lists differing keys.
func DiffSnap(a, b Snap) []string {
	var out []string
	for k, va := range a {
		if vb, ok := b[k]; !ok || vb != va {
			out = append(out, k)
		}
	}
	for k := range b {
		if _, ok := a[k]; !ok {
			out = append(out, k)
		}
	}
	sort.Strings(out)
	return out
}

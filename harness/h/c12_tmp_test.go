package h

import (
	"fmt"
	"math/big"
	"testing"
	"time"

	"github.com/MinterTeam/minter-go-node/formula"
)

func TestC12Tmp(t *testing.T) {
	S := BI("1000000000000000000000000")
	R := BI("50000000000000000000000000")
	amt := BI("123456789012345678901234")
	for _, crr := range []int{10, 37, 50, 99, 100} {
		for fn := 0; fn < 4; fn++ {
			ref := HPBancor(fn, S, R, crr, amt)
			var got *big.Int
			switch fn {
			case 0:
				got = formula.CalculatePurchaseReturn(S, R, uint32(crr), amt)
			case 1:
				got = formula.CalculatePurchaseAmount(S, R, uint32(crr), amt)
			case 2:
				got = formula.CalculateSaleReturn(S, R, uint32(crr), amt)
			case 3:
				got = formula.CalculateSaleAmount(S, R, uint32(crr), amt)
			}
			fmt.Println(crr, BancorNames[fn], ref.Path, ref.Floor, got, new(big.Int).Sub(got, ref.Floor))
		}
	}
	// timing
	for _, crr := range []int{37, 50, 99} {
		t0 := time.Now()
		for i := 0; i < 200; i++ {
			formula.CalculatePurchaseReturn(S, R, uint32(crr), amt)
		}
		d1 := time.Since(t0) / 200
		t0 = time.Now()
		for i := 0; i < 200; i++ {
			formula.CalculateSaleReturn(S, R, uint32(crr), amt)
		}
		d2 := time.Since(t0) / 200
		t0 = time.Now()
		for i := 0; i < 200; i++ {
			HPBancor(0, S, R, crr, amt)
		}
		d3 := time.Since(t0) / 200
		t0 = time.Now()
		for i := 0; i < 200; i++ {
			HPBancor(2, S, R, crr, amt)
		}
		d4 := time.Since(t0) / 200
		fmt.Println("crr", crr, "real PR", d1, "real SR", d2, "ref PR", d3, "ref SR", d4)
	}
}

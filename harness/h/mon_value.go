package h

import (
	"fmt"
	"math/big"

	"github.com/MinterTeam/minter-go-node/coreV2/types"
)

// MonSupply checks C01 (conservation) on every committed height.
type MonSupply struct {
	BaseMon
	Res      *WorkerResult
	prevT    *big.Int
	prevEm   *big.Int
	prevDisk bool
}

func (m *MonSupply) Name() string { return "C01" }

func (m *MonSupply) Init(s *Sim) {
	if s.Post == nil {
		return
	}
	w := ComputeWealth(s.Post)
	m.prevT = w.BaseTotal()
	m.prevEm = new(big.Int).Set(s.N.App.GetEmission())
	m.checkCustom(s, s.Post, w, "genesis")
}

func (m *MonSupply) checkCustom(s *Sim, e *types.AppState, w *Wealth, src string) {
	for _, c := range e.Coins {
		sum := w.PerCoin[c.ID]
		if sum == nil {
			sum = new(big.Int)
		}
		if sum.Cmp(BI(c.Volume)) != 0 {
			s.Report(Violation{Property: "C01", Rule: "custom-volume", Site: src, Height: s.H, TxIndex: -1,
				Detail: fmt.Sprintf("coin %d (%s) volume %s != holdings %s (diff %s)", c.ID, c.Symbol.String(), c.Volume, sum, new(big.Int).Sub(BI(c.Volume), sum))})
			return
		}
	}
}

func (m *MonSupply) AfterBlock(s *Sim, req *BlockReq, res *BlockRes) {
	if s.Post == nil || res.Stopped {
		return
	}
	w := ComputeWealth(s.Post)
	m.checkCustom(s, s.Post, w, "live")
	t := w.BaseTotal()
	em := new(big.Int).Set(s.N.App.GetEmission())
	dT := new(big.Int).Sub(t, m.prevT)
	dE := new(big.Int).Sub(em, m.prevEm)
	if dT.Cmp(dE) != 0 {
		s.Report(Violation{Property: "C01", Rule: "base-delta", Site: m.phase(s, req, res), Height: s.H, TxIndex: -1,
			Detail: fmt.Sprintf("base total changed by %s but emission by %s (diff %s)", dT, dE, new(big.Int).Sub(dT, dE))})
	}
	m.prevT, m.prevEm = t, em
	if s.PostDisk != nil {
		wd := ComputeWealth(s.PostDisk)
		m.checkCustom(s, s.PostDisk, wd, "disk")
		if wd.BaseTotal().Cmp(t) != 0 {
			s.Report(Violation{Property: "C01", Rule: "base-total-disk-vs-live", Site: "disk", Height: s.H, TxIndex: -1,
				Detail: fmt.Sprintf("disk %s live %s", wd.BaseTotal(), t)})
		}
	}
	m.Res.Evaluations++
	dk := "plain"
	if len(req.Txs) > 0 {
		dk = "txs"
	}
	if dE.Sign() == 0 {
		dk += "/no-emission"
	}
	if len(req.Byzantine) > 0 {
		dk += "/byz"
	}
	if len(res.End.ValidatorUpdates) > 0 {
		dk += "/valupd"
	}
	m.Res.Seen(dk)
	for i, d := range res.Deliver {
		m.Res.Seen(fmt.Sprintf("tx %02x code %d", s.Metas[i].Type, d.Code))
	}
}

// phase names the kind of block for the violation site: the set of accepted tx types (small) or "no-tx".
func (m *MonSupply) phase(s *Sim, req *BlockReq, res *BlockRes) string {
	site := ""
	seen := map[byte]bool{}
	for i, d := range res.Deliver {
		t := s.Metas[i].Type
		if !seen[t] {
			seen[t] = true
			site += fmt.Sprintf("%02x:%d,", t, d.Code)
		}
		if len(site) > 40 {
			break
		}
	}
	if site == "" {
		site = "no-tx"
		if uint64(req.Height)%s.Opts.StakePeriod == 0 {
			site = "no-tx/payout"
		}
	}
	return site
}

// MonBounds checks C02 on every committed height.
type MonBounds struct {
	BaseMon
	Res *WorkerResult
}

func (m *MonBounds) Name() string { return "C02" }

func (m *MonBounds) check(s *Sim, e *types.AppState, src string) {
	w := ComputeWealth(e)
	if len(w.Negative) > 0 {
		s.Report(Violation{Property: "C02", Rule: "negative", Site: src, Height: s.H, TxIndex: -1, Detail: fmt.Sprint(w.Negative)})
	}
	for _, c := range e.Coins {
		if BI(c.Volume).Cmp(BI(c.MaxSupply)) > 0 {
			s.Report(Violation{Property: "C02", Rule: "volume-over-max", Site: src, Height: s.H, TxIndex: -1, Detail: fmt.Sprintf("coin %d volume %s max %s", c.ID, c.Volume, c.MaxSupply)})
		}
		if c.Crr > 0 && BI(c.Reserve).Sign() < 0 {
			s.Report(Violation{Property: "C02", Rule: "negative", Site: src + "/reserve", Height: s.H, TxIndex: -1, Detail: fmt.Sprintf("coin %d reserve %s", c.ID, c.Reserve)})
		}
	}
	for _, p := range e.Pools {
		if BI(p.Reserve0).Sign() <= 0 || BI(p.Reserve1).Sign() <= 0 {
			s.Report(Violation{Property: "C02", Rule: "pool-reserve-nonpositive", Site: src, Height: s.H, TxIndex: -1, Detail: fmt.Sprintf("pool %d-%d reserves %s %s", p.Coin0, p.Coin1, p.Reserve0, p.Reserve1)})
		}
		for _, o := range p.Orders {
			if BI(o.Volume0).Sign() < 0 || BI(o.Volume1).Sign() < 0 {
				s.Report(Violation{Property: "C02", Rule: "negative", Site: src + "/order", Height: s.H, TxIndex: -1, Detail: fmt.Sprintf("order %d %s %s", o.ID, o.Volume0, o.Volume1)})
			}
		}
	}
}

func (m *MonBounds) AfterBlock(s *Sim, req *BlockReq, res *BlockRes) {
	if s.Post == nil || res.Stopped {
		return
	}
	m.check(s, s.Post, "live")
	if s.PostDisk != nil {
		m.check(s, s.PostDisk, "disk")
	}
	// the export hides non-positive balances: read the universe directly
	cs := s.N.App.CurrentState()
	n := 0
	for _, a := range s.Post.Accounts {
		for _, c := range s.Post.Coins {
			if c.ID > 4 && c.ID < CoinUSDT {
				continue
			}
			if b := cs.Accounts().GetBalance(a.Address, types.CoinID(c.ID)); b.Sign() < 0 {
				s.Report(Violation{Property: "C02", Rule: "negative", Site: "balance", Height: s.H, TxIndex: -1, Detail: fmt.Sprintf("%s coin %d = %s", a.Address.String(), c.ID, b)})
			}
			n++
		}
		if b := cs.Accounts().GetBalance(a.Address, 0); b.Sign() < 0 {
			s.Report(Violation{Property: "C02", Rule: "negative", Site: "balance", Height: s.H, TxIndex: -1, Detail: fmt.Sprintf("%s coin 0 = %s", a.Address.String(), b)})
		}
	}
	m.Res.Evaluations++
	m.Res.Count("balance_reads", int64(n))
	for i, d := range res.Deliver {
		m.Res.Seen(fmt.Sprintf("tx %02x code %d kind %s", s.Metas[i].Type, d.Code, s.Metas[i].Kind))
	}
}

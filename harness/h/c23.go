package h

// C23: transaction and check encodings are canonical and signatures bind the signer.
//
// Real code: rlp.DecodeBytes/EncodeToBytes, transaction DecodeFromBytes/Serialize/Sender/Hash/RecoverPlain,
// check.DecodeFromBytes/Sender/LockPubKey, crypto (cgo secp256k1, pure-Go in the second build).
// Oracles: (a) round trip + an independent strict RLP parser + a type-directed canonical-value check;
// (b) the harness knows which key signed which hash: a mutant that is accepted must not be "the same hash and
// the same sender under other bytes", must not attribute a never-signed hash to a harness key, and signatures
// with high S / bad V / out-of-range R,S must be rejected; (c) see c23_diff.go.

import (
	"bytes"
	"encoding/hex"
	"encoding/json"
	"fmt"
	"math/big"
	"math/rand"
	"os"
	"reflect"
	"sync"

	"github.com/MinterTeam/minter-go-node/coreV2/check"
	"github.com/MinterTeam/minter-go-node/coreV2/code"
	"github.com/MinterTeam/minter-go-node/coreV2/events"
	"github.com/MinterTeam/minter-go-node/coreV2/state"
	"github.com/MinterTeam/minter-go-node/coreV2/transaction"
	"github.com/MinterTeam/minter-go-node/coreV2/types"
	"github.com/MinterTeam/minter-go-node/crypto"
	"github.com/MinterTeam/minter-go-node/rlp"
	db "github.com/tendermint/tm-db"
)

var c23Exec = transaction.NewExecutorV3(transaction.GetDataV3)

// C23Verdict is what the real code says about one input (error texts are left out: they differ between builds).
type C23Verdict struct {
	Dec     bool     `json:"d"`
	SndOK   bool     `json:"s"`
	Sender  string   `json:"a,omitempty"`
	Hash    string   `json:"h,omitempty"`
	Signers []string `json:"m,omitempty"` // multisig: recovered signer per signature, "!" if it does not recover
	LockPub string   `json:"l,omitempty"` // checks: recovered lock key, "!" on error
	Panic   string   `json:"p,omitempty"`
}

func (v C23Verdict) String() string { bz, _ := json.Marshal(v); return string(bz) }

func c23Recover(v *C23Verdict) {
	if r := recover(); r != nil {
		v.Panic = firstLine(fmt.Sprint(r))
	}
}

// C23JudgeTx runs the real decoder and sender recovery on b.
func C23JudgeTx(b []byte) (v C23Verdict, tx *transaction.Transaction) {
	defer c23Recover(&v)
	t, err := c23Exec.DecodeFromBytes(b)
	if err != nil {
		return v, nil
	}
	v.Dec = true
	tx = t
	hs := t.Hash()
	v.Hash = hex.EncodeToString(hs[:])
	snd, err := t.Sender()
	if err == nil {
		v.SndOK = true
		v.Sender = hex.EncodeToString(snd[:])
	}
	if t.SignatureType == transaction.SigTypeMulti {
		var ms transaction.SignatureMulti
		if err := rlp.DecodeBytes(t.SignatureData, &ms); err == nil {
			v.Signers = []string{}
			for _, s := range ms.Signatures {
				a, err := transaction.RecoverPlain(hs, s.R, s.S, s.V) // what the executor does per signature
				if err != nil {
					v.Signers = append(v.Signers, "!")
				} else {
					v.Signers = append(v.Signers, hex.EncodeToString(a[:]))
				}
			}
		}
	}
	return v, tx
}

// C23JudgeCheck runs the real check decoder, issuer recovery and lock key recovery on b.
func C23JudgeCheck(b []byte) (v C23Verdict, ch *check.Check) {
	defer c23Recover(&v)
	c, err := check.DecodeFromBytes(b)
	if err != nil {
		return v, nil
	}
	v.Dec = true
	ch = c
	hs := c.Hash()
	v.Hash = hex.EncodeToString(hs[:])
	snd, err := c.Sender()
	if err == nil {
		v.SndOK = true
		v.Sender = hex.EncodeToString(snd[:])
	}
	pub, err := c.LockPubKey()
	if err != nil {
		v.LockPub = "!"
	} else {
		v.LockPub = hex.EncodeToString(pub)
	}
	return v, ch
}

// C23JudgeRaw runs crypto.Ecrecover (the call behind RecoverPlain, LockPubKey and the redeem proof).
func C23JudgeRaw(hash, sig []byte) (v C23Verdict) {
	defer c23Recover(&v)
	pub, err := crypto.Ecrecover(hash, sig)
	v.Dec = true
	if err == nil {
		v.SndOK = true
		v.Sender = hex.EncodeToString(pub)
	}
	return v
}

// ---------------------------------------------------------------------------------------------------------

type c23Base struct {
	kind    string // tx-single | tx-multi | check
	label   string // tx type or check nonce length
	raw     []byte
	verdict C23Verdict
	keys    map[string]bool // hex addresses of harness keys that signed this object
	msig    *MultisigAcc
	tree    *rl // deep tree (Data and SignatureData wrapped)
	pass    string
}

type c23Run struct {
	ctx    *WorkCtx
	idx    int
	r      *rand.Rand
	nviol  int
	perSig map[string]int
	corpus *c23Corpus
	st     *state.State // in-memory state holding the multisig accounts of this case
}

// admit asks the real executor whether a multisig transaction passes the signature phase: the harness account
// has a nonce that never matches, so an admitted transaction ends with WrongNonce and nothing is executed.
func (c *c23Run) admit(raw []byte) (admitted bool, rc uint32, panicked string) {
	defer func() {
		if r := recover(); r != nil {
			panicked = firstLine(fmt.Sprint(r))
		}
	}()
	resp := c23Exec.RunTx(c.st, raw, big.NewInt(0), 20000000, &sync.Map{}, 0, false)
	switch resp.Code {
	case code.WrongNonce:
		return true, resp.Code, ""
	}
	return false, resp.Code, ""
}

func (c *c23Run) state() *state.State {
	if c.st == nil {
		st, err := state.NewStateV3(0, db.NewMemDB(), &events.MockEvents{}, 1, 1, 0)
		if err != nil {
			panic("c23: cannot make state: " + err.Error())
		}
		c.st = st
	}
	return c.st
}

func (c *c23Run) viol(rule, site, detail string, base *c23Base, class string, in []byte, v C23Verdict) {
	c.nviol++
	if c.perSig == nil {
		c.perSig = map[string]int{}
	}
	c.perSig[rule+"/"+site]++
	if c.perSig[rule+"/"+site] > 2 || len(c.perSig) > 12 {
		// at most two witnesses per signature and case
		c.ctx.Res.Count("violations_not_listed/"+rule, 1)
		return
	}
	w := map[string]interface{}{"rule": rule, "site": site, "detail": detail, "mutator": class, "input": hex.EncodeToString(in), "verdict": v, "seed": c.ctx.Seed, "idx": c.idx,
		"replay_with": "c23nocgo judge tx|check <input hex>   (or: VERIF_SEED=.. vchk worker C23 idx idx+1 out.json)"}
	if base != nil {
		w["base"] = hex.EncodeToString(base.raw)
		w["base_kind"] = base.kind + "/" + base.label
		w["base_verdict"] = base.verdict
	}
	path := c.ctx.ReplayPath(c.idx, c.nviol)
	bz, _ := json.MarshalIndent(w, "", " ")
	_ = os.WriteFile(path, bz, 0o644)
	if len(detail) > 400 {
		detail = detail[:400]
	}
	c.ctx.Res.Violations = append(c.ctx.Res.Violations, ReportedViol{Violation: Violation{Property: "C23", Rule: rule, Site: site, Detail: detail, TxIndex: -1}, Replay: path})
}

// ---- value generation ---------------------------------------------------------------------------------------

func c23Big(r *rand.Rand) *big.Int {
	switch r.Intn(10) {
	case 0:
		return new(big.Int)
	case 1:
		return big.NewInt(int64(r.Intn(128)))
	case 2:
		return big.NewInt(int64(128 + r.Intn(128)))
	case 3:
		return new(big.Int).Sub(c23Two256, big.NewInt(1))
	case 4:
		return new(big.Int).Lsh(big.NewInt(1), uint(r.Intn(256)))
	}
	return RandLog(r, 40)
}

func c23Uint(r *rand.Rand, bits int) uint64 {
	max := uint64(1)<<uint(bits) - 1
	if bits == 64 {
		max = ^uint64(0)
	}
	switch r.Intn(8) {
	case 0:
		return 0
	case 1:
		return max
	case 2:
		return uint64(r.Intn(128))
	case 3:
		return 128 + uint64(r.Intn(128))
	case 4:
		return r.Uint64() & max
	}
	return uint64(r.Intn(70000)) & max
}

// c23Fill fills an rlp-encodable value with random content (all pointers non-nil).
func c23Fill(r *rand.Rand, v reflect.Value) {
	if v.Type() == bigIntType {
		v.Set(reflect.ValueOf(*c23Big(r)))
		return
	}
	switch v.Kind() {
	case reflect.Ptr:
		if v.Type().Elem() == bigIntType {
			v.Set(reflect.ValueOf(c23Big(r)))
			return
		}
		n := reflect.New(v.Type().Elem())
		c23Fill(r, n.Elem())
		v.Set(n)
	case reflect.Uint8, reflect.Uint16, reflect.Uint32, reflect.Uint64, reflect.Uint:
		v.SetUint(c23Uint(r, v.Type().Bits()))
	case reflect.Bool:
		v.SetBool(r.Intn(2) == 0)
	case reflect.String:
		b := make([]byte, []int{0, 1, 5, 20, 64, 100}[r.Intn(6)])
		for i := range b {
			b[i] = byte(32 + r.Intn(95))
		}
		if len(b) == 1 && r.Intn(2) == 0 {
			b[0] = byte(r.Intn(256))
		}
		v.SetString(string(b))
	case reflect.Array:
		if v.Type().Elem().Kind() == reflect.Uint8 {
			b := make([]byte, v.Len())
			r.Read(b)
			if r.Intn(10) == 0 {
				b[0] = 0
			}
			reflect.Copy(v, reflect.ValueOf(b))
			return
		}
		for i := 0; i < v.Len(); i++ {
			c23Fill(r, v.Index(i))
		}
	case reflect.Slice:
		if v.Type().Elem().Kind() == reflect.Uint8 {
			b := make([]byte, []int{0, 1, 1, 3, 32, 55, 56, 200}[r.Intn(8)])
			r.Read(b)
			v.SetBytes(b)
			return
		}
		n := []int{0, 1, 2, 3, 5, 12}[r.Intn(6)]
		s := reflect.MakeSlice(v.Type(), n, n)
		for i := 0; i < n; i++ {
			c23Fill(r, s.Index(i))
		}
		v.Set(s)
	case reflect.Struct:
		for i := 0; i < v.NumField(); i++ {
			if v.Type().Field(i).PkgPath == "" {
				c23Fill(r, v.Field(i))
			}
		}
	}
}

func c23Payload(r *rand.Rand) []byte {
	b := make([]byte, []int{0, 0, 0, 1, 1, 10, 55, 56, 300}[r.Intn(9)])
	r.Read(b)
	return b
}

// c23DeepTree parses tx bytes and wraps Data (field 5) and SignatureData (field 9).
func c23DeepTree(raw []byte, isTx bool) *rl {
	t, err := rlParseAll(raw)
	if err != nil {
		panic("c23: harness-made encoding is not canonical: " + hex.EncodeToString(raw))
	}
	if isTx {
		for _, f := range []int{5, 9} {
			in, err := rlParseAll(t.kids[f].b)
			if err != nil {
				panic("c23: harness-made inner encoding is not canonical")
			}
			t.kids[f] = &rl{wrap: in}
		}
	}
	return t
}

func (c *c23Run) newTxBase(t transaction.TxType, multi bool) *c23Base {
	r := c.r
	spec := &TxSpec{Nonce: c23Uint(r, 64), ChainID: types.ChainID(1 + r.Intn(2)), GasPrice: uint32(c23Uint(r, 32)), GasCoin: types.CoinID(c23Uint(r, 32)), Type: t, Payload: c23Payload(r), ServiceData: c23Payload(r)}
	if d, ok := transaction.GetDataV3(t); ok {
		c23Fill(r, reflect.ValueOf(d).Elem())
		if rc, ok := d.(*transaction.RedeemCheckData); ok && r.Intn(2) == 0 {
			cb := c.newCheckBase(r.Intn(18))
			rc.RawCheck = cb.raw
			rc.Proof = CheckProof(cb.pass, NewKey("c23r", r.Intn(50)).Addr)
		}
		spec.Data = d
	} else {
		// type without a registered data struct (0x13): any list
		spec.Data = rlRandom(r, 3).enc()
	}
	b := &c23Base{kind: "tx-single", label: t.String(), keys: map[string]bool{}}
	if multi {
		b.kind = "tx-multi"
		n := 1 + r.Intn(5)
		if r.Intn(12) == 0 {
			n = 32
		}
		ms := &MultisigAcc{}
		r.Read(ms.Addr[:])
		base := r.Intn(1000)
		for i := 0; i < n; i++ {
			ms.Owners = append(ms.Owners, NewKey("c23m", base+i))
			ms.Weights = append(ms.Weights, uint32(1+r.Intn(3)))
		}
		// signed by the first k owners; threshold = weight of a (possibly smaller) prefix so that subsets may still pass
		k := 1 + r.Intn(n)
		need := 1 + r.Intn(k)
		for i := 0; i < need; i++ {
			ms.Threshold += ms.Weights[i]
		}
		spec.Multisig, spec.Signers = ms, ms.Owners[:k]
		// the executor must get as far as the signature phase: own chain, base coin pays, service data within its limit
		spec.ChainID, spec.GasCoin = types.CurrentChainID, 0
		if len(spec.ServiceData) > 128 {
			spec.ServiceData = spec.ServiceData[:128]
		}
		switch d := spec.Data.(type) {
		case *transaction.SellAllCoinData:
			d.CoinToSell = 0
		case *transaction.SellAllSwapPoolDataV260:
			if len(d.Coins) > 0 {
				d.Coins[0] = 0
			}
		}
		var owners []types.Address
		for _, o := range ms.Owners {
			owners = append(owners, o.Addr)
		}
		c.state().Accounts.CreateMultisig(ms.Weights, owners, ms.Threshold, ms.Addr)
		c.state().Accounts.SetNonce(ms.Addr, spec.Nonce) // expected nonce = Nonce+1: never this transaction
		b.msig = ms
		for _, o := range spec.Signers {
			b.keys[hex.EncodeToString(o.Addr[:])] = true
		}
	} else {
		spec.Signer = NewKey("c23u", r.Intn(5000))
		b.keys[hex.EncodeToString(spec.Signer.Addr[:])] = true
	}
	b.raw = spec.Encode()
	b.tree = c23DeepTree(b.raw, true)
	return b
}

func (c *c23Run) newCheckBase(nonceLen int) *c23Base {
	r := c.r
	nonce := make([]byte, nonceLen)
	r.Read(nonce)
	if nonceLen > 0 && r.Intn(4) == 0 {
		nonce[0] = byte(r.Intn(128)) // single byte < 0x80 / leading zero byte in a byte string is legal
	}
	k := NewKey("c23c", r.Intn(5000))
	pass := fmt.Sprintf("pw-%d", r.Intn(1000000))
	raw := IssueCheck(&CheckSpec{Nonce: nonce, ChainID: types.ChainID(1 + r.Intn(2)), DueBlock: c23Uint(r, 64), Coin: types.CoinID(c23Uint(r, 32)), Value: c23Big(r), GasCoin: types.CoinID(c23Uint(r, 32)), Issuer: k, Password: pass})
	b := &c23Base{kind: "check", label: fmt.Sprintf("nonce%d", nonceLen), raw: raw, keys: map[string]bool{hex.EncodeToString(k.Addr[:]): true}, pass: pass}
	b.tree = c23DeepTree(raw, false)
	return b
}

// ---- oracle (a): canonical round trip ---------------------------------------------------------------------

var (
	c23TxType    = reflect.TypeOf(transaction.Transaction{})
	c23CheckType = reflect.TypeOf(check.Check{})
	c23SigType   = reflect.TypeOf(transaction.Signature{})
	c23MsigType  = reflect.TypeOf(transaction.SignatureMulti{})
)

func c23Canon(b []byte, t reflect.Type) string {
	x, err := rlParseAll(b)
	if err != nil {
		return "not canonical RLP (length prefix / single byte / trailing bytes)"
	}
	return rlConforms(x, t)
}

// canonTx checks an accepted transaction encoding. Returns "" or (site, detail).
func (c *c23Run) canonTx(in []byte, tx *transaction.Transaction) (string, string) {
	if why := c23Canon(in, c23TxType); why != "" {
		return "tx/accepted-noncanonical", why
	}
	if re, err := tx.Serialize(); err != nil || !bytes.Equal(re, in) {
		return "tx/reencode", fmt.Sprintf("Serialize gives %x (err %v)", re, err)
	}
	d := tx.GetDecodedData()
	if d == nil {
		return "tx/data", "decoded data is nil"
	}
	if why := c23Canon(tx.Data, reflect.TypeOf(d).Elem()); why != "" {
		return "data/accepted-noncanonical", fmt.Sprintf("type %s data %x: %s", tx.Type, []byte(tx.Data), why)
	}
	if re, err := rlp.EncodeToBytes(d); err != nil || !bytes.Equal(re, tx.Data) {
		return "data/reencode", fmt.Sprintf("type %s data %x re-encodes to %x (err %v)", tx.Type, []byte(tx.Data), re, err)
	}
	var st reflect.Type
	var sv interface{}
	switch tx.SignatureType {
	case transaction.SigTypeSingle:
		st, sv = c23SigType, &transaction.Signature{}
	case transaction.SigTypeMulti:
		st, sv = c23MsigType, &transaction.SignatureMulti{}
	default:
		return "sig/type", fmt.Sprintf("accepted signature type %d", tx.SignatureType)
	}
	if why := c23Canon(tx.SignatureData, st); why != "" {
		return "sig/accepted-noncanonical", fmt.Sprintf("signature data %x: %s", tx.SignatureData, why)
	}
	if err := rlp.DecodeBytes(tx.SignatureData, sv); err != nil {
		return "sig/reencode", "signature data decodes inside DecodeFromBytes but not alone: " + err.Error()
	}
	if re, err := rlp.EncodeToBytes(sv); err != nil || !bytes.Equal(re, tx.SignatureData) {
		return "sig/reencode", fmt.Sprintf("signature data %x re-encodes to %x (err %v)", tx.SignatureData, re, err)
	}
	if t2, err := c23Exec.DecodeFromBytesWithoutSig(in); err != nil || t2.Hash() != tx.Hash() {
		return "tx/without-sig", fmt.Sprintf("DecodeFromBytesWithoutSig disagrees (err %v)", err)
	}
	return "", ""
}

func (c *c23Run) canonCheck(in []byte, ch *check.Check) (string, string) {
	if why := c23Canon(in, c23CheckType); why != "" {
		return "check/accepted-noncanonical", why
	}
	if re, err := rlp.EncodeToBytes(ch); err != nil || !bytes.Equal(re, in) {
		return "check/reencode", fmt.Sprintf("re-encodes to %x (err %v)", re, err)
	}
	return "", ""
}

// ---- judging one input ---------------------------------------------------------------------------------------

// mustReject: mutator classes whose result carries an invalid signature by construction.
var c23MustReject = map[string]bool{"high-s-twin": true, "high-s": true, "bad-v": true, "r-out-of-range": true, "s-out-of-range": true}

// msigAccepted models the executor's multisig admission on the recovered signers.
func c23MsigAccepted(ms *MultisigAcc, signers []string) bool { return c23MsigReject(ms, signers) == "" }

// c23MsigReject returns why the documented admission rule refuses the recovered signer list ("" = admitted).
func c23MsigReject(ms *MultisigAcc, signers []string) string {
	if signers == nil {
		return "undecodable"
	}
	if len(signers) > 32 || len(signers) > len(ms.Weights) {
		return "too-many-signatures"
	}
	seen := map[string]bool{}
	var w uint32
	for _, s := range signers {
		if s == "!" {
			return "unrecoverable-signature"
		}
		if seen[s] {
			return "duplicate-signer"
		}
		seen[s] = true
		for i, o := range ms.Owners {
			if hex.EncodeToString(o.Addr[:]) == s {
				w += ms.Weights[i]
			}
		}
	}
	if w < ms.Threshold {
		return "under-weight"
	}
	return ""
}

// c23BadSigValues reports (by the harness's own parse of the signature values) why a [V,R,S] triple is invalid.
func c23BadSigValues(tr []*rl) string {
	if len(tr) != 3 || tr[0].list || tr[1].list || tr[2].list {
		return ""
	}
	V, R, S := new(big.Int).SetBytes(tr[0].b), new(big.Int).SetBytes(tr[1].b), new(big.Int).SetBytes(tr[2].b)
	switch {
	case V.Cmp(big.NewInt(27)) != 0 && V.Cmp(big.NewInt(28)) != 0:
		return "bad-v"
	case R.Sign() == 0 || R.Cmp(c23N) >= 0:
		return "r-out-of-range"
	case S.Sign() == 0 || S.Cmp(c23N) >= 0:
		return "s-out-of-range"
	case S.Cmp(c23HalfN) > 0:
		return "high-s"
	}
	return ""
}

// invalidSigAccepted looks at the signature values of an accepted input with the harness's own parser: a triple
// with V not in {27,28}, R/S outside [1,N-1] or S > N/2 must not have recovered an address.
func c23InvalidSigAccepted(kind string, in []byte, v C23Verdict) string {
	t, err := rlParseAll(in)
	if err != nil || !t.list || len(t.kids) != 10 {
		return ""
	}
	if kind == "check" {
		if why := c23BadSigValues(t.kids[7:10]); why != "" && v.SndOK {
			return why
		}
		return ""
	}
	sd, err := rlParseAll(t.kids[9].b)
	if err != nil || !sd.list {
		return ""
	}
	if len(t.kids[8].b) == 1 && t.kids[8].b[0] == 1 {
		if why := c23BadSigValues(sd.kids); why != "" && v.SndOK {
			return why
		}
		return ""
	}
	if len(sd.kids) == 2 && sd.kids[1].list && len(sd.kids[1].kids) == len(v.Signers) {
		for i, k := range sd.kids[1].kids {
			if why := c23BadSigValues(k.kids); why != "" && v.Signers[i] != "!" {
				return why
			}
		}
	}
	return ""
}

// judge evaluates one input derived from base (base may be nil for random inputs; isCheck picks the decoder).
func (c *c23Run) judge(in []byte, base *c23Base, class string, isCheck bool) string {
	res := c.ctx.Res
	res.Evaluations++
	var v C23Verdict
	kind := "tx"
	if isCheck {
		kind = "check"
	}
	site, detail := "", ""
	if isCheck {
		var ch *check.Check
		v, ch = C23JudgeCheck(in)
		if ch != nil {
			site, detail = c.canonCheck(in, ch)
		}
	} else {
		var tx *transaction.Transaction
		v, tx = C23JudgeTx(in)
		if tx != nil {
			func() {
				pv := C23Verdict{}
				defer func() {
					if pv.Panic != "" && v.Panic == "" {
						v.Panic = pv.Panic
					}
				}()
				defer c23Recover(&pv)
				site, detail = c.canonTx(in, tx)
			}()
		}
	}
	if v.Dec {
		c.corpus.add(kind, in, nil, v)
	}
	if v.Panic != "" {
		c.viol("panic", kind+"-decode", v.Panic, base, class, in, v)
		return "panic"
	}
	if !v.Dec {
		return "rejected-decode"
	}
	if site != "" {
		c.viol("canonical", site, fmt.Sprintf("mutator %s input %x: %s", class, in, detail), base, class, in, v)
		return "violation"
	}
	if base == nil {
		if v.SndOK {
			return "accepted"
		}
		return "rejected-sender"
	}
	// signer binding
	if why := c23InvalidSigAccepted(kind, in, v); why != "" {
		c.viol("invalid-signature-accepted", base.kind+"/"+why, fmt.Sprintf("mutator %s input %x: signature values are invalid (%s) but recover %s %v", class, in, why, v.Sender, v.Signers), base, class, in, v)
		return "violation"
	}
	accepted := v.SndOK
	signers := []string{v.Sender}
	if base.kind == "tx-multi" && v.Signers != nil {
		signers = v.Signers
		accepted = false
		if v.SndOK && v.Hash == base.verdict.Hash && v.Sender == base.verdict.Sender {
			// the real executor decides admission (signature phase) on the account the harness created
			real, rc, pv := c.admit(in)
			c.ctx.Res.Count(fmt.Sprintf("executor_code/%d", rc), 1)
			if pv != "" {
				c.viol("panic", "tx-multi/RunTx", pv, base, class, in, v)
				return "panic"
			}
			accepted = real
			if why := c23MsigReject(base.msig, v.Signers); real && why != "" {
				c.viol("multisig-admission", why, fmt.Sprintf("mutator %s input %x: executor admits (code %d) signer list %v of multisig owners %d threshold %d", class, in, rc, v.Signers, len(base.msig.Owners), base.msig.Threshold), base, class, in, v)
				return "violation"
			} else if !real && why == "" && bytes.Equal(in, base.raw) {
				c.viol("binding", "tx-multi/valid-rejected", fmt.Sprintf("executor refuses the harness-signed multisig transaction %x with code %d", in, rc), base, class, in, v)
				return "violation"
			}
		}
	}
	if c23MustReject[class] {
		bad := v.SndOK && base.kind != "tx-multi"
		if base.kind == "tx-multi" {
			bad = true
			for _, s := range v.Signers {
				if s == "!" {
					bad = false
				}
			}
			if v.Signers == nil {
				bad = false
			}
		}
		if bad {
			c.viol("invalid-signature-accepted", base.kind+"/"+class, fmt.Sprintf("input %x recovers %v", in, signers), base, class, in, v)
			return "violation"
		}
	}
	same := bytes.Equal(in, base.raw)
	if v.Hash != base.verdict.Hash {
		// a hash no harness key ever signed must not be attributed to one
		for _, s := range signers {
			if base.keys[s] && v.SndOK {
				c.viol("forgery", base.kind, fmt.Sprintf("input %x (hash %s, never signed) recovers harness key %s", in, v.Hash, s), base, class, in, v)
				return "violation"
			}
		}
		if accepted {
			return "accepted-other-hash"
		}
		return "rejected-sender"
	}
	if !accepted {
		return "rejected-sender"
	}
	if v.Sender != base.verdict.Sender {
		return "accepted-other-sender"
	}
	if same {
		return "identity"
	}
	msite := base.kind + "/" + class
	if base.kind == "tx-multi" {
		msite = "tx-multi/signature-set" // which signatures accompany a multisig transaction is not fixed by anything signed
	}
	c.viol("malleable", msite, fmt.Sprintf("mutator "+class+": same hash %s and same sender %s under different bytes: base %x mutant %x", v.Hash, v.Sender, base.raw, in), base, class, in, v)
	return "violation"
}

// checkBase verifies the unmutated object: decodes, round-trips, Sender()==address(K).
func (c *c23Run) checkBase(b *c23Base) bool {
	isCheck := b.kind == "check"
	// verdict first (judge compares against it)
	if isCheck {
		b.verdict, _ = C23JudgeCheck(b.raw)
	} else {
		b.verdict, _ = C23JudgeTx(b.raw)
	}
	out := c.judge(b.raw, b, "none", isCheck)
	registered := true
	if !isCheck {
		_, registered = transaction.GetDataV3(transaction.TxType(b.tree.kids[4].b[0]))
	}
	if !registered {
		if b.verdict.Dec {
			c.viol("binding", "unregistered-type-accepted", fmt.Sprintf("%x", b.raw), b, "none", b.raw, b.verdict)
		}
		c.ctx.Res.Seen(b.kind + "/" + b.label + "/base-unregistered-rejected")
		return false
	}
	if out != "identity" {
		if out != "violation" && out != "panic" {
			c.viol("binding", b.kind+"/valid-rejected", fmt.Sprintf("harness-signed %s %x: %s (%s)", b.kind, b.raw, out, b.verdict), b, "none", b.raw, b.verdict)
		}
		return false
	}
	ok := true
	switch b.kind {
	case "tx-single", "check":
		ok = b.keys[b.verdict.Sender]
	case "tx-multi":
		ok = b.verdict.Sender == hex.EncodeToString(b.msig.Addr[:]) && len(b.verdict.Signers) == len(b.keys)
		for i, s := range b.verdict.Signers {
			if i < len(b.msig.Owners) && s != hex.EncodeToString(b.msig.Owners[i].Addr[:]) {
				ok = false
			}
		}
	}
	if isCheck && ok {
		// the lock must recover the key derived from the password
		want := C23LockPub(b.pass)
		if b.verdict.LockPub != want {
			c.viol("binding", "check/lock", fmt.Sprintf("lock recovers %s, password key is %s", b.verdict.LockPub, want), b, "none", b.raw, b.verdict)
			return false
		}
	}
	if !ok {
		c.viol("binding", b.kind+"/sender", fmt.Sprintf("harness-signed %x: recovered %s / %v, signed by %v", b.raw, b.verdict.Sender, b.verdict.Signers, b.keys), b, "none", b.raw, b.verdict)
		return false
	}
	c.ctx.Res.Seen(b.kind + "/" + b.label + "/base-ok")
	return true
}

package h

// C12: bancor conversions follow the bonding-curve formulas (formula.Calculate* against the HighPrec reference).

import (
	"encoding/json"
	"fmt"
	"math"
	"math/big"
	"math/rand"
	"os"
	"sort"
	"strings"

	"github.com/MinterTeam/minter-go-node/formula"
)

// Frozen tolerance of the closeness rule:  |got - floor(exact)| <= 1 + exact*L*2^-c12RelBits + scale*2^-c12AbsBits  (+2 for rounding the terms up)
// where scale = supply or reserve (the factor in front of the bracket) and L = max(1, log2(1 + exact/scale)) is the size of
// the power (a float64 exponent with relative error d turns into a relative error d*ln(power) of the power; L is 1 for sales
// and for every purchase that less than doubles the supply/reserve).
//
// CALIBRATION on the unchanged tree (thorough tier, seed 1, 12.2*10^6 tuples, reserve <= 2^100; quick tiers of seeds 1..6 agree):
//
//	largest relative error beyond the first unit, per L:  2^-52.34 (PurchaseAmount), 2^-52.50 (PurchaseReturn), 2^-53.06 (SaleReturn), 2^-53.22 (SaleAmount)
//	largest absolute error where that term dominates:     2^-96.2*scale (PurchaseAmount, crr=10), 2^-97.7 (SaleReturn), 2^-98.8 (PurchaseReturn), 2^-100.0 (SaleAmount)
//	=> frozen at 2^-42 and 2^-86 (margin >= 2^10); largest observed error/tolerance 2^-10.05, largest round-trip excess/tolerance 2^-10.15.
//
// The counters max_rel_x2^70/*, max_abs_x2^120/*, max_err_over_tolerance_x2^20/* of every run show the same quantities.
const (
	c12RelBits = 42
	c12AbsBits = 86
	// round trips use the same bound ("beyond that bounded relative error"): back - paid <= 1 + paid*2^-relBits + reserve_after*2^-absBits
	c12RTRelBits = c12RelBits
	c12RTAbsBits = c12AbsBits
)

var (
	c12Ten33   = new(big.Int).Exp(big.NewInt(10), big.NewInt(33), nil)
	c12One     = big.NewInt(1)
	c12MaxViol = 3 // witnesses written per worker process and signature (all occurrences are counted in violations/*)
	c12Nviol   = map[string]int{}
)

func c12Call(fn int, s, r *big.Int, crr int, a *big.Int) (res *big.Int, pan interface{}) {
	defer func() {
		if p := recover(); p != nil {
			pan = p
		}
	}()
	// the functions must not modify their arguments either: pass copies, compare afterwards in the caller if wanted
	switch fn {
	case BPurchaseReturn:
		res = formula.CalculatePurchaseReturn(s, r, uint32(crr), a)
	case BPurchaseAmount:
		res = formula.CalculatePurchaseAmount(s, r, uint32(crr), a)
	case BSaleReturn:
		res = formula.CalculateSaleReturn(s, r, uint32(crr), a)
	case BSaleAmount:
		res = formula.CalculateSaleAmount(s, r, uint32(crr), a)
	}
	return
}

// c12InDomain: what the callers can pass (buy_coin.go / sell_coin.go / sell_all_coin.go):
// PurchaseReturn: any deposit; PurchaseAmount: supply+want <= max supply <= 10^33 (CheckForCoinSupplyOverflow before the call);
// SaleReturn: sell <= supply (CalculateSaleReturnAndCheck); SaleAmount: want <= reserve (CalculateSaleAmountAndCheck).
func c12InDomain(fn int, s, r, a *big.Int) bool {
	switch fn {
	case BPurchaseAmount:
		return new(big.Int).Add(s, a).Cmp(c12Ten33) <= 0
	case BSaleReturn:
		return a.Cmp(s) <= 0
	case BSaleAmount:
		return a.Cmp(r) <= 0
	}
	return true
}

// c12Tol returns the allowed |got - floor(exact)| for a reference value.
func c12Tol(ref *BancorRef) *big.Int {
	return c12TolBits(ref, c12RelBits, c12AbsBits)
}

func c12L(ref *BancorRef) int64 {
	// L = max(1, bit length of floor(exact/scale)) ~ log2 of the power for purchases; 1 for sales (power <= 1)
	q := new(big.Int).Quo(ref.Floor, ref.Scale)
	l := int64(q.BitLen())
	if l < 1 {
		l = 1
	}
	return l
}

func c12TolBits(ref *BancorRef, relBits, absBits uint) *big.Int {
	t := new(big.Int).Mul(ref.Floor, big.NewInt(c12L(ref)))
	t.Rsh(t, relBits)
	t.Add(t, new(big.Int).Rsh(ref.Scale, absBits))
	return t.Add(t, big.NewInt(3)) // 1 unit of truncation + the two terms rounded up
}

func c12Mag(v *big.Int) string {
	// magnitude bucket in decimal digits, 3 digits per bucket
	n := len(v.Text(10))
	if v.Sign() == 0 {
		n = 0
	}
	lo := (n / 3) * 3
	return fmt.Sprintf("1e%02d", lo)
}

func c12RandRange(r *rand.Rand, loExp, hiExp int) *big.Int {
	// log-uniform in [10^loExp, 10^hiExp]
	e := loExp + r.Intn(hiExp-loExp+1)
	lo := new(big.Int).Exp(big.NewInt(10), big.NewInt(int64(e)), nil)
	if e == hiExp {
		return lo
	}
	v := RandBig(r, new(big.Int).Mul(lo, big.NewInt(9)))
	return v.Add(v, lo)
}

type c12Amt struct {
	v    *big.Int
	kind string
}

type c12Max struct {
	Rel     [4]float64 `json:"rel"`    // max (|got-floor|-1)/(exact*L) where the relative term dominates
	Abs     [4]float64 `json:"abs"`    // max (|got-floor|-1)/scale where the absolute term dominates
	Rho     [4]float64 `json:"rho"`    // max (|got-floor|-1)/(frozen tolerance - 1)
	RT      [2]float64 `json:"rt"`     // max (back-paid-1)/(tolerance-1) for the two round trips
	RelW    [4]string  `json:"rel_w"`  // witness tuples
	AbsW    [4]string  `json:"abs_w"`  //
	RTW     [2]string  `json:"rt_w"`   //
	RTExc   [2]string  `json:"rt_exc"` // largest positive excess back-paid seen (pip)
	rtExcBI [2]*big.Int
}

const c12MaxNote = "c12max "

func c12LoadMax(res *WorkerResult) (*c12Max, int) {
	for i, n := range res.Notes {
		if strings.HasPrefix(n, c12MaxNote) {
			var m c12Max
			if json.Unmarshal([]byte(n[len(c12MaxNote):]), &m) == nil {
				for k := 0; k < 2; k++ {
					m.rtExcBI[k] = BI(m.RTExc[k])
				}
				return &m, i
			}
		}
	}
	m := &c12Max{}
	m.rtExcBI[0], m.rtExcBI[1] = new(big.Int), new(big.Int)
	return m, -1
}

func c12StoreMax(res *WorkerResult, m *c12Max, at int) {
	for k := 0; k < 2; k++ {
		m.RTExc[k] = m.rtExcBI[k].String()
	}
	bz, _ := json.Marshal(m)
	s := c12MaxNote + string(bz)
	if at >= 0 {
		res.Notes[at] = s
	} else {
		res.Notes = append(res.Notes, s)
	}
}

func c12Ratio(num, den *big.Int) float64 {
	if den.Sign() == 0 {
		if num.Sign() == 0 {
			return 0
		}
		return math.Inf(1)
	}
	q := new(big.Float).SetPrec(64).Quo(new(big.Float).SetInt(num), new(big.Float).SetInt(den))
	f, _ := q.Float64()
	return f
}

func c12Scaled(f float64, bits int) int64 {
	v := math.Ldexp(f, bits)
	if v >= math.MaxInt64/2 || math.IsInf(v, 1) {
		return math.MaxInt64 / 2
	}
	return int64(math.Ceil(v))
}

type c12Runner struct {
	ctx   *WorkCtx
	idx   int
	nviol map[string]int
	mx    *c12Max
	k     int
	wide  bool // the reserve of the tuple being judged needs more than 100 bits
}

func (c *c12Runner) violate(rule string, fn string, detail string, w map[string]interface{}) {
	if c.wide {
		// input class, not a cause: the reserve (a BIP amount) is above 2^100 pip = 1.27*10^12 BIP, which no chain that respects the
		// 10^10 BIP emission cap can reach, but which the property statement (everything up to 10^33 pip) covers
		rule = "reserve>2^100/" + rule
	}
	sig := rule + "/" + fn
	c.ctx.Res.Count("violations/"+sig, 1)
	c.nviol[sig]++
	max := c12MaxViol
	if c.ctx.Thorough() {
		max = 1 // hundreds of worker processes: one witness per signature and process is plenty
	}
	if c.nviol[sig] > max {
		return
	}
	w["property"], w["rule"], w["site"], w["detail"] = "C12", rule, fn, detail
	w["seed"], w["case"] = c.ctx.Seed, c.idx
	path := c.ctx.ReplayPath(c.idx, c.k)
	c.k++
	bz, _ := json.MarshalIndent(w, "", " ")
	_ = os.WriteFile(path, bz, 0o644)
	c.ctx.Res.Violations = append(c.ctx.Res.Violations, ReportedViol{Violation: Violation{Property: "C12", Rule: rule, Site: fn, Detail: detail, TxIndex: -1}, Replay: path})
}

func c12Tuple(s, r *big.Int, crr int, a *big.Int) string {
	return fmt.Sprintf("supply=%s reserve=%s crr=%d amount=%s", s, r, crr, a)
}

// c12Base generates one (supply, reserve) pair and its class.
// region "real": what transactions can reach - supply 1 BIP .. 10^15 BIP (CreateCoin limits), reserve 10000 BIP (minimum kept by
// CheckReserveUnderflow) .. 10^10 BIP (total BIP emission cap); region "extreme": everything the statement quantifies over, 1 .. 10^33 pip.
func c12Base(r *rand.Rand) (s, res *big.Int, region, shape string) {
	real := r.Intn(2) == 0
	sLo, sHi, rLo, rHi := 0, 33, 0, 33
	region = "extreme"
	if real {
		region = "real"
		sLo, rLo, rHi = 18, 22, 28
	}
	p10 := func(e int) *big.Int { return new(big.Int).Exp(big.NewInt(10), big.NewInt(int64(e)), nil) }
	s, res = c12RandRange(r, sLo, sHi), c12RandRange(r, rLo, rHi)
	shape = "rand"
	switch r.Intn(16) {
	case 0:
		shape = "S=R"
		res = c12RandRange(r, rLo, rHi)
		s = new(big.Int).Set(res)
	case 1:
		shape = "R=S(1+-2^-k)"
		s = c12RandRange(r, rLo, rHi)
		d := new(big.Int).Rsh(s, uint(1+r.Intn(100)))
		if r.Intn(2) == 0 {
			res = new(big.Int).Add(s, d)
		} else {
			res = new(big.Int).Sub(s, d)
		}
	case 2:
		shape = "pow2"
		if real {
			s = new(big.Int).Lsh(c12One, uint(60+r.Intn(50)))   // 2^60 > 10^18, 2^109 < 10^33
			res = new(big.Int).Lsh(c12One, uint(74+r.Intn(20))) // 2^74 > 10^22, 2^93 < 10^28
		} else {
			s = new(big.Int).Lsh(c12One, uint(r.Intn(110)))
			res = new(big.Int).Lsh(c12One, uint(r.Intn(110)))
		}
	case 3:
		shape = "min"
		if r.Intn(2) == 0 {
			s = new(big.Int).Add(p10(sLo), big.NewInt(int64(r.Intn(3))))
		}
		if r.Intn(2) == 0 {
			res = new(big.Int).Add(p10(rLo), big.NewInt(int64(r.Intn(3))))
		}
	case 4:
		shape = "max"
		if r.Intn(2) == 0 {
			s = new(big.Int).Sub(p10(sHi), big.NewInt(int64(r.Intn(3))))
		} else {
			res = new(big.Int).Sub(p10(rHi), big.NewInt(int64(r.Intn(3))))
		}
	case 5:
		shape = "wide-supply" // more than 100 significant bits: not representable in the 100-bit mantissa
		s = new(big.Int).Sub(c12Ten33, RandBig(r, new(big.Int).Lsh(c12One, 108)))
	case 6:
		if !real {
			shape = "wide-reserve"
			res = new(big.Int).Sub(c12Ten33, RandBig(r, new(big.Int).Lsh(c12One, 108)))
		}
	}
	if s.Sign() <= 0 {
		s = big.NewInt(1)
	}
	if res.Sign() <= 0 {
		res = big.NewInt(1)
	}
	if res.Cmp(p10(rHi)) > 0 {
		res = p10(rHi)
	}
	return
}

// c12Chain generates the ascending amounts for one base.
func c12Chain(r *rand.Rand, s, res *big.Int, crr int) []c12Amt {
	var l []c12Amt
	add := func(v *big.Int, kind string) {
		if v == nil || v.Sign() <= 0 || v.Cmp(c12Ten33) > 0 {
			return
		}
		l = append(l, c12Amt{new(big.Int).Set(v), kind})
	}
	add(RandLog(r, 33), "log")
	add(RandLog(r, 33), "log")
	add(new(big.Int).Add(RandBig(r, s), c12One), "mid-supply")
	add(new(big.Int).Add(RandBig(r, res), c12One), "mid-reserve")
	for n := 0; n < 4; n++ {
		k := uint(1 + r.Intn(110))
		switch r.Intn(14) {
		case 0:
			add(c12One, "one")
		case 1:
			add(new(big.Int).Sub(s, c12One), "supply-1")
		case 2:
			add(s, "supply")
		case 3:
			add(new(big.Int).Sub(res, c12One), "reserve-1")
		case 4:
			add(res, "reserve")
		case 5:
			add(new(big.Int).Sub(c12Ten33, s), "max-want")
		case 6:
			v := new(big.Int).Mul(res, new(big.Int).Exp(big.NewInt(10), big.NewInt(int64(3+r.Intn(30))), nil))
			if v.Cmp(c12Ten33) > 0 {
				v = new(big.Int).Sub(c12Ten33, big.NewInt(int64(r.Intn(1000))))
			}
			add(v, "deposit>>reserve")
		case 7:
			add(new(big.Int).Rsh(s, k), "supply*2^-k") // sale ratio 1-2^-k, purchase-amount ratio 1+2^-k
		case 8:
			add(new(big.Int).Sub(s, new(big.Int).Rsh(s, k)), "supply*(1-2^-k)") // sale ratio 2^-k
		case 9:
			add(new(big.Int).Rsh(res, k), "reserve*2^-k") // purchase ratio 1+2^-k, sale-amount ratio 1-2^-k
		case 10:
			add(new(big.Int).Sub(res, new(big.Int).Rsh(res, k)), "reserve*(1-2^-k)")
		case 11, 12:
			// deposit just below / at the exact cost of n units: the returned amount sits next to an integer boundary
			n := RandLog(r, 24)
			if new(big.Int).Add(s, n).Cmp(c12Ten33) <= 0 {
				ref := HPBancor(BPurchaseAmount, s, res, crr, n)
				if !ref.Huge {
					add(ref.Floor, "unit-boundary")
					add(new(big.Int).Add(ref.Floor, c12One), "unit-boundary")
				}
			}
		case 13:
			add(big.NewInt(int64(2+r.Intn(1000))), "tiny")
		}
	}
	// neighbours a, a+1 of two random members
	for n := 0; n < 2 && len(l) > 0; n++ {
		m := l[r.Intn(len(l))]
		add(new(big.Int).Add(m.v, c12One), "nbr+1("+m.kind+")")
	}
	sort.SliceStable(l, func(i, j int) bool { return l[i].v.Cmp(l[j].v) < 0 })
	out := l[:0]
	for i, m := range l {
		if i > 0 && m.v.Cmp(out[len(out)-1].v) == 0 {
			continue
		}
		out = append(out, m)
	}
	return out
}

// c12Bracket re-derives floor <= value < floor+1 with integer arithmetic only (self-check of the reference on a sample).
func c12Bracket(fn int, s, res *big.Int, crr int, a *big.Int, floor *big.Int) bool {
	g := hpGcd(crr, 100)
	var xn, xd, scale *big.Int
	var ea, eb int
	switch fn {
	case BPurchaseReturn:
		xn, xd, scale, ea, eb = new(big.Int).Add(res, a), res, s, crr/g, 100/g
	case BPurchaseAmount:
		xn, xd, scale, ea, eb = new(big.Int).Add(s, a), s, res, 100/g, crr/g
	case BSaleReturn:
		xn, xd, scale, ea, eb = new(big.Int).Sub(s, a), s, res, 100/g, crr/g
	default:
		xn, xd, scale, ea, eb = new(big.Int).Sub(res, a), res, s, crr/g, 100/g
	}
	ge := func(k *big.Int) bool { // value >= k ?
		if fn == BPurchaseReturn || fn == BPurchaseAmount {
			return HPCmpPowRat(xn, xd, ea, eb, new(big.Int).Add(scale, k), scale) >= 0
		}
		t := new(big.Int).Sub(scale, k)
		if t.Sign() < 0 {
			return false
		}
		return HPCmpPowRat(xn, xd, ea, eb, t, scale) <= 0
	}
	return ge(floor) && !ge(new(big.Int).Add(floor, c12One))
}

func c12CrrClass(crr int) string {
	switch {
	case crr == 100:
		return "linear"
	case 100%crr == 0:
		return "int-exp" // 100/crr is an integer: 10, 20, 25, 50
	}
	return "frac"
}

func c12RatioClass(a, base *big.Int) string {
	// where the amount sits relative to supply / reserve
	c := a.Cmp(base)
	switch {
	case c == 0:
		return "all"
	case c > 0:
		if a.BitLen() > base.BitLen()+20 {
			return "huge"
		}
		return "above"
	case a.BitLen() < base.BitLen()-60:
		return "dust"
	case a.BitLen() < base.BitLen()-10:
		return "small"
	}
	return "mid"
}

func c12Run(ctx *WorkCtx, idx int) {
	r := Rng(ctx.Seed, "C12", idx)
	ro := Rng(ctx.Seed, "C12-oracle-sample", idx)
	mx, at := c12LoadMax(ctx.Res)
	c := &c12Runner{ctx: ctx, idx: idx, nviol: c12Nviol, mx: mx}
	for crr := 10; crr <= 100; crr++ {
		s, res, region, shape := c12Base(r)
		c.wide = res.BitLen() > 100
		chain := c12Chain(r, s, res, crr)
		ctx.Res.Seen("base/" + region + "/" + shape)
		ctx.Res.Seen("supply/" + c12Mag(s))
		ctx.Res.Seen("reserve/" + c12Mag(res))
		var prev [4]*big.Int
		var prevAmt [4]*big.Int
		var prevTol [4]*big.Int
		for _, am := range chain {
			a := am.v
			ctx.Res.Evaluations++
			ctx.Res.Seen("amount/" + c12Mag(a))
			ctx.Res.Seen("corner/" + strings.SplitN(am.kind, "(", 2)[0])
			ctx.Res.Count("tuples/"+region, 1)
			for fn := 0; fn < 4; fn++ {
				name := BancorNames[fn]
				c.wide = res.BitLen() > 100
				if !c12InDomain(fn, s, res, a) {
					ctx.Res.Count("outside_caller_domain/"+name, 1)
					continue
				}
				sc, rc, ac := new(big.Int).Set(s), new(big.Int).Set(res), new(big.Int).Set(a)
				got, pan := c12Call(fn, sc, rc, crr, ac)
				tuple := c12Tuple(s, res, crr, a)
				w := func() map[string]interface{} {
					return map[string]interface{}{"function": name, "supply": s.String(), "reserve": res.String(), "crr": crr, "amount": a.String(), "amount_kind": am.kind, "region": region}
				}
				if pan != nil {
					c.violate("panic", name, fmt.Sprintf("%s: panic %v", tuple, pan), w())
					continue
				}
				if sc.Cmp(s) != 0 || rc.Cmp(res) != 0 || ac.Cmp(a) != 0 {
					c.violate("argument-modified", name, tuple, w())
				}
				ctx.Res.Count("calls/"+name, 1)
				base := s
				if fn == BPurchaseReturn || fn == BSaleAmount {
					base = res
				}
				ctx.Res.Seen(fmt.Sprintf("crr=%d/%s/%s", crr, name, c12RatioClass(a, base)))
				ctx.Res.Seen(fmt.Sprintf("%s/%s/%s/%s", name, region, c12CrrClass(crr), c12RatioClass(a, base)))
				ref := HPBancor(fn, s, res, crr, a)
				ctx.Res.Count("oracle_path/"+ref.Path, 1)
				if !ref.Huge && ref.Path != "zero-base" && ro.Intn(64) == 0 {
					if c12Bracket(fn, s, res, crr, a, ref.Floor) {
						ctx.Res.Count("oracle_selfcheck_exact_bracket_ok", 1)
					} else {
						ctx.Res.Inconcl = append(ctx.Res.Inconcl, "reference self-check failed (floor not bracketed exactly) at "+name+" "+c12Tuple(s, res, crr, a))
						continue
					}
				}
				if ref.Exact {
					ctx.Res.Count("exact_value_is_integer", 1)
				}
				tol := c12Tol(&ref)
				wj := func() map[string]interface{} {
					m := w()
					m["got"], m["ref_floor"], m["tolerance"], m["oracle_path"] = got.String(), ref.Floor.String(), tol.String(), ref.Path
					m["ref_value"] = ref.V.Text('g', 60)
					return m
				}
				// (2) never negative
				if got.Sign() < 0 {
					c.violate("negative", name, fmt.Sprintf("%s: got %s", tuple, got), wj())
				}
				// (3) sale return never exceeds the reserve
				if fn == BSaleReturn && got.Cmp(res) > 0 {
					c.violate("exceeds-reserve", name, fmt.Sprintf("%s: got %s > reserve", tuple, got), wj())
				}
				// (5) whole supply returns exactly the reserve
				if fn == BSaleReturn && a.Cmp(s) == 0 {
					ctx.Res.Count("full_supply_sales", 1)
					if got.Cmp(res) != 0 {
						c.violate("full-supply", name, fmt.Sprintf("%s: got %s != reserve", tuple, got), wj())
					}
				}
				// (1) closeness
				diff := new(big.Int).Sub(got, ref.Floor)
				sgn := diff.Sign()
				diff.Abs(diff)
				if strings.HasPrefix(am.kind, "unit-boundary") && fn == BPurchaseReturn {
					ctx.Res.Count(fmt.Sprintf("unit_boundary_deposits/PurchaseReturn-floor=%+d", new(big.Int).Sub(got, ref.Floor).Sign()), 1)
				}
				if diff.Cmp(tol) > 0 {
					c.violate("closeness", name, fmt.Sprintf("%s: got %s, floor(exact) %s, |diff| %s > tolerance %s", tuple, got, ref.Floor, diff, tol), wj())
				}
				c.measure(fn, &ref, diff, tol, tuple)
				switch {
				case diff.Sign() == 0:
					ctx.Res.Count("diff/"+name+"/0", 1)
				case diff.Cmp(c12One) == 0 && sgn > 0:
					ctx.Res.Count("diff/"+name+"/+1", 1)
				case diff.Cmp(c12One) == 0:
					ctx.Res.Count("diff/"+name+"/-1", 1)
				case sgn > 0:
					ctx.Res.Count("diff/"+name+"/>+1", 1)
				default:
					ctx.Res.Count("diff/"+name+"/<-1", 1)
				}
				// (4) monotone along the chain
				if prev[fn] != nil {
					ctx.Res.Count("monotone_pairs/"+name, 1)
					if new(big.Int).Sub(a, prevAmt[fn]).Cmp(c12One) == 0 {
						ctx.Res.Count("monotone_pairs_neighbours/"+name, 1)
					}
					if got.Cmp(prev[fn]) < 0 {
						dec := new(big.Int).Sub(prev[fn], got)
						lim := tol
						if prevTol[fn].Cmp(lim) > 0 {
							lim = prevTol[fn]
						}
						m := wj()
						m["prev_amount"], m["prev_got"], m["decrease"] = prevAmt[fn].String(), prev[fn].String(), dec.String()
						det := fmt.Sprintf("supply=%s reserve=%s crr=%d: f(%s)=%s > f(%s)=%s (decrease %s, float tolerance %s)", s, res, crr, prevAmt[fn], prev[fn], a, got, dec, lim)
						if dec.Cmp(lim) > 0 {
							c.violate("monotone", name, det, m)
						} else {
							c.violate("monotone-within-ulp", name, det, m)
						}
					} else if got.Cmp(prev[fn]) == 0 {
						ctx.Res.Count("monotone_pairs_equal/"+name, 1)
					}
				}
				prev[fn], prevAmt[fn], prevTol[fn] = got, a, tol
				// (6) round trips: buy, then sell what was bought, on the state after the purchase
				if fn == BPurchaseReturn || fn == BPurchaseAmount {
					var coins, paid *big.Int
					k := 0
					if fn == BPurchaseReturn {
						coins, paid = got, a
					} else {
						coins, paid, k = a, got, 1
					}
					rt := "PurchaseReturn>SaleReturn"
					if k == 1 {
						rt = "PurchaseAmount>SaleReturn"
					}
					s2, r2 := new(big.Int).Add(s, coins), new(big.Int).Add(res, paid)
					if coins.Sign() <= 0 || paid.Sign() < 0 || s2.Cmp(c12Ten33) > 0 || r2.Cmp(c12Ten33) > 0 {
						ctx.Res.Count("roundtrip_skipped(nothing bought or state above 1e33)/"+rt, 1)
						continue
					}
					c.wide = r2.BitLen() > 100
					back, pan := c12Call(BSaleReturn, new(big.Int).Set(s2), new(big.Int).Set(r2), crr, new(big.Int).Set(coins))
					m := w()
					m["bought"], m["paid"], m["supply_after"], m["reserve_after"] = coins.String(), paid.String(), s2.String(), r2.String()
					if pan != nil {
						c.violate("panic", rt, fmt.Sprintf("%s: panic in the sale %v", tuple, pan), m)
						continue
					}
					ctx.Res.Count("roundtrips/"+rt, 1)
					// tolerance: 1 + paid*eps + reserve_after*2^-absBits  (the sale's scale is the reserve after the purchase)
					rtol := new(big.Int).Rsh(paid, c12RTRelBits)
					rtol.Add(rtol, new(big.Int).Rsh(r2, c12RTAbsBits))
					rtol.Add(rtol, big.NewInt(3))
					exc := new(big.Int).Sub(back, paid)
					m["back"], m["excess"], m["tolerance"] = back.String(), exc.String(), rtol.String()
					if exc.Sign() > 0 {
						ctx.Res.Count("roundtrip_back_gt_paid/"+rt, 1)
						if exc.Cmp(c12One) > 0 {
							ctx.Res.Count("roundtrip_back_gt_paid+1/"+rt, 1)
						}
						if !c.wide && exc.Cmp(c.mx.rtExcBI[k]) > 0 {
							c.mx.rtExcBI[k] = exc
						}
						e1 := new(big.Int).Sub(exc, c12One)
						rho := c12Ratio(e1, new(big.Int).Sub(rtol, c12One))
						if !c.wide && rho > c.mx.RT[k] {
							c.mx.RT[k], c.mx.RTW[k] = rho, tuple+" bought="+coins.String()+" paid="+paid.String()+" back="+back.String()
						}
					}
					if exc.Cmp(rtol) > 0 {
						c.violate("roundtrip", rt, fmt.Sprintf("%s: bought %s for %s, sold them back for %s (excess %s > tolerance %s)", tuple, coins, paid, back, exc, rtol), m)
					}
				}
			}
			if ctx.Res.Evaluations%997 == 1 {
				ctx.Res.Sample(map[string]interface{}{"supply": s.String(), "reserve": res.String(), "crr": crr, "amount": a.String(), "kind": am.kind, "region": region,
					"purchase_return": fmt.Sprint(prev[0]), "sale_return(if amount<=supply)": fmt.Sprint(prev[2])}, 6)
			}
		}
	}
	c12StoreMax(ctx.Res, c.mx, at)
}

// measure records the observed error of one judged call (evidence + calibration).
// err = |got - floor(exact)| - 1 unit.  It is attributed to the relative term when exact*L*2^-53 is at least 2^10 times
// scale*2^-97 (and to the absolute term in the opposite case); mixed cases only enter max_err_over_tolerance.
func (c *c12Runner) measure(fn int, ref *BancorRef, diff, tol *big.Int, tuple string) {
	name := BancorNames[fn]
	if c.wide {
		name += "@reserve>2^100"
	}
	if diff.Cmp(c12One) <= 0 {
		c.ctx.Res.Count("err/"+name+"/none(<=1 unit)", 1)
		return
	}
	bin := func(f float64) string {
		b := int(math.Floor(math.Log2(f)/4)) * 4
		return fmt.Sprintf("2^[%d,%d)", b, b+4)
	}
	e := new(big.Int).Sub(diff, c12One)
	relDen := new(big.Int).Mul(ref.Floor, big.NewInt(c12L(ref)))
	relTerm := new(big.Int).Rsh(relDen, 53)
	absTerm := new(big.Int).Rsh(ref.Scale, 97)
	switch {
	case relTerm.Sign() == 0 && absTerm.Sign() == 0:
		// both error terms are below one unit (values under 2^53, scale under 2^97): a second unit of rounding, nothing to attribute
		c.ctx.Res.Count("err/"+name+"/2 units at sub-unit error terms", 1)
	case relTerm.Cmp(new(big.Int).Lsh(absTerm, 10)) >= 0:
		f := c12Ratio(e, relDen)
		c.ctx.Res.Count("err/"+name+"/rel/"+bin(f), 1)
		if !c.wide && f > c.mx.Rel[fn] {
			c.mx.Rel[fn], c.mx.RelW[fn] = f, tuple
		}
	case absTerm.Cmp(new(big.Int).Lsh(relTerm, 10)) >= 0:
		f := c12Ratio(e, ref.Scale)
		c.ctx.Res.Count("err/"+name+"/abs/"+bin(f), 1)
		if !c.wide && f > c.mx.Abs[fn] {
			c.mx.Abs[fn], c.mx.AbsW[fn] = f, tuple
		}
	default:
		c.ctx.Res.Count("err/"+name+"/mixed", 1)
	}
	rho := c12Ratio(e, new(big.Int).Sub(tol, c12One))
	if !c.wide && rho > c.mx.Rho[fn] {
		c.mx.Rho[fn] = rho
	}
}

// c12Post folds the per-worker maxima into counters (scaled integers) and one note.
func c12Post(total *WorkerResult) {
	var all c12Max
	all.rtExcBI[0], all.rtExcBI[1] = new(big.Int), new(big.Int)
	var rest []string
	for _, n := range total.Notes {
		if !strings.HasPrefix(n, c12MaxNote) {
			rest = append(rest, n)
			continue
		}
		var m c12Max
		if json.Unmarshal([]byte(n[len(c12MaxNote):]), &m) != nil {
			continue
		}
		for fn := 0; fn < 4; fn++ {
			if m.Rel[fn] > all.Rel[fn] {
				all.Rel[fn], all.RelW[fn] = m.Rel[fn], m.RelW[fn]
			}
			if m.Abs[fn] > all.Abs[fn] {
				all.Abs[fn], all.AbsW[fn] = m.Abs[fn], m.AbsW[fn]
			}
			if m.Rho[fn] > all.Rho[fn] {
				all.Rho[fn] = m.Rho[fn]
			}
		}
		for k := 0; k < 2; k++ {
			if m.RT[k] > all.RT[k] {
				all.RT[k], all.RTW[k] = m.RT[k], m.RTW[k]
			}
			if e := BI(m.RTExc[k]); e.Cmp(all.rtExcBI[k]) > 0 {
				all.rtExcBI[k] = e
			}
		}
	}
	for fn := 0; fn < 4; fn++ {
		name := BancorNames[fn]
		total.Counters["max_rel_x2^70/"+name] = c12Scaled(all.Rel[fn], 70)
		total.Counters["max_abs_x2^120/"+name] = c12Scaled(all.Abs[fn], 120)
		total.Counters["max_err_over_tolerance_x2^20/"+name] = c12Scaled(all.Rho[fn], 20)
		rest = append(rest, fmt.Sprintf("%s: max relative error (beyond 1 unit, per L) 2^%.2f at [%s]; max absolute error 2^%.2f*scale at [%s]; max error/tolerance 2^%.2f",
			name, math.Log2(all.Rel[fn]), all.RelW[fn], math.Log2(all.Abs[fn]), all.AbsW[fn], math.Log2(all.Rho[fn])))
	}
	for k, rt := range []string{"PurchaseReturn>SaleReturn", "PurchaseAmount>SaleReturn"} {
		total.Counters["max_roundtrip_excess_over_tolerance_x2^20/"+rt] = c12Scaled(all.RT[k], 20)
		rest = append(rest, fmt.Sprintf("round trip %s: largest back-paid = %s pip; max (excess-1)/tolerance 2^%.2f at [%s]", rt, all.rtExcBI[k], math.Log2(all.RT[k]), all.RTW[k]))
	}
	total.Notes = rest
}

func init() {
	Register(&CheckDef{
		ID: "C12", Level: "exploration",
		Rule: "each case draws, for every crr 10..100, one (supply, reserve) base - half from the transaction-reachable region (supply 1 BIP..10^15 BIP, " +
			"reserve 10000 BIP..10^10 BIP = emission cap), half from the whole quantified range 1..10^33 pip, log-uniform with structured shapes " +
			"(S=R, R=S(1+-2^-k), powers of two, minima, maxima, more than 100 significant bits) - and an ascending chain of ~9 amounts (log-uniform 1..10^33, " +
			"uniform below supply/reserve, corners 1, supply-1, supply, reserve-1, reserve, 10^33-supply, deposit>>reserve, ratios 1+-2^-k, deposits at the exact " +
			"cost of n units, neighbours a,a+1). One evaluation = one (supply,reserve,crr,amount) tuple on which the real formula.Calculate{PurchaseReturn," +
			"PurchaseAmount,SaleReturn,SaleAmount} are called wherever the amount is inside the domain their callers enforce (sale amount<=supply, wanted " +
			"reserve<=reserve, supply+wanted<=10^33; supply,reserve>=1) and judged against the HighPrec reference (exact rational power / 1024-bit Newton root, " +
			"floors settled by exact integer comparison): closeness |got-floor(exact)| <= 1 + exact*L*2^-42 + scale*2^-86 (L=max(1,log2 of the power)), " +
			"non-negative, sale return <= reserve, full-supply sale == reserve, monotone along the chain (two classes), buy-then-sell round trips " +
			"(PurchaseReturn>SaleReturn and PurchaseAmount>SaleReturn on the post-purchase state) back-paid <= 1 + paid*2^-42 + reserve*2^-86. " +
			"Violations on tuples whose reserve exceeds 2^100 pip (unreachable under the emission cap, inside the statement) carry the rule prefix reserve>2^100/. " +
			"Distinct = (crr, function, amount/base ratio class), (function, region, exponent class, ratio class), magnitude buckets of supply/reserve/amount, base shapes, corner kinds.",
		Assumptions: []string{
			"the reference (harness/h/highprec.go) is independent of /repo/math: only math/big and a float64 first guess; integer exponents are computed exactly as rationals, other floors are decided by exact big.Int comparison when the 1024-bit value is within 2^-300 of an integer",
			"supply = 0 or reserve = 0 (division by zero) and amounts outside the callers' checks are not generated: no caller can pass them for a reserve coin",
			"the tolerance constants were calibrated once on the unchanged tree and frozen with a margin of at least 2^10 over the largest error observed (see counters max_rel_x2^70, max_abs_x2^120, max_err_over_tolerance_x2^20)",
			"values above 2^600 (only PurchaseAmount far outside any reachable state) are compared in floating point; a unit is irrelevant at that size",
		},
		Quick: 280, Thorough: 2800, Batch: 20,
		MinEval: 150000, MinDistinct: 1000,
		Env:  []string{"GOMAXPROCS=2"},
		Run:  c12Run,
		Post: c12Post,
	})
}

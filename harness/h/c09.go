package h

import (
	"bytes"
	"encoding/json"
	"fmt"
	tx "github.com/MinterTeam/minter-go-node/coreV2/transaction"
	"math/rand"
	"os"
)

// QueryView is what C09/C10/C29 compare between instances besides block responses.
type QueryView struct {
	InfoHeight int64
	InfoHash   string
	Emission   string
	Versions   string
	Validators string
	Price      string
	Events     string
	MaxGas     uint64
}

// View collects the query results of an instance (events of the last k heights).
func (n *Node) View(lastHeight int64, k int) (v QueryView, pi *PanicInfo) {
	pi = n.guard("Query", func() {
		info := n.App.Info(abciInfoReq)
		v.InfoHeight, v.InfoHash = info.LastBlockHeight, fmt.Sprintf("%x", info.LastBlockAppHash)
		v.Emission = n.App.GetEmission().String()
		bz, _ := json.Marshal(n.App.UpdateVersions())
		v.Versions = string(bz)
		bz, _ = json.Marshal(n.App.VerifAppDB().GetValidators())
		v.Validators = string(bz)
		t, r0, r1, last, off := n.App.VerifAppDB().GetPrice()
		v.Price = fmt.Sprintf("%d %v %v %v %v", t.UnixNano(), r0, r1, last, off)
		var eb bytes.Buffer
		for h := lastHeight - int64(k) + 1; h <= lastHeight; h++ {
			if h < 1 {
				continue
			}
			ev := n.App.GetEventsDB().LoadEvents(uint32(h))
			bz, _ := json.Marshal(ev)
			fmt.Fprintf(&eb, "%d:%s;", h, bz)
		}
		v.Events = eb.String()
	})
	return
}

// DiffView lists the differing fields.
func DiffView(a, b QueryView) []string {
	var out []string
	chk := func(name, x, y string) {
		if x != y {
			out = append(out, fmt.Sprintf("%s: %s vs %s", name, clipS(x, 160), clipS(y, 160)))
		}
	}
	chk("info.height", fmt.Sprint(a.InfoHeight), fmt.Sprint(b.InfoHeight))
	chk("info.hash", a.InfoHash, b.InfoHash)
	chk("emission", a.Emission, b.Emission)
	chk("versions", a.Versions, b.Versions)
	chk("validators", a.Validators, b.Validators)
	chk("price", a.Price, b.Price)
	chk("events", a.Events, b.Events)
	return out
}

// MonRestart runs a second instance on goleveldb that is restarted at scheduled block boundaries (C09).
type MonRestart struct {
	BaseMon
	Res      *WorkerResult
	Dir      string
	N        *Node
	Restarts map[int64]int // height -> number of restarts AFTER that block
	dead     bool
	done     int
}

func (m *MonRestart) Name() string { return "C09" }

func (m *MonRestart) Init(s *Sim) {
	opts := s.Opts
	opts.AppDir = "" // a second instance never shares the first one's app DB directory
	opts.Dir = m.Dir
	opts.Wrap = nil
	m.N = NewNode(opts)
	if _, pi := m.N.InitChain(s.Gen, s.W.InitialHeight, s.T0); pi != nil {
		m.dead = true
	}
}

func (m *MonRestart) fail(s *Sim, rule, site, detail string, h int64) {
	m.dead = true
	s.Report(Violation{Property: "C09", Rule: rule, Site: site, Height: h, TxIndex: -1, Detail: detail})
}

func (m *MonRestart) compareState(s *Sim, h int64, when string) {
	va, pa := s.N.View(h, 3)
	vb, pb := m.N.View(h, 3)
	if pa != nil || pb != nil {
		who := pb
		if who == nil {
			who = pa
		}
		m.fail(s, "query-panic", when+":"+who.Site, firstLine(who.Value), h)
		return
	}
	if d := DiffView(va, vb); len(d) > 0 {
		m.fail(s, "query-differs", when+":"+fieldOf(d[0]), fmt.Sprint(clip(d, 4)), h)
		return
	}
	// state export: live and from disk
	var eb, db = m.exportLive(s, h, when), m.exportDisk(s, h, when)
	if m.dead {
		return
	}
	if d := DiffExports(s.Post, eb, 6); len(d) > 0 {
		m.fail(s, "export-differs", when+":live:"+pathClass(d[0]), fmt.Sprint(d), h)
		return
	}
	if d := DiffExports(s.Post, db, 6); len(d) > 0 {
		m.fail(s, "export-differs", when+":disk:"+pathClass(d[0]), fmt.Sprint(d), h)
		return
	}
	m.Res.Evaluations++
}

func (m *MonRestart) exportLive(s *Sim, h int64, when string) (e *typesAppState) {
	pi := m.N.guard("Export", func() {
		cs := m.N.App.CurrentState()
		if cs == nil {
			panic("CurrentState() is nil")
		}
		x := cs.Export()
		e = &x
	})
	if pi != nil {
		m.fail(s, "query-panic", when+":live-export:"+pi.Site, firstLine(pi.Value), h)
	}
	return
}

func (m *MonRestart) exportDisk(s *Sim, h int64, when string) *typesAppState {
	e, err := m.N.DiskExport()
	if err != nil {
		m.fail(s, "query-panic", when+":disk-export", err.Error(), h)
		return nil
	}
	return e
}

func fieldOf(d string) string {
	for i, c := range d {
		if c == ':' {
			return d[:i]
		}
	}
	return d
}

// pathClass keeps the top-level section of an export path.
func pathClass(d string) string {
	if len(d) < 2 {
		return d
	}
	for i := 1; i < len(d); i++ {
		if d[i] == '/' || d[i] == '[' || d[i] == ':' {
			return d[:i]
		}
	}
	return d
}

func (m *MonRestart) AfterBlock(s *Sim, req *BlockReq, res *BlockRes) {
	if m.dead || res.Stopped {
		return
	}
	r2 := m.N.RunBlock(req, nil)
	if d := CompareBlocks(res, r2); d != "" {
		site := siteClass(d)
		if r2.Panic != nil {
			site = "panic:" + r2.Panic.Call + ":" + r2.Panic.Site
			d += " / " + firstLine(r2.Panic.Value)
		}
		if r2.Panic == nil {
			// what differs on disk after this block (diagnosis)
			if e2, err := m.N.DiskExport(); err == nil && s.Post != nil {
				if dd := DiffExports(s.Post, e2, 6); len(dd) > 0 {
					d += " | export (never restarted -> restarted): " + fmt.Sprint(dd)
				}
			}
		}
		m.fail(s, "responses-differ-after-restart", site, fmt.Sprintf("restarts so far %d: %s", m.done, d), req.Height)
		return
	}
	m.Res.Count("blocks_compared", 1)
	if k := m.Restarts[req.Height]; k > 0 {
		for i := 0; i < k; i++ {
			if pi := m.N.guard("Restart", func() { m.N.Restart() }); pi != nil {
				m.fail(s, "restart-panic", pi.Site, firstLine(pi.Value), req.Height)
				return
			}
			m.done++
		}
		m.Res.Seen(fmt.Sprintf("restart x%d after block kind %s", k, blockKind(s, req, res)))
		m.compareState(s, req.Height, "after-restart")
	}
}

func blockKind(s *Sim, req *BlockReq, res *BlockRes) string {
	k := ""
	if uint64(req.Height)%s.Opts.StakePeriod == 0 {
		k += "payout,"
	}
	if uint64(req.Height)%s.Opts.StakePeriod == 1 {
		k += "period-start,"
	}
	if len(res.End.ValidatorUpdates) > 0 {
		k += "valupd,"
	}
	if len(req.Byzantine) > 0 {
		k += "byz,"
	}
	if len(req.Txs) > 0 {
		k += "txs"
	}
	if k == "" {
		k = "empty"
	}
	return k
}

func (m *MonRestart) Finish(s *Sim) {
	if !m.dead && m.N != nil && s.Post != nil {
		m.compareState(s, s.H, "end")
	}
	if m.N != nil {
		m.N.Destroy()
	}
	os.RemoveAll(m.Dir)
}

func init() {
	Register(&CheckDef{
		ID: "C09", Level: "exploration",
		Rule:        "one case = one generated history executed by instance A (never stopped) and instance B (goleveldb) which is closed and re-created from disk at a seed-chosen set of block boundaries (single, double, and every-block restarts; around payouts, period starts, price updates, version votes, pruning); compared per height: all responses, validator updates, max gas, app hash; at every restart point and at the end: Info, emission, versions, validators record, reward-price record, events of the last heights, live export and from-disk export; one evaluation = one restart point fully compared; distinct = (number of restarts, kind of the block before the restart)",
		Assumptions: []string{"a clean stop (DB handles closed) at a block boundary; crash points are C10's business", "chains start at initial height > 1 (see DESIGN.md on initial height 1)"},
		Quick:       36, Thorough: 360, MinEval: 150, MinDistinct: 8, MaxWorkers: 12,
		Run: func(ctx *WorkCtx, idx int) {
			r := Rng(ctx.Seed, "C09", idx)
			sc := StdScenario(idx, r, 90)
			sc.Spec.Orders = 3 + r.Intn(8)
			mr := &MonRestart{Res: ctx.Res, Dir: ctx.TempDir("c09"), Restarts: map[int64]int{}}
			// schedule drawn before execution
			first := sc.Spec.InitialHeight
			switch idx % 4 {
			case 0: // restart after every block for a stretch
				from := first + int64(r.Intn(30))
				for h := from; h < from+25; h++ {
					mr.Restarts[h] = 1
				}
			default:
				for h := first; h < first+int64(sc.Blocks); h++ {
					if r.Intn(12) == 0 {
						mr.Restarts[h] = 1 + r.Intn(2)
					}
				}
				// always around a period boundary
				p := int64(sc.Opts.StakePeriod)
				b := (first/p + 2) * p
				mr.Restarts[b] = 1
				mr.Restarts[b+1] = 2
			}
			grace := idx%9 == 4
			if grace {
				// a network update is voted in at H = first+128 (its grace period H..H+120 lies beyond the genesis one), restarts follow,
				// then a validator stays away until it crosses the absence limit inside that grace period (lead: added after seeds
				// C09-m3 / C29-m3: what a restarted node knows about grace periods decides between "switched off" and "jailed")
				sc.Blocks = 180
				mr.Restarts = map[int64]int{first + 131: 1, first + 150: 1}
				if r.Intn(2) == 0 {
					mr.Restarts[first+129] = 2
				}
			}
			s, d := sc.Build("C09", ctx.Seed, idx, r, mr)
			d.MaxTxs = 8
			d.PTimeJump = 0.06 // reach the reward price window
			d.G.SetWeight(TxT(0x21), 2)
			d.G.SetWeight(TxT(0x20), 2)
			if grace {
				graceHistory(ctx, s, d, first, sc.Blocks, first+133, (idx/9)%3 != 2, r)
			} else {
				d.Run(sc.Blocks)
			}
			ctx.Res.Count("blocks", s.H-s.W.InitialHeight+1)
			ctx.Res.Count("restarts", int64(mr.done))
			ctx.Collect(s, idx)
			s.Finish()
			if s.Dead {
				mr.Finish(s)
			}
		},
	})
}

// graceHistory drives a history in which all validators vote a network update in at H = first+128 and one validator stays away
// from height absentAt on (40 blocks), so that it crosses the absence limit inside the update's grace period H..H+120 and
// outside the genesis one. Used by C09 (restarts after H) and C29 (restore after H).
func graceHistory(ctx *WorkCtx, s *Sim, d *Driver, first int64, blocks int, absentAt int64, vote bool, r *rand.Rand) {
	d.MaxTxs = 2
	d.PByz, d.PAbsent, d.PAbsentRun = 0, 0, 0
	H := uint64(first + 128)
	for b := 0; b < blocks && !s.Dead && !s.Stopped; b++ {
		h := s.H + 1
		var aimed []*draft
		if vote && (h == first+100 || h == first+104) {
			for _, pk := range s.ValSetAt(h).Sorted() {
				if k := s.W.ValOwner[pk]; k != nil {
					snd := Senderish{K: k}
					aimed = append(aimed, &draft{t: tx.TypeVoteUpdate, kind: "valid", note: "aimed-update-vote", sender: &snd, price1: true,
						data: tx.VoteUpdateDataV230{Version: "v330", PubKey: pk, Height: H}})
				}
			}
		}
		if h == absentAt {
			if vs := s.ValSetAt(h).Sorted(); len(vs) > 1 {
				d.AbsentRun[vs[r.Intn(len(vs))]] = h + 40
				ctx.Res.Seen(fmt.Sprintf("validator absent beyond the limit more than 120 blocks after genesis (update voted in: %v)", vote))
			}
		}
		req := d.NextReq()
		n := len(aimed) + d.R.Intn(d.MaxTxs+1)
		s.RunBlock(req, nil, func(i int) ([]byte, TxMeta, bool) {
			if i > 0 {
				res := s.CurRes.Deliver[i-1]
				d.G.Learn(&s.Metas[i-1], res.Code, Tags(&res))
			}
			if i >= n {
				return nil, TxMeta{}, false
			}
			if i < len(aimed) {
				bz, mt := d.G.Envelope(aimed[i])
				return bz, mt, true
			}
			bz, mt := d.G.Next()
			return bz, mt, true
		})
	}
	for _, v := range s.N.App.UpdateVersions() {
		if v.Height == H {
			ctx.Res.Count("voted_updates_in_force", 1)
		}
	}
}

package h

import (
	"bytes"
	"fmt"

	abci "github.com/tendermint/tendermint/abci/types"
)

// CompareDeliver compares two DeliverTx responses field by field (everything that feeds the results hash, plus tags).
func CompareDeliver(a, b *abci.ResponseDeliverTx) string {
	if a.Code != b.Code {
		return fmt.Sprintf("code %d vs %d", a.Code, b.Code)
	}
	if !bytes.Equal(a.Data, b.Data) {
		return "data differs"
	}
	if a.GasWanted != b.GasWanted || a.GasUsed != b.GasUsed {
		return fmt.Sprintf("gas %d/%d vs %d/%d", a.GasWanted, a.GasUsed, b.GasWanted, b.GasUsed)
	}
	if a.Log != b.Log {
		return fmt.Sprintf("log %q vs %q", a.Log, b.Log)
	}
	if len(a.Events) != len(b.Events) {
		return "event count differs"
	}
	for i := range a.Events {
		ea, eb := a.Events[i], b.Events[i]
		if ea.Type != eb.Type || len(ea.Attributes) != len(eb.Attributes) {
			return fmt.Sprintf("event %d shape differs (%d vs %d attributes)", i, len(ea.Attributes), len(eb.Attributes))
		}
		for j := range ea.Attributes {
			if !bytes.Equal(ea.Attributes[j].Key, eb.Attributes[j].Key) || !bytes.Equal(ea.Attributes[j].Value, eb.Attributes[j].Value) || ea.Attributes[j].Index != eb.Attributes[j].Index {
				return fmt.Sprintf("tag %s: %q vs %q", ea.Attributes[j].Key, clipS(string(ea.Attributes[j].Value), 120), clipS(string(eb.Attributes[j].Value), 120))
			}
		}
	}
	return ""
}

func clipS(s string, n int) string {
	if len(s) > n {
		return s[:n] + "..."
	}
	return s
}

// CompareBlocks compares everything two instances answered for the same block request.
func CompareBlocks(a, b *BlockRes) string {
	if (a.Panic != nil) != (b.Panic != nil) {
		return "one instance panicked"
	}
	if a.Stopped != b.Stopped {
		return "one instance halted"
	}
	if len(a.Deliver) != len(b.Deliver) {
		return fmt.Sprintf("number of DeliverTx responses %d vs %d", len(a.Deliver), len(b.Deliver))
	}
	for i := range a.Deliver {
		if d := CompareDeliver(&a.Deliver[i], &b.Deliver[i]); d != "" {
			return fmt.Sprintf("DeliverTx[%d]: %s", i, d)
		}
	}
	if len(a.End.ValidatorUpdates) != len(b.End.ValidatorUpdates) {
		return "validator update count differs"
	}
	for i := range a.End.ValidatorUpdates {
		ua, ub := a.End.ValidatorUpdates[i], b.End.ValidatorUpdates[i]
		if ua.Power != ub.Power || !bytes.Equal(ua.PubKey.GetEd25519(), ub.PubKey.GetEd25519()) {
			return fmt.Sprintf("validator update %d differs", i)
		}
	}
	if a.End.ConsensusParamUpdates != nil && b.End.ConsensusParamUpdates != nil && a.End.ConsensusParamUpdates.Block.MaxGas != b.End.ConsensusParamUpdates.Block.MaxGas {
		return fmt.Sprintf("max gas %d vs %d", a.End.ConsensusParamUpdates.Block.MaxGas, b.End.ConsensusParamUpdates.Block.MaxGas)
	}
	if !bytes.Equal(a.Commit.Data, b.Commit.Data) {
		return fmt.Sprintf("app hash %x vs %x", a.Commit.Data, b.Commit.Data)
	}
	return ""
}

// MonShadow re-executes every block on a second, undisturbed instance and compares all responses and the app hash.
type MonShadow struct {
	BaseMon
	Prop, Rule string
	Res        *WorkerResult
	N          *Node
	dead       bool
}

func (m *MonShadow) Name() string { return m.Prop + "-shadow" }

func (m *MonShadow) Init(s *Sim) {
	opts := s.Opts
	opts.AppDir = "" // a second instance never shares the first one's app DB directory
	opts.Dir = ""
	opts.Wrap = nil
	m.N = NewNode(opts)
	if _, pi := m.N.InitChain(s.Gen, s.W.InitialHeight, s.T0); pi != nil {
		m.dead = true
	}
}

func (m *MonShadow) AfterBlock(s *Sim, req *BlockReq, res *BlockRes) {
	if m.dead {
		return
	}
	r2 := m.N.RunBlock(req, nil)
	if d := CompareBlocks(res, r2); d != "" {
		m.dead = true
		// where do the two states differ?
		extra := ""
		if s.Post != nil && r2.Panic == nil {
			var e2 typesAppState
			if pi := m.N.guard("Export", func() { e2 = m.N.App.CurrentState().Export() }); pi == nil {
				if dd := DiffExports(&e2, s.Post, 4); len(dd) > 0 {
					extra = fmt.Sprintf(" | export (undisturbed -> observed): %v", dd)
				} else {
					extra = " | exports are equal"
				}
			}
		}
		s.Report(Violation{Property: m.Prop, Rule: m.Rule, Site: siteClass(d), Height: req.Height, TxIndex: -1, Detail: d + extra})
	}
	m.Res.Count("shadow_blocks_compared", 1)
}

func (m *MonShadow) Finish(s *Sim) {
	if m.N != nil {
		m.N.Destroy()
	}
}

// siteClass reduces a difference description to a stable class.
func siteClass(d string) string {
	for _, k := range []string{"app hash", "DeliverTx", "validator update", "max gas", "panicked", "halted", "number of"} {
		if len(d) >= len(k) && containsStr(d, k) {
			return k
		}
	}
	return "other"
}

func containsStr(s, sub string) bool { return len(sub) == 0 || (len(s) >= len(sub) && indexStr(s, sub) >= 0) }

func indexStr(s, sub string) int {
	for i := 0; i+len(sub) <= len(s); i++ {
		if s[i:i+len(sub)] == sub {
			return i
		}
	}
	return -1
}

// MonCheckTx implements C06: CheckTx immediately before DeliverTx on the same state must agree on acceptance.
type MonCheckTx struct {
	BaseMon
	Res  *WorkerResult
	code uint32
	ok   bool
}

func (m *MonCheckTx) Name() string { return "C06" }

const (
	codeTxFromSenderAlreadyInMempool = 113
	codeTooLowGasPrice               = 114
)

func (m *MonCheckTx) BeforeTx(s *Sim, i int, tx []byte, meta *TxMeta) {
	res, pi := s.N.Check(tx)
	m.ok = pi == nil
	if pi != nil {
		s.Report(Violation{Property: "C07", Rule: "panic", Site: "CheckTx:" + pi.Site, Detail: firstLine(pi.Value), Height: s.CurReq.Height, TxIndex: i})
		return
	}
	m.code = res.Code
}

func (m *MonCheckTx) AfterTx(s *Sim, i int, tx []byte, meta *TxMeta, res *abci.ResponseDeliverTx) {
	if !m.ok || m.code == codeTooLowGasPrice {
		return
	}
	m.Res.Evaluations++
	accC := m.code == 0 || m.code == codeTxFromSenderAlreadyInMempool
	accD := res.Code == 0
	tags := Tags(res)
	route := "nofee"
	if v, ok := tags["tx.commission_conversion"]; ok {
		route = v
	}
	m.Res.Seen(fmt.Sprintf("type %02x check %d deliver %d route %s", meta.Type, m.code, res.Code, route))
	if accC != accD {
		rule := "checktx-accepts-delivertx-rejects"
		if accD {
			rule = "checktx-rejects-delivertx-accepts"
		}
		s.Report(Violation{Property: "C06", Rule: rule, Site: fmt.Sprintf("type %02x check=%d deliver=%d", meta.Type, m.code, res.Code), Height: s.CurReq.Height, TxIndex: i,
			Detail: fmt.Sprintf("CheckTx code %d, DeliverTx code %d (%s); kind %s gas coin %d", m.code, res.Code, res.Log, meta.Kind, meta.GasCoin)})
	}
}

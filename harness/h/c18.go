package h

// C18 "Misbehaviour is punished exactly and only once".
//
// MonPunish keeps reference 24-slot absence windows from the vote sets the driver sent and a reference of who has to be
// punished by which evidence; the node is observed through accessors right after BeginBlock (candidate status, jail,
// stakes, total-slashed pool, coin volume/reserve), the exports before/after the block (frozen funds, validator list),
// the events of the block (JailEvent, SlashEvent, UnbondEvent, StakeMoveEvent), EndBlock's validator updates and the
// response codes of SetCandidateOnline transactions.  5% rounded up = value - floor(95*value/100), computed here.

import (
	"fmt"
	"math/big"
	"sort"

	eventsdb "github.com/MinterTeam/minter-go-node/coreV2/events"
	tx "github.com/MinterTeam/minter-go-node/coreV2/transaction"
	"github.com/MinterTeam/minter-go-node/coreV2/types"
	"github.com/MinterTeam/minter-go-node/rlp"
	abci "github.com/tendermint/tendermint/abci/types"
)

const c18Window = 24
const c18MaxAbsent = 12

type c18Slash struct {
	Addr types.Address
	Coin uint64
	Amt  string
}

// MonPunish is the C18 monitor.
type MonPunish struct {
	BaseMon
	Res  *WorkerResult
	J, U uint64

	win      map[types.Pubkey]*[c18Window]bool
	grace    [][2]uint64
	jail     map[uint64]uint64 // candidate id -> reference "jailed until"
	graceOff map[uint64]uint64 // candidate id -> height it was switched off inside a grace period (not jailed)

	// per block
	pre        *types.AppState
	inList     map[types.Pubkey]bool
	expOff     map[uint64]bool
	expJail    map[uint64]bool
	punished   map[uint64]bool
	evClass    map[uint64]string // candidate id -> class of the (ineffective) evidence naming it
	dup        bool
	slashedPre *big.Int
	coinPre    map[uint64][2]*big.Int
	expSlash   map[uint64]*big.Int
	expEvents  []c18Slash
	expFunds   []c16FundV
}

func (m *MonPunish) Name() string { return "C18" }

func (m *MonPunish) viol(s *Sim, rule, site, detail string, h int64, txi int) {
	if m.dup && (rule == "byzantine-fund-not-slashed-5-percent" || rule == "byzantine-remainder-not-unbonded" || rule == "slash-event-unexpected" || rule == "slash-event-missing" || rule == "total-slashed-mismatch") {
		site = rule
		rule = "second-evidence-punished-again"
	}
	s.Report(Violation{Property: "C18", Rule: rule, Site: site, Detail: detail, Height: h, TxIndex: txi})
}

func (m *MonPunish) Init(s *Sim) {
	m.J, m.U = types.GetJailPeriod(), types.GetUnbondPeriod()
	m.win = map[types.Pubkey]*[c18Window]bool{}
	m.jail = map[uint64]uint64{}
	m.graceOff = map[uint64]uint64{}
	h0 := uint64(s.W.InitialHeight - 1)
	m.grace = append(m.grace, [2]uint64{h0, h0 + 120})
	if s.Gen != nil {
		for _, v := range s.Gen.Versions {
			m.grace = append(m.grace, [2]uint64{v.Height, v.Height + 120})
		}
	}
	if s.Post != nil {
		for _, v := range s.Post.Validators {
			w := &[c18Window]bool{}
			if v.AbsentTimes != nil {
				for i := 0; i < c18Window; i++ {
					w[i] = v.AbsentTimes.GetIndex(i)
				}
			}
			m.win[v.PubKey] = w
		}
		for _, c := range s.Post.Candidates {
			if c.JailedUntil > 0 {
				m.jail[c.ID] = c.JailedUntil
			}
		}
	}
}

func (m *MonPunish) isGrace(h uint64) bool {
	for _, g := range m.grace {
		if h >= g[0] && h <= g[1] {
			return true
		}
	}
	return false
}

func cntBucket(n int) string {
	switch {
	case n <= 6:
		return "1..6"
	case n <= 10:
		return "7..10"
	default:
		return fmt.Sprint(n)
	}
}

func (m *MonPunish) BeforeBlock(s *Sim, req *BlockReq) {
	pre := s.Post
	m.pre = pre
	m.expOff, m.expJail, m.punished, m.evClass = map[uint64]bool{}, map[uint64]bool{}, map[uint64]bool{}, map[uint64]string{}
	m.dup = false
	m.expSlash = map[uint64]*big.Int{}
	m.expEvents, m.expFunds = nil, nil
	m.coinPre = map[uint64][2]*big.Int{}
	if pre == nil {
		return
	}
	h := uint64(req.Height)
	inGrace := m.isGrace(h)
	gs := "outside-grace"
	if inGrace {
		gs = "grace"
	}
	// the state's validator list as the accessor shows it right now (after InitChain it is ahead of the committed export:
	// InitChain elects validators without committing)
	listed := map[types.TmAddress]types.Pubkey{}
	inList := map[types.Pubkey]bool{}
	for _, v := range s.N.App.CurrentState().Validators().GetValidators() {
		listed[TmAddrOf(v.PubKey)] = v.PubKey
		inList[v.PubKey] = true
	}
	m.inList = inList
	candByAddr := map[types.TmAddress]*types.Candidate{}
	candByPub := map[types.Pubkey]*types.Candidate{}
	for i := range pre.Candidates {
		c := &pre.Candidates[i]
		candByAddr[TmAddrOf(c.PubKey)] = c
		candByPub[c.PubKey] = c
	}
	offNow := map[types.Pubkey]bool{}
	for _, v := range req.Votes {
		pub, ok := listed[v.Addr]
		if !ok {
			m.Res.Count("votes_for_unlisted_validators", 1)
			continue
		}
		w := m.win[pub]
		if w == nil {
			w = &[c18Window]bool{}
			m.win[pub] = w
		}
		w[h%c18Window] = !v.Signed
		if v.Signed {
			continue
		}
		n := 0
		for _, b := range w {
			if b {
				n++
			}
		}
		m.Res.Evaluations++
		if n > c18MaxAbsent {
			c := candByPub[pub]
			if c == nil {
				m.Res.Inconcl = append(m.Res.Inconcl, fmt.Sprintf("h=%d listed validator %s has no candidate in the export", h, pub.String()))
				continue
			}
			m.expOff[c.ID] = true
			if !inGrace {
				m.expJail[c.ID] = true
				m.jail[c.ID] = h + m.J
				delete(m.graceOff, c.ID)
			} else {
				m.graceOff[c.ID] = h
			}
			*w = [c18Window]bool{}
			offNow[pub] = true
			m.Res.Seen(fmt.Sprintf("absent/%s/count-%d=>switched-off", gs, n))
			m.Res.Sample(map[string]interface{}{"what": "absent validator over the limit", "height": h, "candidate": c.ID, "absences_in_window": n, "grace": inGrace, "expect_jailed_until": m.jail[c.ID]}, 3)
		} else {
			m.Res.Seen(fmt.Sprintf("absent/%s/count-%s=>stays", gs, cntBucket(n)))
		}
	}
	for _, a := range req.Byzantine {
		c := candByAddr[a]
		m.Res.Evaluations++
		switch {
		case c == nil:
			m.Res.Seen("evidence/unknown-address=>nothing")
		case m.punished[c.ID]:
			m.dup = true
			m.Res.Seen("evidence/second-against-same-validator-in-block=>nothing")
		case offNow[c.PubKey]:
			m.evClass[c.ID] = "switched-off-by-absence-in-same-block"
			m.Res.Seen("evidence/validator-switched-off-by-absence-in-same-block=>nothing")
		case c.Status != 2:
			m.evClass[c.ID] = "offline-candidate"
			m.Res.Seen("evidence/offline-candidate=>nothing")
		case !inList[c.PubKey]:
			m.evClass[c.ID] = "online-candidate-not-validator"
			m.Res.Seen("evidence/online-candidate-not-validator=>nothing")
		default:
			m.punished[c.ID] = true
			nst, nff, custom := 0, 0, false
			addSlash := func(coin uint64, sl *big.Int) {
				if m.expSlash[coin] == nil {
					m.expSlash[coin] = new(big.Int)
				}
				m.expSlash[coin].Add(m.expSlash[coin], sl)
				if coin != 0 {
					custom = true
				}
			}
			for _, st := range c.Stakes {
				v := BI(st.Value)
				if v.Sign() <= 0 {
					continue
				}
				rest := floor95(v)
				sl := new(big.Int).Sub(v, rest)
				addSlash(st.Coin, sl)
				m.expEvents = append(m.expEvents, c18Slash{st.Owner, st.Coin, sl.String()})
				m.expFunds = append(m.expFunds, c16FundV{c16Fund{h + m.U, st.Owner, st.Coin, c.ID, 0, true}, rest})
				nst++
			}
			for _, f := range pre.FrozenFunds {
				if f.CandidateID != c.ID || f.Height < h || f.Height > h+m.U {
					continue
				}
				v := BI(f.Value)
				sl := new(big.Int).Sub(v, floor95(v))
				addSlash(f.Coin, sl)
				m.expEvents = append(m.expEvents, c18Slash{f.Address, f.Coin, sl.String()})
				nff++
			}
			cls := fmt.Sprintf("evidence/online-validator=>punished/stakes-%s/funds-from-it-%s", cntBucket0(nst), cntBucket0(nff))
			if custom {
				cls += "/custom-coin"
			}
			m.Res.Seen(cls)
			m.Res.Sample(map[string]interface{}{"what": cls, "height": h, "candidate": c.ID, "expected_slash_events": len(m.expEvents), "expected_remainder_funds": fundList(m.expFunds)}, 6)
		}
	}
	cs := s.N.App.CurrentState()
	m.slashedPre = new(big.Int).Set(cs.App().GetTotalSlashed())
	for coin := range m.expSlash {
		if coin == 0 {
			continue
		}
		if cm := cs.Coins().GetCoin(types.CoinID(coin)); cm != nil {
			m.coinPre[coin] = [2]*big.Int{new(big.Int).Set(cm.Volume()), new(big.Int).Set(cm.Reserve())}
		}
	}
}

func cntBucket0(n int) string {
	switch {
	case n == 0:
		return "0"
	case n <= 6:
		return "1..6"
	default:
		return ">6"
	}
}

func (m *MonPunish) AfterBegin(s *Sim, req *BlockReq) {
	pre := m.pre
	if pre == nil {
		return
	}
	h := uint64(req.Height)
	cs := s.N.App.CurrentState()
	gs := "outside-grace"
	if m.isGrace(h) {
		gs = "grace"
	}
	for i := range pre.Candidates {
		c := &pre.Candidates[i]
		live := cs.Candidates().GetCandidate(c.PubKey)
		if live == nil {
			m.viol(s, "candidate-vanished-in-BeginBlock", "candidate", c.PubKey.String(), req.Height, -1)
			continue
		}
		wantStatus, wantJail := c.Status, c.JailedUntil
		if m.expOff[c.ID] {
			wantStatus = 1
		}
		if m.expJail[c.ID] {
			wantJail = h + m.J
		}
		if uint64(live.Status) != wantStatus {
			if m.expOff[c.ID] {
				m.viol(s, "absent-validator-not-switched-off", gs, fmt.Sprintf("candidate %d missed more than 12 of 24 at %d but has status %d", c.ID, h, live.Status), req.Height, -1)
			} else {
				m.viol(s, "switched-off-without-cause", gs, fmt.Sprintf("candidate %d status %d -> %d in BeginBlock(%d); reference window does not exceed 12 absences", c.ID, c.Status, live.Status, h), req.Height, -1)
			}
		}
		if live.JailedUntil != wantJail {
			switch {
			case m.expJail[c.ID]:
				m.viol(s, "absent-validator-not-jailed-for-jail-period", gs, fmt.Sprintf("candidate %d switched off at %d: jailed until %d, expected %d", c.ID, h, live.JailedUntil, wantJail), req.Height, -1)
			case m.expOff[c.ID]:
				m.viol(s, "jailed-in-grace-period", "BeginBlock", fmt.Sprintf("candidate %d switched off at grace block %d was jailed until %d", c.ID, h, live.JailedUntil), req.Height, -1)
			default:
				m.viol(s, "jailed-without-cause", gs, fmt.Sprintf("candidate %d jailed-until %d -> %d in BeginBlock(%d)", c.ID, c.JailedUntil, live.JailedUntil, h), req.Height, -1)
			}
		}
		// stakes
		type ok struct {
			o types.Address
			c uint64
		}
		want := map[ok]*big.Int{}
		for _, st := range c.Stakes {
			v := BI(st.Value)
			if m.punished[c.ID] {
				v = new(big.Int)
			}
			k := ok{st.Owner, st.Coin}
			if want[k] == nil {
				want[k] = new(big.Int)
			}
			want[k].Add(want[k], v)
		}
		got := map[ok]*big.Int{}
		for _, st := range cs.Candidates().GetStakes(c.PubKey) {
			k := ok{st.Owner, uint64(st.Coin)}
			if got[k] == nil {
				got[k] = new(big.Int)
			}
			got[k].Add(got[k], st.Value)
		}
		bad := ""
		for k, v := range want {
			g := got[k]
			if g == nil {
				g = new(big.Int)
			}
			if g.Cmp(v) != 0 {
				bad = fmt.Sprintf("stake of %s coin %d is %s, expected %s", k.o.String(), k.c, g, v)
			}
		}
		for k, g := range got {
			if want[k] == nil && g.Sign() != 0 {
				bad = fmt.Sprintf("stake of %s coin %d is %s, expected none", k.o.String(), k.c, g)
			}
		}
		if bad != "" {
			if m.punished[c.ID] {
				m.viol(s, "byzantine-stake-not-unbonded", "BeginBlock", fmt.Sprintf("candidate %d at %d: %s", c.ID, h, bad), req.Height, -1)
			} else {
				site := m.evClass[c.ID]
				if site == "" {
					site = "no-evidence"
				}
				m.viol(s, "stake-changed-without-punishable-evidence", site, fmt.Sprintf("candidate %d at %d: %s", c.ID, h, bad), req.Height, -1)
			}
		}
	}
	// slashed value goes to the total-slashed pool (custom coins: what the coin's reserve gives up)
	got := new(big.Int).Sub(cs.App().GetTotalSlashed(), m.slashedPre)
	want := new(big.Int)
	if v := m.expSlash[0]; v != nil {
		want.Add(want, v)
	}
	for coin, sl := range m.expSlash {
		if coin == 0 {
			continue
		}
		p, ok := m.coinPre[coin]
		cm := cs.Coins().GetCoin(types.CoinID(coin))
		if !ok || cm == nil {
			continue
		}
		dv := new(big.Int).Sub(p[0], cm.Volume())
		dr := new(big.Int).Sub(p[1], cm.Reserve())
		want.Add(want, dr)
		if dv.Cmp(sl) != 0 {
			m.viol(s, "total-slashed-mismatch", "custom-coin-volume", fmt.Sprintf("coin %d volume fell by %s in BeginBlock(%d), slashed amounts sum to %s", coin, dv, h, sl), req.Height, -1)
		}
		if dr.Sign() < 0 {
			m.viol(s, "total-slashed-mismatch", "custom-coin-reserve", fmt.Sprintf("coin %d reserve grew by %s", coin, new(big.Int).Neg(dr)), req.Height, -1)
		}
	}
	if got.Cmp(want) != 0 {
		site := "punishment"
		if len(m.punished) == 0 {
			site = "nobody-punished"
		}
		m.viol(s, "total-slashed-mismatch", site, fmt.Sprintf("total slashed grew by %s in BeginBlock(%d), slashed value is %s", got, h, want), req.Height, -1)
	}
}

func (m *MonPunish) AfterTx(s *Sim, i int, raw []byte, meta *TxMeta, res *abci.ResponseDeliverTx) {
	t := c16DecodeTx(raw)
	if t == nil || t.Type != tx.TypeSetCandidateOnline {
		return
	}
	var d tx.SetCandidateOnData
	if rlp.DecodeBytes(t.Data, &d) != nil {
		return
	}
	h := uint64(s.CurReq.Height)
	c := s.N.App.CurrentState().Candidates().GetCandidate(d.PubKey)
	if c == nil {
		return
	}
	id := uint64(c.ID)
	if until, ok := m.jail[id]; ok {
		m.Res.Evaluations++
		switch {
		case h < until:
			m.Res.Seen(fmt.Sprintf("set-online/jailed/before-end/code-%d", res.Code))
			if res.Code == 0 {
				m.viol(s, "jailed-candidate-switched-on", "before-jail-end", fmt.Sprintf("candidate %d jailed until %d was switched on at %d", id, until, h), int64(h), i)
			}
		case h == until:
			m.Res.Seen(fmt.Sprintf("set-online/jailed/at-end/code-%d", res.Code))
		default:
			m.Res.Seen(fmt.Sprintf("set-online/jailed/after-end/code-%d", res.Code))
			if res.Code == 414 {
				m.viol(s, "still-jailed-after-jail-period", "set-online", fmt.Sprintf("candidate %d jailed until %d is still refused as jailed at %d", id, until, h), int64(h), i)
			}
		}
		if res.Code == 0 {
			delete(m.jail, id)
		}
		return
	}
	if at, ok := m.graceOff[id]; ok {
		m.Res.Evaluations++
		m.Res.Seen(fmt.Sprintf("set-online/switched-off-in-grace/code-%d", res.Code))
		if res.Code == 414 {
			m.viol(s, "jailed-in-grace-period", "set-online", fmt.Sprintf("candidate %d switched off at grace block %d is refused as jailed at %d", id, at, h), int64(h), i)
		}
		if res.Code == 0 {
			delete(m.graceOff, id)
		}
	}
}

func (m *MonPunish) AfterBlock(s *Sim, req *BlockReq, res *BlockRes) {
	if res.Stopped || s.Pre == nil || s.Post == nil || m.pre == nil {
		return
	}
	h := uint64(req.Height)
	pre, post := s.Pre, s.Post
	var evs eventsdb.Events
	func() {
		defer func() {
			if r := recover(); r != nil {
				m.Res.Inconcl = append(m.Res.Inconcl, fmt.Sprintf("h=%d events unreadable: %v", h, r))
			}
		}()
		evs = s.N.App.GetEventsDB().LoadEvents(uint32(h))
	}()
	preCand := map[uint64]*types.Candidate{}
	for i := range pre.Candidates {
		preCand[pre.Candidates[i].ID] = &pre.Candidates[i]
	}
	postCand := map[uint64]*types.Candidate{}
	for i := range post.Candidates {
		postCand[post.Candidates[i].ID] = &post.Candidates[i]
	}
	// events
	gotSlash := map[c18Slash]int{}
	type jk struct {
		pub   types.Pubkey
		until uint64
	}
	gotJail := map[jk]int{}
	released := map[c18Slash]int{}
	for _, e := range evs {
		switch v := e.(type) {
		case *eventsdb.SlashEvent:
			if v.Amount != "0" {
				gotSlash[c18Slash{v.Address, v.Coin, v.Amount}]++
			}
		case *eventsdb.JailEvent:
			gotJail[jk{v.ValidatorPubKey, v.JailedUntil}]++
		case *eventsdb.UnbondEvent:
			released[c18Slash{v.Address, v.Coin, v.Amount}]++
		case *eventsdb.StakeMoveEvent:
			released[c18Slash{v.Address, v.Coin, v.Amount}]++
		case *eventsdb.UpdateNetworkEvent:
			m.grace = append(m.grace, [2]uint64{h, h + 120})
		}
	}
	for _, e := range m.expEvents {
		if e.Amt == "0" {
			continue
		}
		if gotSlash[e] > 0 {
			gotSlash[e]--
		} else {
			m.viol(s, "slash-event-missing", "SlashEvent", fmt.Sprintf("no SlashEvent(%s coin %d amount %s) at %d", e.Addr.String(), e.Coin, e.Amt, h), req.Height, -1)
		}
	}
	var extra []string
	for e, n := range gotSlash {
		if n > 0 {
			extra = append(extra, fmt.Sprintf("%dx(%s coin %d amount %s)", n, e.Addr.String(), e.Coin, e.Amt))
		}
	}
	if len(extra) > 0 {
		sort.Strings(extra)
		site := "SlashEvent"
		if len(m.punished) == 0 {
			site = "nobody-punished"
		}
		m.viol(s, "slash-event-unexpected", site, fmt.Sprintf("at %d: %v", h, extra), req.Height, -1)
	}
	for id := range m.expJail {
		k := jk{preCand[id].PubKey, h + m.J}
		if gotJail[k] > 0 {
			gotJail[k]--
		} else {
			m.viol(s, "jail-event-mismatch", "missing", fmt.Sprintf("no JailEvent(%s until %d) at %d", k.pub.String(), k.until, h), req.Height, -1)
		}
	}
	for k, n := range gotJail {
		if n > 0 {
			m.viol(s, "jail-event-mismatch", "unexpected", fmt.Sprintf("JailEvent(%s until %d) at %d without more than 12 absences outside grace", k.pub.String(), k.until, h), req.Height, -1)
		}
	}
	// frozen funds
	remaining := exportFunds(post)
	take := func(f c16Fund, v *big.Int) bool {
		for i := range remaining {
			if remaining[i].F == f && remaining[i].V.Cmp(v) == 0 {
				remaining = append(remaining[:i], remaining[i+1:]...)
				return true
			}
		}
		return false
	}
	for _, f := range exportFunds(pre) {
		hit := f.F.Cand != 0 && m.punished[f.F.Cand] && f.F.Height >= h && f.F.Height <= h+m.U
		v := f.V
		if hit {
			v = floor95(f.V)
		}
		if f.F.Height <= h {
			if hit && f.F.MoveTo != 0 && preCand[f.F.MoveTo] == nil {
				// a move whose target vanished is frozen again for an unbond period (with the slashed value)
				if !take(c16Fund{h + m.U, f.F.Addr, f.F.Coin, f.F.Cand, 0, f.F.HasKey}, v) {
					m.viol(s, "byzantine-fund-not-slashed-5-percent", "refrozen-move", fmt.Sprintf("%s from punished candidate matured at %d without target: not frozen again with %s", fundStr(f), h, v), req.Height, -1)
				}
				continue
			}
			if hit {
				k := c18Slash{f.F.Addr, f.F.Coin, v.String()}
				if released[k] > 0 {
					released[k]--
					m.Res.Seen("byzantine/fund-due-in-punishment-block-released-slashed")
				} else {
					m.viol(s, "byzantine-fund-not-slashed-5-percent", "released-in-punishment-block", fmt.Sprintf("%s from punished candidate was due at %d: no release event over %s", fundStr(f), h, v), req.Height, -1)
				}
			}
			continue
		}
		if take(f.F, v) {
			if hit {
				m.Res.Count("funds_slashed_checked", 1)
			} else {
				m.Res.Count("funds_untouched_checked", 1)
			}
			continue
		}
		if hit {
			m.viol(s, "byzantine-fund-not-slashed-5-percent", f.F.kind(), fmt.Sprintf("%s from candidate %d punished at %d is not frozen with %s afterwards", fundStr(f), f.F.Cand, h, v), req.Height, -1)
		} else {
			site := "nobody-punished"
			if len(m.punished) > 0 {
				site = "other-candidate"
			}
			m.viol(s, "fund-changed-without-punishment", site, fmt.Sprintf("%s is not frozen unchanged after block %d (punished candidates %v)", fundStr(f), h, ids(m.punished)), req.Height, -1)
		}
	}
	for _, f := range m.expFunds {
		if !take(f.F, f.V) {
			m.viol(s, "byzantine-remainder-not-unbonded", "h+unbond-period", fmt.Sprintf("expected %s after punishment at %d", fundStr(f), h), req.Height, -1)
		}
	}
	// dropped from the validator set
	postList := map[types.Pubkey]bool{}
	for _, v := range post.Validators {
		postList[v.PubKey] = true
	}
	next := s.ValSetAt(int64(h) + 2)
	minStake := Bip(1000)
	check := func(id uint64, why string) {
		pc := postCand[id]
		if pc != nil && pc.Status == 2 && BI(pc.TotalBipStake).Cmp(minStake) >= 0 {
			m.Res.Seen("dropped/" + why + "/qualified-again-in-same-block")
			return
		}
		pubs := []types.Pubkey{preCand[id].PubKey}
		if pc != nil && pc.PubKey != pubs[0] {
			pubs = append(pubs, pc.PubKey)
		}
		for _, pk := range pubs {
			if postList[pk] {
				m.viol(s, "punished-validator-not-dropped", why+"/state-list", fmt.Sprintf("candidate %d punished at %d is still in the validator list", id, h), req.Height, -1)
			}
			if _, in := next[pk]; in {
				m.viol(s, "punished-validator-not-dropped", why+"/validator-updates", fmt.Sprintf("candidate %d punished at %d stays in the validator set of height %d", id, h, h+2), req.Height, -1)
			}
		}
		m.Res.Seen("dropped/" + why)
	}
	for id := range m.expOff {
		check(id, "absence")
	}
	for id := range m.punished {
		check(id, "byzantine")
	}
	// a jailed candidate is never online
	for id, until := range m.jail {
		if pc := postCand[id]; pc != nil && pc.Status == 2 && h < until {
			m.viol(s, "jailed-candidate-switched-on", "state", fmt.Sprintf("candidate %d jailed until %d is online after block %d", id, until, h), req.Height, -1)
		}
	}
	// reference windows follow the validator list
	inPre := m.inList
	nw := map[types.Pubkey]*[c18Window]bool{}
	for _, v := range post.Validators {
		if w := m.win[v.PubKey]; w != nil && inPre[v.PubKey] {
			nw[v.PubKey] = w
		} else {
			nw[v.PubKey] = &[c18Window]bool{}
		}
		if v.AbsentTimes != nil {
			for i := 0; i < c18Window; i++ {
				if v.AbsentTimes.GetIndex(i) != nw[v.PubKey][i] {
					m.Res.Count("window_differs_from_export", 1)
					if len(m.Res.Inconcl) < 5 {
						m.Res.Inconcl = append(m.Res.Inconcl, fmt.Sprintf("h=%d reference window of %s differs from the exported one at slot %d", h, v.PubKey.String(), i))
					}
					break
				}
			}
		}
	}
	m.win = nw
	m.Res.Count("blocks_judged", 1)
}

func ids(m map[uint64]bool) []uint64 {
	var l []uint64
	for k := range m {
		l = append(l, k)
	}
	sort.Slice(l, func(i, j int) bool { return l[i] < l[j] })
	return l
}

// ---- workload -------------------------------------------------------------------------------------------

func c18Mons(res *WorkerResult) []Monitor { return []Monitor{&MonPunish{Res: res}} }

func init() {
	MonitorsFor["C18"] = c18Mons
	Register(&CheckDef{
		ID: "C18", Level: "exploration",
		Rule: "generated histories (4..8 genesis validators, all genesis families, light staking-heavy transaction traffic so that stakes, custom-coin stakes and unbonding/moving funds of validators exist) with planned vote schedules per validator - 13 / 12 / 11 consecutive absences, alternating 12 of 24 followed by a 13th in slot 23 or 24, random halves - placed across the border of the 120-block grace period and later, planned byzantine evidence (against listed online validators, twice in one block, against offline candidates, online non-validators, unknown addresses, validators switched off by absence in the same block) and SetCandidateOnline attempts by the control key before / at / after the reference jail end; the reference windows are fed from the votes sent, the punishment reference from the export before the block; one evaluation = one absent vote judged, one piece of evidence judged, or one switch-on attempt of a (formerly) jailed candidate judged; distinct = absence count x grace x outcome, evidence class x what the punished validator had (stakes, funds, custom coins), switch-on timing x response code, drop class",
		Assumptions: []string{
			"the grace periods are the first 120 blocks after the initial height and after each version height of the genesis / each UpdateNetworkEvent observed",
			"only validators of the state's validator list (export before the block) have windows; votes for others are ignored, as the statement is about validators",
			"a second piece of evidence against the same validator in the same block is expected to change nothing (DESIGN: punished exactly once)",
			"value slashed from a custom-coin stake reaches the total-slashed pool as what the coin's reserve gives up (the Bancor amount itself is C12's subject)",
		},
		Quick: 28, Thorough: 280, MinEval: 3000, MinDistinct: 20,
		Run: runC18,
		Post: func(total *WorkerResult) {
			requireClasses(total, "absent/outside-grace/count-13=>switched-off", "absent/outside-grace/count-12=>stays", "absent/grace/count-13=>switched-off", "absent/grace/count-12=>stays",
				"evidence/online-validator=>punished", "evidence/offline-candidate", "evidence/online-candidate-not-validator", "evidence/unknown-address", "evidence/second-against-same-validator-in-block", "evidence/validator-switched-off-by-absence-in-same-block",
				"set-online/jailed/before-end/code-414", "set-online/jailed/after-end/code-0", "dropped/absence", "dropped/byzantine")
		},
	})
}

type c18Plan struct {
	absent map[types.Pubkey]map[int64]bool
	ev     map[int64][]types.TmAddress
	safe   types.Pubkey
	sets   map[int64]ValSet // the driver's own history of Tendermint validator sets: height -> set valid from that height on
}

// setAt returns the validator set valid at height h (updates of EndBlock(x) take effect at x+2).
func (p *c18Plan) setAt(h int64) ValSet {
	best := int64(-1)
	for k := range p.sets {
		if k <= h && k > best {
			best = k
		}
	}
	if best < 0 {
		return ValSet{}
	}
	return p.sets[best]
}

func (p *c18Plan) apply(h int64, ups []abci.ValidatorUpdate) {
	if len(ups) == 0 {
		return
	}
	base := p.setAt(h + 2).clone()
	for _, u := range ups {
		var pk types.Pubkey
		copy(pk[:], u.PubKey.GetEd25519())
		if u.Power == 0 {
			delete(base, pk)
		} else {
			base[pk] = u.Power
		}
	}
	p.sets[h+2] = base
	for k := range p.sets {
		if k < h-10 && k != p.latestBefore(h-10) {
			delete(p.sets, k)
		}
	}
}

func (p *c18Plan) latestBefore(h int64) int64 {
	best := int64(-1)
	for k := range p.sets {
		if k <= h && k > best {
			best = k
		}
	}
	return best
}

// votes builds LastCommitInfo for block h from the set of h-1: every validator signs unless planned absent.
func (p *c18Plan) votes(s *Sim, h int64) []Vote {
	if h <= s.W.InitialHeight {
		return nil
	}
	vs := p.setAt(h - 1)
	var out []Vote
	for _, pk := range vs.Sorted() {
		out = append(out, Vote{Addr: TmAddrOf(pk), Power: vs[pk], Signed: !p.absent[pk][h]})
	}
	return out
}

func (p *c18Plan) add(pub types.Pubkey, hs ...int64) {
	if p.absent[pub] == nil {
		p.absent[pub] = map[int64]bool{}
	}
	for _, h := range hs {
		p.absent[pub][h] = true
	}
}

func (p *c18Plan) busyAfter(pub types.Pubkey, h int64) bool {
	for x := range p.absent[pub] {
		if x >= h {
			return true
		}
	}
	return false
}

// pattern plans one absence pattern of a validator starting at height st; it returns the height of the last planned absence.
func (p *c18Plan) pattern(r interface{ Intn(int) int }, pub types.Pubkey, st int64, kind int) int64 {
	seq := func(from, n, step int64) {
		for i := int64(0); i < n; i++ {
			p.add(pub, from+i*step)
		}
	}
	switch kind {
	case 0: // 13 in a row: over the limit at the 13th
		seq(st, 13, 1)
		return st + 12
	case 1: // 12 in a row, then present
		seq(st, 12, 1)
		return st + 11
	case 2: // 12 in a row, a 13th in the last slot of the same window
		seq(st, 12, 1)
		p.add(pub, st+23)
		return st + 23
	case 3: // 12 in a row, the next absence one window later re-uses the slot of the first: still 12
		seq(st, 12, 1)
		p.add(pub, st+24)
		return st + 24
	case 4: // alternating: 12 of 24, then a 13th
		seq(st, 12, 2)
		p.add(pub, st+23)
		return st + 23
	case 5: // alternating: 12 of 24 and going on alternating (never more than 12)
		seq(st, 20, 2)
		return st + 38
	case 6: // 11 in a row, gap, 2 more inside the window
		seq(st, 11, 1)
		p.add(pub, st+15, st+19)
		return st + 19
	default: // random half
		last := st
		for i := int64(0); i < 40; i++ {
			if r.Intn(2) == 0 {
				p.add(pub, st+i)
				last = st + i
			}
		}
		return last
	}
}

func runC18(ctx *WorkCtx, idx int) {
	r := Rng(ctx.Seed, "C18", idx)
	kind := []string{"absence", "byzantine", "mixed", "jail-end"}[idx%4]
	blocks := map[string]int{"absence": 250, "byzantine": 210, "mixed": 230, "jail-end": 520}[kind] + r.Intn(30)
	sc := StdScenario(idx, r, blocks)
	if sc.Family != "crowded" {
		sc.Spec.Validators = 4 + r.Intn(5)
	} else if blocks > 190 {
		blocks = 160 + r.Intn(30) // 99 candidates make every block expensive
	}
	s, d := sc.Build("C18", ctx.Seed, idx, r, c18Mons(ctx.Res)...)
	g := d.G
	for _, t := range AllTxTypes {
		g.SetWeight(t, 2)
	}
	g.SetWeight(tx.TypeSend, 6)
	g.SetWeight(tx.TypeDelegate, 25)
	g.SetWeight(tx.TypeUnbond, 30)
	g.SetWeight(tx.TypeMoveStake, 25)
	g.SetWeight(tx.TypeSetCandidateOnline, 8)
	g.SetWeight(tx.TypeSetCandidateOffline, 3)
	g.SetWeight(tx.TypeEditCandidatePublicKey, 1)
	for _, t := range []tx.TxType{tx.TypeSetHaltBlock, tx.TypeVoteUpdate, tx.TypeVoteCommission, tx.TypePriceVote, tx.TypeLockStake} {
		g.SetWeight(t, 0)
	}
	g.PInvalid, g.PBound = 0.1, 0.1
	d.MaxTxs = 3
	if kind == "jail-end" {
		d.MaxTxs = 1
	}
	d.PAbsent, d.PAbsentRun, d.PByz = 0, 0, 0
	if kind == "mixed" {
		d.PAbsent, d.PAbsentRun, d.PByz = 0.03, 0.01, 0.01
	}

	h0 := s.W.InitialHeight
	G := h0 - 1 + 120 // last grace block
	plan := &c18Plan{absent: map[types.Pubkey]map[int64]bool{}, ev: map[int64][]types.TmAddress{}, sets: map[int64]ValSet{h0: s.ValSetAt(h0).clone()}}
	nv := len(s.Gen.Validators)
	safe := r.Intn(nv)
	plan.safe = s.Gen.Validators[safe].PubKey
	for i, v := range s.Gen.Validators {
		if i == safe {
			continue
		}
		switch kind {
		case "absence":
			// first pattern placed so that its decisive absence falls around the end of the grace period
			k := r.Intn(8)
			probe := &c18Plan{absent: map[types.Pubkey]map[int64]bool{}}
			span := probe.pattern(r, v.PubKey, 0, k)
			if k == 7 {
				span = 20
			}
			target := G + int64(r.Intn(5)) - 2
			if r.Intn(3) == 0 {
				target = G + 3 + int64(r.Intn(60))
			}
			st := target - span
			if st < h0+1 {
				st = h0 + 1
			}
			last := plan.pattern(r, v.PubKey, st, k)
			for last < h0+int64(blocks)-50 && r.Intn(4) != 0 {
				last = plan.pattern(r, v.PubKey, last+3+int64(r.Intn(40)), r.Intn(8))
			}
		case "jail-end":
			if i == (safe+1)%nv || r.Intn(3) == 0 {
				plan.pattern(r, v.PubKey, G-11+int64(r.Intn(6)), 0) // over the limit just after (or at) the end of the grace period
			}
		case "byzantine":
			first := i == (safe+1)%nv
			if first || r.Intn(3) == 0 {
				st := h0 + 1 + int64(r.Intn(150))
				if first {
					st = h0 + 1 + int64(r.Intn(40))
				}
				last := plan.pattern(r, v.PubKey, st, 0)
				if first || r.Intn(2) == 0 {
					plan.ev[last] = append(plan.ev[last], TmAddrOf(v.PubKey)) // evidence in the block that switches it off
				}
			}
		}
	}
	evLeft := nv - 1
	for i := 0; i < blocks && !s.Dead && !s.Stopped; i++ {
		c18Block(d, plan, kind, &evLeft)
	}
	ctx.Res.Count("blocks", s.H-s.W.InitialHeight+1)
	ctx.Res.Count("kind/"+kind, 1)
	ctx.Res.Count("family/"+sc.Family, 1)
	ctx.Collect(s, idx)
	s.Finish()
}

func c18Block(d *Driver, plan *c18Plan, kind string, evLeft *int) *BlockRes {
	s, R, g := d.S, d.R, d.G
	if R.Intn(35) == 0 {
		s.Restart() // the absence windows and jail marks must survive a process restart (lead: added after seed C18-m1)
	}
	req := d.NextReq()
	h := req.Height
	e := s.Post
	random := map[types.TmAddress]bool{}
	for _, v := range req.Votes {
		if !v.Signed {
			random[v.Addr] = true
		}
	}
	req.Votes = plan.votes(s, h)
	if kind == "mixed" {
		// keep the driver's random absences (except for the safe validator) on top of the plan
		for i := range req.Votes {
			if random[req.Votes[i].Addr] && req.Votes[i].Addr != TmAddrOf(plan.safe) {
				req.Votes[i].Signed = false
			}
		}
		var keep []types.TmAddress
		for _, a := range req.Byzantine {
			if a != TmAddrOf(plan.safe) {
				keep = append(keep, a)
			}
		}
		req.Byzantine = keep
	}
	req.Byzantine = append(req.Byzantine, plan.ev[h]...)
	var drafts []*draft
	if e != nil {
		listed := map[types.Pubkey]bool{}
		for _, v := range e.Validators {
			listed[v.PubKey] = true
		}
		// validators that came back get a new pattern now and then
		if kind == "absence" || kind == "jail-end" {
			for _, v := range e.Validators {
				if v.PubKey != plan.safe && !plan.busyAfter(v.PubKey, h) && R.Intn(30) == 0 {
					plan.pattern(R, v.PubKey, h+2, R.Intn(8))
				}
			}
		}
		// evidence that arrives exactly in the block in which an unbonding fund from that validator matures
		// (lead: added after seed C18-m2; the fund must still be slashed before it is paid out)
		if *evLeft > 1 && (kind == "byzantine" || kind == "mixed") {
			for _, ff := range e.FrozenFunds {
				if int64(ff.Height) == h && ff.CandidateKey != nil && listed[*ff.CandidateKey] && *ff.CandidateKey != plan.safe && R.Intn(2) == 0 {
					*evLeft--
					req.Byzantine = append(req.Byzantine, TmAddrOf(*ff.CandidateKey))
					break
				}
			}
		}
		// planned evidence
		p := 0.0
		switch kind {
		case "byzantine":
			p = 0.05
		case "mixed", "absence":
			p = 0.008
		}
		if R.Float64() < p {
			switch x := R.Intn(10); {
			case x < 6:
				pending := map[types.TmAddress]bool{} // validators with planned evidence ahead are left alone until then
				for hh, as := range plan.ev {
					if hh > h {
						for _, a := range as {
							pending[a] = true
						}
					}
				}
				var l []types.Pubkey
				for _, v := range e.Validators {
					if v.PubKey != plan.safe && !pending[TmAddrOf(v.PubKey)] {
						l = append(l, v.PubKey)
					}
				}
				if len(l) > 0 && *evLeft > 1 {
					*evLeft--
					a := TmAddrOf(l[R.Intn(len(l))])
					req.Byzantine = append(req.Byzantine, a)
					if R.Intn(3) == 0 {
						req.Byzantine = append(req.Byzantine, a)
					}
				}
			case x < 8:
				var off, onNoVal []types.Pubkey
				for _, c := range e.Candidates {
					if c.Status == 1 {
						off = append(off, c.PubKey)
					} else if !listed[c.PubKey] {
						onNoVal = append(onNoVal, c.PubKey)
					}
				}
				if x == 6 && len(off) > 0 {
					req.Byzantine = append(req.Byzantine, TmAddrOf(off[R.Intn(len(off))]))
				} else if len(onNoVal) > 0 {
					req.Byzantine = append(req.Byzantine, TmAddrOf(onNoVal[R.Intn(len(onNoVal))]))
				}
			default:
				var a types.TmAddress
				R.Read(a[:])
				req.Byzantine = append(req.Byzantine, a)
			}
		}
		// switch-on attempts by the control key
		for _, c := range e.Candidates {
			if c.Status != 1 {
				continue
			}
			try := false
			ju := int64(c.JailedUntil)
			switch {
			case ju > 0 && h >= ju-1 && h <= ju+1:
				try = R.Intn(4) != 0
			case ju >= h:
				try = R.Intn(40) == 0
			default:
				try = R.Intn(25) == 0
			}
			if !try {
				continue
			}
			if snd, ok := g.signerFor(c.ControlAddress); ok {
				zero := types.CoinID(0)
				drafts = append(drafts, &draft{t: tx.TypeSetCandidateOnline, kind: "valid", note: "aimed-set-online", sender: &snd, price1: true, gas: &zero,
					data: tx.SetCandidateOnData{PubKey: c.PubKey}})
			}
		}
	}
	n := len(drafts) + R.Intn(d.MaxTxs+1)
	res := s.RunBlock(req, nil, func(i int) ([]byte, TxMeta, bool) {
		if i > 0 {
			res := s.CurRes.Deliver[i-1]
			pm := s.Metas[i-1]
			g.Learn(&pm, res.Code, Tags(&res))
		}
		if i >= n {
			return nil, TxMeta{}, false
		}
		if i < len(drafts) {
			b, m := g.Envelope(drafts[i])
			return b, m, true
		}
		b, m := g.Next()
		return b, m, true
	})
	if res != nil && res.Panic == nil && !res.Stopped {
		plan.apply(h, res.End.ValidatorUpdates)
	}
	return res
}

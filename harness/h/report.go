package h

import (
	"encoding/json"
	"fmt"
	"os"
	"path/filepath"
	"sort"
	"strings"
)

// WorkerResult is what one worker (child process or in-process batch) reports.
type WorkerResult struct {
	Property    string            `json:"property"`
	Evaluations int64             `json:"evaluations"`
	Distinct    map[string]int64  `json:"distinct"` // distinct non-trivial situations seen (key -> count)
	Samples     []interface{}     `json:"samples"`
	Counters    map[string]int64  `json:"counters"`
	Violations  []ReportedViol    `json:"violations"`
	Inconcl     []string          `json:"inconclusive"`
	Notes       []string          `json:"notes"`
}

// ReportedViol is a violation with its replay artefact.
type ReportedViol struct {
	Violation
	Replay string `json:"replay"`
}

// NewResult makes an empty result.
func NewResult(prop string) *WorkerResult {
	return &WorkerResult{Property: prop, Distinct: map[string]int64{}, Counters: map[string]int64{}}
}

// Seen records a distinct non-trivial situation.
func (w *WorkerResult) Seen(key string) { w.Distinct[key]++ }

// Count adds to a counter.
func (w *WorkerResult) Count(key string, n int64) { w.Counters[key] += n }

// Sample keeps up to max samples.
func (w *WorkerResult) Sample(v interface{}, max int) {
	if len(w.Samples) < max {
		w.Samples = append(w.Samples, v)
	}
}

// Merge adds o into w.
func (w *WorkerResult) Merge(o *WorkerResult) {
	w.Evaluations += o.Evaluations
	for k, v := range o.Distinct {
		w.Distinct[k] += v
	}
	for k, v := range o.Counters {
		w.Counters[k] += v
	}
	for _, s := range o.Samples {
		if len(w.Samples) < 12 {
			w.Samples = append(w.Samples, s)
		}
	}
	w.Violations = append(w.Violations, o.Violations...)
	w.Inconcl = append(w.Inconcl, o.Inconcl...)
	w.Notes = append(w.Notes, o.Notes...)
}

// Save writes the result as JSON.
func (w *WorkerResult) Save(path string) error {
	bz, err := json.Marshal(w)
	if err != nil {
		return err
	}
	tmp := path + ".tmp"
	if err := os.WriteFile(tmp, bz, 0o644); err != nil {
		return err
	}
	return os.Rename(tmp, path)
}

// LoadResult reads a worker result.
func LoadResult(path string) (*WorkerResult, error) {
	bz, err := os.ReadFile(path)
	if err != nil {
		return nil, err
	}
	var w WorkerResult
	if err := json.Unmarshal(bz, &w); err != nil {
		return nil, err
	}
	if w.Distinct == nil {
		w.Distinct = map[string]int64{}
	}
	if w.Counters == nil {
		w.Counters = map[string]int64{}
	}
	return &w, nil
}

// KnownFinding is an entry of known_findings.json.
type KnownFinding struct {
	Status   string `json:"status"` // known | fixed
	Property string `json:"property"`
	Sig      string `json:"signature"` // property/rule/site (site may end in * for prefix match)
	What     string `json:"what"`
	Commit   string `json:"commit,omitempty"`
}

// LoadKnown reads the committed known-findings file.
func LoadKnown(path string) []KnownFinding {
	bz, err := os.ReadFile(path)
	if err != nil {
		return nil
	}
	var f struct {
		Findings []KnownFinding `json:"findings"`
	}
	if err := json.Unmarshal(bz, &f); err != nil {
		fmt.Fprintln(os.Stderr, "known_findings.json unreadable:", err)
		return nil
	}
	return f.Findings
}

func matchSig(pat, sig string) bool {
	if strings.HasSuffix(pat, "*") {
		return strings.HasPrefix(sig, strings.TrimSuffix(pat, "*"))
	}
	return pat == sig
}

// Evidence is the schema of /verif/evidence/<id>.json.
type Evidence struct {
	PropertyID  string                 `json:"property_id"`
	Tier        string                 `json:"tier"`
	Seed        int64                  `json:"seed"`
	Level       string                 `json:"level"`
	Coverage    map[string]interface{} `json:"coverage"`
	Assumptions []string               `json:"assumptions"`
	WallS       float64                `json:"wall_s"`
	Violations  int                    `json:"violations"`
}

// Conclude merges verdicts with the known findings, prints the interface lines, writes evidence and returns the exit code.
// minEval: the run is broken (exit 2) if fewer evaluations / distinct situations than required were observed.
func Conclude(verifDir string, res *WorkerResult, tier string, seed int64, level, rule string, assumptions []string, wall float64, minEval int64, minDistinct int, prop string) int {
	known := LoadKnown(filepath.Join(verifDir, "known_findings.json"))
	// this check only reports violations of its own property (others are the business of their own checks)
	type agg struct {
		v     ReportedViol
		count int
	}
	bySig := map[string]*agg{}
	var order []string
	for _, v := range res.Violations {
		if v.Property != prop && !(len(prop) > 3 && prop[:3] == v.Property) { // a part (C25plain) run on its own reports its property's (C25) verdicts
			res.Counters["foreign_violations/"+v.Property]++
			continue
		}
		s := v.Sig()
		if a, ok := bySig[s]; ok {
			a.count++
			continue
		}
		bySig[s] = &agg{v: v, count: 1}
		order = append(order, s)
	}
	sort.Strings(order)
	newViol := 0
	var knownHit []string
	for _, s := range order {
		a := bySig[s]
		isKnown := false
		for _, k := range known {
			if k.Status == "known" && k.Property == prop && matchSig(k.Sig, s) {
				isKnown = true
				fmt.Printf("KNOWN-FINDING: property=%s %s [%s] seen %d times, e.g. replay=%s\n", prop, k.What, s, a.count, a.v.Replay)
				knownHit = append(knownHit, s)
				break
			}
		}
		if !isKnown {
			newViol++
			fmt.Printf("VIOLATION property=%s replay=%s\n", prop, a.v.Replay)
			fmt.Printf("  signature=%s height=%d tx=%d count=%d detail=%s\n", s, a.v.Height, a.v.TxIndex, a.count, a.v.Detail)
		}
	}
	var dk []string
	for k := range res.Distinct {
		dk = append(dk, k)
	}
	sort.Strings(dk)
	cov := map[string]interface{}{
		"evaluations":         res.Evaluations,
		"distinct_nontrivial": len(res.Distinct),
		"rule":                rule,
		"samples":             res.Samples,
		"counters":            res.Counters,
		"inconclusive":        res.Inconcl,
		"known_findings_seen": knownHit,
		"notes":               res.Notes,
	}
	if len(dk) > 60 {
		cov["distinct_keys_sample"] = dk[:60]
	} else {
		cov["distinct_keys"] = dk
	}
	if len(res.Samples) == 0 {
		cov["samples"] = []interface{}{"(none)"}
	}
	ev := Evidence{PropertyID: prop, Tier: tier, Seed: seed, Level: level, Coverage: cov, Assumptions: assumptions, WallS: wall, Violations: newViol}
	bz, _ := json.MarshalIndent(ev, "", " ")
	_ = os.MkdirAll(filepath.Join(verifDir, "evidence"), 0o755)
	if err := os.WriteFile(filepath.Join(verifDir, "evidence", prop+".json"), bz, 0o644); err != nil {
		fmt.Fprintln(os.Stderr, "cannot write evidence:", err)
		return 2
	}
	fmt.Printf("%s %s: evaluations=%d distinct=%d violations(new)=%d known=%d inconclusive=%d wall=%.1fs\n", prop, tier, res.Evaluations, len(res.Distinct), newViol, len(knownHit), len(res.Inconcl), wall)
	if newViol > 0 {
		return 1
	}
	if res.Evaluations < minEval || len(res.Distinct) < minDistinct {
		fmt.Printf("BROKEN-CHECK property=%s observed too little: evaluations=%d (<%d) or distinct=%d (<%d)\n", prop, res.Evaluations, minEval, len(res.Distinct), minDistinct)
		return 2
	}
	return 0
}

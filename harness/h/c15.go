package h

// C15: swaps and conversions honour the user's slippage limits; reported amounts equal the applied balance changes.
//
// Oracle (MonSlippage): around every accepted sell / buy / sell-all (bancor 0x02 0x03 0x04, pool 0x17 0x18 0x19) the
// sender's balances in every known coin are read through the account accessor before and after the DeliverTx.
// From these deltas alone (plus the fee and the sender's own order fills, which are taken from the tags because they
// hit the same balances) the monitor derives what was debited in the coin sold and credited in the coin bought and
// compares with the limits inside the transaction bytes and with tx.return / tx.sell_amount / tx.pools.
// Nothing of the node's quoting code is called by the oracle.
//
// Workload (runC15): every trade of a "trade block" is first executed with a loose limit on a fork of the node (memdb
// image of the last commit booted as a second instance, brought to the same point inside the block by re-delivering the
// main instance's transactions); the main instance then executes the trade with limit = observed outcome (on the
// boundary), +-1 inside, or +-1 across the boundary (which must be rejected; if the node accepts it the balance oracle fires).  Background blocks of the shared generator place orders around
// the pool price, add/remove liquidity and create pools so that routes and commission swaps cross orders.

import (
	"encoding/hex"
	"fmt"
	"math/big"
	"math/rand"
	"os"
	"sort"
	"strings"
	"time"

	"github.com/MinterTeam/minter-go-node/coreV2/events"
	tx "github.com/MinterTeam/minter-go-node/coreV2/transaction"
	"github.com/MinterTeam/minter-go-node/coreV2/types"
	"github.com/MinterTeam/minter-go-node/rlp"
	abci "github.com/tendermint/tendermint/abci/types"
)

// tradeTx is what the harness reads back from the bytes of a trade transaction (input side only).
type tradeTx struct {
	Type     byte
	Kind     string // sell | buy | sellall
	Pool     bool
	Coins    []types.CoinID // coin sold ... coin bought
	Value    *big.Int       // value to sell (sell), value to buy (buy), nil (sell-all)
	Limit    *big.Int       // minimum to buy (sell, sell-all), maximum to sell (buy)
	GasCoin  types.CoinID
	GasPrice uint32
}

// decodeEnvelope decodes the outer transaction structure (what the harness itself encoded).
func decodeEnvelope(bz []byte) (*tx.Transaction, bool) {
	var t tx.Transaction
	if err := rlp.DecodeBytes(bz, &t); err != nil {
		return nil, false
	}
	return &t, true
}

// decodeTrade returns the trade parameters of a sell/buy/sell-all transaction.
func decodeTrade(bz []byte) (*tradeTx, bool) {
	t, ok := decodeEnvelope(bz)
	if !ok {
		return nil, false
	}
	out := &tradeTx{Type: byte(t.Type), GasCoin: t.GasCoin, GasPrice: t.GasPrice}
	switch t.Type {
	case tx.TypeSellCoin:
		var d tx.SellCoinData
		if rlp.DecodeBytes(t.Data, &d) != nil || d.ValueToSell == nil || d.MinimumValueToBuy == nil {
			return nil, false
		}
		out.Kind, out.Coins, out.Value, out.Limit = "sell", []types.CoinID{d.CoinToSell, d.CoinToBuy}, d.ValueToSell, d.MinimumValueToBuy
	case tx.TypeBuyCoin:
		var d tx.BuyCoinData
		if rlp.DecodeBytes(t.Data, &d) != nil || d.ValueToBuy == nil || d.MaximumValueToSell == nil {
			return nil, false
		}
		out.Kind, out.Coins, out.Value, out.Limit = "buy", []types.CoinID{d.CoinToSell, d.CoinToBuy}, d.ValueToBuy, d.MaximumValueToSell
	case tx.TypeSellAllCoin:
		var d tx.SellAllCoinData
		if rlp.DecodeBytes(t.Data, &d) != nil || d.MinimumValueToBuy == nil {
			return nil, false
		}
		out.Kind, out.Coins, out.Limit = "sellall", []types.CoinID{d.CoinToSell, d.CoinToBuy}, d.MinimumValueToBuy
		out.GasCoin = d.CoinToSell
	case tx.TypeSellSwapPool:
		var d tx.SellSwapPoolDataV260
		if rlp.DecodeBytes(t.Data, &d) != nil || d.ValueToSell == nil || d.MinimumValueToBuy == nil || len(d.Coins) < 2 {
			return nil, false
		}
		out.Kind, out.Pool, out.Coins, out.Value, out.Limit = "sell", true, d.Coins, d.ValueToSell, d.MinimumValueToBuy
	case tx.TypeBuySwapPool:
		var d tx.BuySwapPoolDataV260
		if rlp.DecodeBytes(t.Data, &d) != nil || d.ValueToBuy == nil || d.MaximumValueToSell == nil || len(d.Coins) < 2 {
			return nil, false
		}
		out.Kind, out.Pool, out.Coins, out.Value, out.Limit = "buy", true, d.Coins, d.ValueToBuy, d.MaximumValueToSell
	case tx.TypeSellAllSwapPool:
		var d tx.SellAllSwapPoolDataV260
		if rlp.DecodeBytes(t.Data, &d) != nil || d.MinimumValueToBuy == nil || len(d.Coins) < 2 {
			return nil, false
		}
		out.Kind, out.Pool, out.Coins, out.Limit = "sellall", true, d.Coins, d.MinimumValueToBuy
		out.GasCoin = d.Coins[0]
	default:
		return nil, false
	}
	return out, true
}

// balancesOf reads all balances of an address over the known coins.
func balancesOf(s *Sim, a types.Address) map[types.CoinID]*big.Int {
	out := map[types.CoinID]*big.Int{}
	_, coins := s.Universe()
	cs := s.N.App.CurrentState()
	for _, c := range coins {
		out[c] = new(big.Int).Set(cs.Accounts().GetBalance(a, c))
	}
	return out
}

// slipObs is one observed trade awaiting judgement.
type slipObs struct {
	tr       *tradeTx
	sender   types.Address
	meta     TxMeta
	txi      int
	height   int64
	bal0     map[types.CoinID]*big.Int
	bal1     map[types.CoinID]*big.Int
	tags     map[string]string
	ownFills map[uint32]types.CoinID // own order id filled by this tx and gone afterwards -> coin it sold
}

// MonSlippage implements C15.
type MonSlippage struct {
	BaseMon
	Res      *WorkerResult
	cur      *slipObs
	deferred []*slipObs
}

func (m *MonSlippage) Name() string { return "C15" }

func (m *MonSlippage) BeforeTx(s *Sim, i int, bz []byte, meta *TxMeta) {
	m.cur = nil
	if meta.Kind == "mutated" || meta.Sender == "" {
		return
	}
	switch meta.Type {
	case 0x02, 0x03, 0x04, 0x17, 0x18, 0x19:
	default:
		return
	}
	tr, ok := decodeTrade(bz)
	if !ok {
		return
	}
	snd := addrOf(meta.Sender)
	m.cur = &slipObs{tr: tr, sender: snd, meta: *meta, txi: i, height: s.CurReq.Height, bal0: balancesOf(s, snd)}
}

func (m *MonSlippage) viol(s *Sim, o *slipObs, rule, site, detail string) {
	if os.Getenv("C15_DEBUG") != "" {
		fmt.Fprintf(os.Stderr, "VIOL %s/%s %s\n  tags=%v\n  bal0=%v\n  bal1=%v\n", rule, site, detail, o.tags, o.bal0, o.bal1)
	}
	s.Report(Violation{Property: "C15", Rule: rule, Site: site, Height: o.height, TxIndex: o.txi,
		Detail: fmt.Sprintf("type %02x sender %s route %v value %v limit %v gas coin %d: %s", o.tr.Type, o.sender.String(), o.tr.Coins, o.tr.Value, o.tr.Limit, o.tr.GasCoin, detail)})
}

func (m *MonSlippage) AfterTx(s *Sim, i int, bz []byte, meta *TxMeta, res *abci.ResponseDeliverTx) {
	o := m.cur
	m.cur = nil
	if o == nil {
		return
	}
	if res.Code != 0 {
		m.Res.Count(fmt.Sprintf("rejected/%s/code%d", meta.Note, res.Code), 1)
		if meta.Note == "across" {
			m.Res.Seen(fmt.Sprintf("across the boundary rejected: %s/%s code %d", o.kindName(), o.tr.Kind, res.Code))
		}
		return
	}
	o.bal1 = balancesOf(s, o.sender)
	o.tags = Tags(res)
	// own orders filled by this very transaction: do they still exist?
	mx := o.sender.String()
	o.ownFills = map[uint32]types.CoinID{}
	cs := s.N.App.CurrentState()
	for _, h := range o.hops() {
		if h.Details == nil {
			continue
		}
		for _, f := range h.Details.Orders {
			if f.Seller != mx {
				continue
			}
			if l := cs.Swap().GetOrder(f.ID); l == nil || l.WantSell == nil || l.WantSell.Sign() == 0 {
				o.ownFills[f.ID] = types.CoinID(h.CoinOut)
			} else {
				delete(o.ownFills, f.ID)
			}
		}
	}
	if len(o.ownFills) > 0 {
		// a remainder below the minimum order volume is returned to the owner (OrderExpiredEvent): judged after the block
		m.deferred = append(m.deferred, o)
		return
	}
	m.judge(s, o, nil)
}

func (m *MonSlippage) AfterBlock(s *Sim, req *BlockReq, res *BlockRes) {
	if len(m.deferred) == 0 {
		return
	}
	var evs events.Events
	func() {
		defer func() { recover() }()
		evs = s.N.App.GetEventsDB().LoadEvents(uint32(req.Height))
	}()
	used := map[uint64]bool{}
	for _, o := range m.deferred {
		refund := map[types.CoinID]*big.Int{}
		for _, e := range evs {
			oe, ok := e.(*events.OrderExpiredEvent)
			if !ok || oe.Address != o.sender || used[oe.ID] {
				continue
			}
			if _, mine := o.ownFills[uint32(oe.ID)]; !mine {
				continue
			}
			used[oe.ID] = true
			c := types.CoinID(oe.Coin)
			if refund[c] == nil {
				refund[c] = new(big.Int)
			}
			refund[c].Add(refund[c], BI(oe.Amount))
		}
		m.judge(s, o, refund)
	}
	m.deferred = nil
}

func (o *slipObs) kindName() string {
	if o.tr.Pool {
		return "pool"
	}
	return "bancor"
}

// hops returns all pool steps of the transaction: the commission swap (if any) and the route.
func (o *slipObs) hops() []PoolChange {
	var out []PoolChange
	if p := ParsePoolTag(o.tags["tx.commission_details"]); p != nil {
		out = append(out, *p)
	}
	out = append(out, ParsePoolsTag(o.tags["tx.pools"])...)
	return out
}

func bget(m map[types.CoinID]*big.Int, c types.CoinID) *big.Int {
	if v, ok := m[c]; ok && v != nil {
		return v
	}
	return new(big.Int)
}

// judge compares the observed balance deltas of one accepted trade with its limits and tags.
func (m *MonSlippage) judge(s *Sim, o *slipObs, refund map[types.CoinID]*big.Int) {
	tr := o.tr
	S, B := tr.Coins[0], tr.Coins[len(tr.Coins)-1]
	site := o.kindName() + "-" + tr.Kind
	mx := o.sender.String()
	m.Res.Evaluations++

	C := BI(o.tags["tx.commission_amount"])
	G := tr.GasCoin
	if g, ok := o.tags["tx.commission_coin"]; ok {
		if fmt.Sprint(uint32(G)) != g {
			m.viol(s, o, "tag-mismatch", site+"/commission_coin", fmt.Sprintf("tx.commission_coin=%s but the fee coin of the transaction is %d", g, G))
		}
	}
	// credits to the sender as owner of orders filled by its own route / commission swap
	credit := map[types.CoinID]*big.Int{}
	ownFill := false
	for _, h := range o.hops() {
		hh := h
		if c := hh.CreditsTo(mx); c.Sign() > 0 {
			ownFill = true
			k := types.CoinID(h.CoinIn)
			credit[k] = new(big.Int).Add(bget(credit, k), c)
		}
	}
	for c, v := range refund {
		credit[c] = new(big.Int).Add(bget(credit, c), v)
	}
	// delta explained by the trade itself: observed delta - own order credits + fee (if paid in this coin)
	net := func(c types.CoinID) *big.Int {
		d := new(big.Int).Sub(bget(o.bal1, c), bget(o.bal0, c))
		d.Sub(d, bget(credit, c))
		if c == G {
			d.Add(d, C)
		}
		return d
	}
	spent := new(big.Int).Neg(net(S))
	got := net(B)
	ret := BI(o.tags["tx.return"])
	// context of a limit violation: fee swap and route both filled limit orders in the same pool (its own failure class)
	limitSite := site
	if p := ParsePoolTag(o.tags["tx.commission_details"]); p != nil && p.Details != nil && len(p.Details.Orders) > 0 {
		for _, h := range ParsePoolsTag(o.tags["tx.pools"]) {
			if h.PoolID == p.PoolID && h.Details != nil && len(h.Details.Orders) > 0 {
				limitSite = site + "/fee-swap-and-route-fill-orders-of-the-same-pool"
			}
		}
	}
	cyclic := S == B
	if cyclic {
		// a route that returns to the coin it started from (through different pools): debit and credit hit the same balance,
		// only their difference is observable; the requested side is taken as executed and the other side follows from the delta
		d := net(S)
		switch tr.Kind {
		case "sell":
			spent = new(big.Int).Set(tr.Value)
			got = new(big.Int).Add(d, spent)
		case "buy":
			got = new(big.Int).Set(tr.Value)
			spent = new(big.Int).Sub(got, d)
		case "sellall":
			spent = new(big.Int).Sub(bget(o.bal0, S), C)
			got = new(big.Int).Add(d, spent)
		}
	}

	switch tr.Kind {
	case "sell":
		if got.Cmp(tr.Limit) < 0 {
			m.viol(s, o, "limit", limitSite+offBy(tr.Limit, got), fmt.Sprintf("credited %s of coin %d, less than the minimum %s", got, B, tr.Limit))
		}
		if spent.Cmp(tr.Value) != 0 {
			m.viol(s, o, "amount", site, fmt.Sprintf("debited %s of coin %d for a sale of %s", spent, S, tr.Value))
		}
		if ret.Cmp(got) != 0 {
			m.viol(s, o, "tag-return", site, fmt.Sprintf("tx.return=%s but the balance of coin %d grew by %s", ret, B, got))
		}
	case "buy":
		if spent.Cmp(tr.Limit) > 0 {
			m.viol(s, o, "limit", limitSite+offBy(spent, tr.Limit), fmt.Sprintf("debited %s of coin %d, more than the maximum %s", spent, S, tr.Limit))
		}
		if got.Cmp(tr.Value) != 0 {
			m.viol(s, o, "amount", site, fmt.Sprintf("credited %s of coin %d for a purchase of %s", got, B, tr.Value))
		}
		if ret.Cmp(spent) != 0 {
			m.viol(s, o, "tag-return", site, fmt.Sprintf("tx.return=%s but the balance of coin %d fell by %s", ret, S, spent))
		}
	case "sellall":
		if got.Cmp(tr.Limit) < 0 {
			m.viol(s, o, "limit", limitSite+offBy(tr.Limit, got), fmt.Sprintf("credited %s of coin %d, less than the minimum %s", got, B, tr.Limit))
		}
		// everything the sender had is gone: what is left can only be what its own orders were paid
		left := new(big.Int).Sub(bget(o.bal1, S), bget(credit, S))
		if left.Sign() != 0 && !cyclic {
			m.viol(s, o, "sell-all-remainder", site, fmt.Sprintf("balance of coin %d was %s, fee %s, and %s is left after selling all (own order credits %s)", S, bget(o.bal0, S), C, bget(o.bal1, S), bget(credit, S)))
		}
		// sold = previous balance - fee
		wantSold := new(big.Int).Sub(bget(o.bal0, S), C)
		if spent.Cmp(wantSold) != 0 {
			m.viol(s, o, "amount", site, fmt.Sprintf("sold %s of coin %d, balance - fee is %s", spent, S, wantSold))
		}
		if ret.Cmp(got) != 0 {
			m.viol(s, o, "tag-return", site, fmt.Sprintf("tx.return=%s but the balance of coin %d grew by %s", ret, B, got))
		}
		if sa := BI(o.tags["tx.sell_amount"]); sa.Cmp(bget(o.bal0, S)) != 0 {
			m.viol(s, o, "tag-sell-amount", site, fmt.Sprintf("tx.sell_amount=%s but the sender's whole balance %s was taken", sa, bget(o.bal0, S)))
		}
	}
	// every other coin: only the fee and own order credits may move it
	var coins []types.CoinID
	for c := range o.bal1 {
		coins = append(coins, c)
	}
	sort.Slice(coins, func(i, j int) bool { return coins[i] < coins[j] })
	for _, c := range coins {
		if c == S || c == B {
			continue
		}
		if d := net(c); d.Sign() != 0 {
			m.viol(s, o, "side-balance", site, fmt.Sprintf("balance of coin %d (neither sold nor bought) moved by %s beyond fee %s and own order credits", c, d, C))
		}
	}
	// the route reported in tx.pools is the chain of the executed amounts
	hops := ParsePoolsTag(o.tags["tx.pools"])
	crossed := 0
	if tr.Pool {
		if len(hops) != len(tr.Coins)-1 {
			m.viol(s, o, "tag-pools", site, fmt.Sprintf("%d hops reported for a route of %d coins", len(hops), len(tr.Coins)))
		} else {
			for k, h := range hops {
				if types.CoinID(h.CoinIn) != tr.Coins[k] || types.CoinID(h.CoinOut) != tr.Coins[k+1] {
					m.viol(s, o, "tag-pools", site, fmt.Sprintf("hop %d reported as %d->%d", k, h.CoinIn, h.CoinOut))
				}
				if k > 0 && hops[k-1].ValueOut != h.ValueIn {
					m.viol(s, o, "tag-pools", site, fmt.Sprintf("hop %d sells %s but hop %d bought %s", k, h.ValueIn, k-1, hops[k-1].ValueOut))
				}
				if h.Details != nil && len(h.Details.Orders) > 0 {
					crossed++
				}
			}
			if BI(hops[0].ValueIn).Cmp(spent) != 0 {
				m.viol(s, o, "tag-pools", site, fmt.Sprintf("first hop reports value_in=%s, %s was debited", hops[0].ValueIn, spent))
			}
			if BI(hops[len(hops)-1].ValueOut).Cmp(got) != 0 {
				m.viol(s, o, "tag-pools", site, fmt.Sprintf("last hop reports value_out=%s, %s was credited", hops[len(hops)-1].ValueOut, got))
			}
		}
	}
	// evidence classes
	gasRel := "gas=other"
	switch {
	case G == 0 && S != 0 && B != 0:
		gasRel = "gas=base"
	case G == S:
		gasRel = "gas=sold"
	case G == B:
		gasRel = "gas=bought"
	default:
		for _, c := range tr.Coins[1 : len(tr.Coins)-1] {
			if c == G {
				gasRel = "gas=mid-route"
			}
		}
	}
	comRoute := "fee:base"
	comCross := false
	if G != 0 {
		comRoute = "fee:bancor"
		if p := ParsePoolTag(o.tags["tx.commission_details"]); p != nil {
			comRoute = "fee:pool"
			for _, h := range hops {
				if h.PoolID == p.PoolID {
					comRoute = "fee:pool-of-route"
				}
			}
			if p.Details != nil && len(p.Details.Orders) > 0 {
				comCross = true
			}
		}
	}
	mode := o.meta.Note
	if mode == "" {
		mode = "generator"
	}
	onBoundary := false
	switch tr.Kind {
	case "sell", "sellall":
		onBoundary = got.Cmp(tr.Limit) == 0
	case "buy":
		onBoundary = spent.Cmp(tr.Limit) == 0
	}
	cls := fmt.Sprintf("%s %d coins %s %s", site, len(tr.Coins), gasRel, comRoute)
	if cyclic {
		cls += " cyclic-route"
	}
	if crossed > 0 {
		cls += " orders-crossed"
	}
	m.Res.Seen(cls)
	if onBoundary {
		m.Res.Count("on_boundary", 1)
		m.Res.Seen(fmt.Sprintf("limit exactly met: %s %d coins", site, len(tr.Coins)))
	}
	if limitSite != site {
		m.Res.Count("fee_swap_and_route_filled_orders_of_one_pool", 1)
		m.Res.Seen("fee swap and route filled orders of the same pool: " + site)
	}
	if comCross {
		m.Res.Count("fee_swap_crossed_order", 1)
		m.Res.Seen("fee swap crossed an order: " + site)
	}
	if ownFill {
		m.Res.Count("own_order_filled", 1)
		m.Res.Seen("sender owns a filled order: " + site)
	}
	if len(refund) > 0 {
		m.Res.Count("own_order_remainder_refunded", 1)
		m.Res.Seen("sender's own order remainder refunded: " + site)
	}
	m.Res.Count("mode/"+mode, 1)
	m.Res.Count("accepted/"+site, 1)
	m.Res.Sample(map[string]interface{}{"height": o.height, "type": fmt.Sprintf("%02x", tr.Type), "route": fmt.Sprint(tr.Coins), "value": fmt.Sprint(tr.Value), "limit": tr.Limit.String(),
		"mode": mode, "debited": spent.String(), "credited": got.String(), "tx.return": ret.String(), "fee": C.String(), "fee_coin": uint32(G)}, 8)
}

// ---------------------------------------------------------------------------------------------------
// workload

type c15Plan struct {
	Type      tx.TxType
	Kind      string
	Snd       Senderish
	Gas       types.CoinID
	GasPrice  uint32
	Coins     []types.CoinID
	Value     *big.Int
	Payload   []byte
	Mode      string // exact | inside | across | loose
	Far       int    // across: 10^Far units beyond the boundary (0 = one unit)
	probe     *big.Int
	probeOK   bool
	probeTags map[string]string
}

var c15Loose = new(big.Int).Exp(big.NewInt(10), big.NewInt(33), nil)

func (p *c15Plan) looseLimit() *big.Int {
	if p.Kind == "buy" {
		return c15Loose
	}
	return big.NewInt(1)
}

// limit derives the slippage limit from the outcome observed on the fork.
func (p *c15Plan) limit() *big.Int {
	if !p.probeOK || p.Mode == "loose" {
		return p.looseLimit()
	}
	l := new(big.Int).Set(p.probe)
	sign := int64(1)
	if p.Kind == "buy" {
		sign = -1
	}
	switch p.Mode {
	case "across":
		// one unit across the boundary, or (a third of the time) further across: 10^6 or 10^12 units, still unattainable
		// (lead: added after seed C15-m2 - a mis-prediction larger than a rounding unit must not hide in the one-pip class)
		step := big.NewInt(sign)
		if p.Far > 0 {
			step.Mul(step, new(big.Int).Exp(big.NewInt(10), big.NewInt(int64(p.Far)), nil))
		}
		l.Add(l, step)
	case "inside":
		l.Sub(l, big.NewInt(sign))
	}
	if l.Sign() < 0 {
		l.SetInt64(0)
	}
	return l
}

func (p *c15Plan) encode(n *Node, limit *big.Int) ([]byte, TxMeta) {
	addr := p.Snd.Addr()
	nonce := n.App.CurrentState().Accounts().GetNonce(addr) + 1
	var data interface{}
	switch p.Type {
	case tx.TypeSellCoin:
		data = tx.SellCoinData{CoinToSell: p.Coins[0], ValueToSell: p.Value, CoinToBuy: p.Coins[1], MinimumValueToBuy: limit}
	case tx.TypeBuyCoin:
		data = tx.BuyCoinData{CoinToBuy: p.Coins[1], ValueToBuy: p.Value, CoinToSell: p.Coins[0], MaximumValueToSell: limit}
	case tx.TypeSellAllCoin:
		data = tx.SellAllCoinData{CoinToSell: p.Coins[0], CoinToBuy: p.Coins[1], MinimumValueToBuy: limit}
	case tx.TypeSellSwapPool:
		data = tx.SellSwapPoolDataV260{Coins: p.Coins, ValueToSell: p.Value, MinimumValueToBuy: limit}
	case tx.TypeBuySwapPool:
		data = tx.BuySwapPoolDataV260{Coins: p.Coins, ValueToBuy: p.Value, MaximumValueToSell: limit}
	case tx.TypeSellAllSwapPool:
		data = tx.SellAllSwapPoolDataV260{Coins: p.Coins, MinimumValueToBuy: limit}
	}
	sp := &TxSpec{Nonce: nonce, ChainID: types.CurrentChainID, GasPrice: p.GasPrice, GasCoin: p.Gas, Type: p.Type, Data: data, Payload: p.Payload, Signer: p.Snd.K, Multisig: p.Snd.M}
	meta := TxMeta{Type: byte(p.Type), Sender: hex.EncodeToString(addr[:]), Nonce: nonce, GasCoin: uint32(p.Gas), GasPrice: p.GasPrice, Kind: "valid", Note: p.Mode,
		PayLen: len(p.Payload), Msig: p.Snd.M != nil, Chain: byte(types.CurrentChainID)}
	return sp.Encode(), meta
}

// c15Gen makes trade plans from the last export and the live balances.
type c15Gen struct {
	s *Sim
	g *TxGen
	r *rand.Rand
}

func (c *c15Gen) gasUsable(id types.CoinID) bool {
	if id == 0 {
		return true
	}
	if ci := c.g.coinInfo(id); ci != nil && ci.Crr > 0 {
		return true
	}
	for _, p := range c.s.Post.Pools {
		if p.Coin0 == 0 && types.CoinID(p.Coin1) == id {
			return true
		}
	}
	return false
}

func (c *c15Gen) senders() []Senderish {
	var out []Senderish
	for _, k := range c.s.W.Users {
		out = append(out, Senderish{K: k})
	}
	for _, m := range c.s.W.Multisigs {
		out = append(out, Senderish{M: m})
	}
	return out
}

func (c *c15Gen) reserveOf(a, b types.CoinID) *big.Int { // reserve of b in pool (a,b)
	for _, p := range c.s.Post.Pools {
		if types.CoinID(p.Coin0) == a && types.CoinID(p.Coin1) == b {
			return BI(p.Reserve1)
		}
		if types.CoinID(p.Coin0) == b && types.CoinID(p.Coin1) == a {
			return BI(p.Reserve0)
		}
	}
	return nil
}

func scaleDown(v *big.Int, r *rand.Rand, loExp, hiExp int) *big.Int {
	// v / 10^e * m, e in [loExp,hiExp], m in 1..9
	e := loExp + r.Intn(hiExp-loExp+1)
	d := new(big.Int).Exp(big.NewInt(10), big.NewInt(int64(e)), nil)
	x := new(big.Int).Mul(v, big.NewInt(int64(1+r.Intn(9))))
	x.Div(x, d)
	if x.Sign() == 0 {
		x.SetInt64(int64(1 + r.Intn(1000)))
	}
	return x
}

func (c *c15Gen) plan() *c15Plan {
	r := c.r
	p := &c15Plan{GasPrice: 1}
	if r.Intn(5) == 0 {
		p.GasPrice = uint32(2 + r.Intn(3))
	}
	pool := r.Intn(10) < 7
	k := r.Intn(100)
	switch {
	case k < 42:
		p.Kind = "sell"
	case k < 84:
		p.Kind = "buy"
	default:
		p.Kind = "sellall"
	}
	if pool {
		n := []int{2, 2, 2, 3, 3, 4, 4, 5, 5, 5}[r.Intn(10)]
		p.Coins = c.g.route(n)
		if p.Coins == nil {
			return nil
		}
		if k := len(p.Coins); k >= 3 && k <= 4 && r.Intn(10) == 0 && c.reserveOf(p.Coins[k-1], p.Coins[0]) != nil {
			p.Coins = append(p.Coins, p.Coins[0]) // back to the first coin through another pool: accepted by the node
		}
		p.Type = map[string]tx.TxType{"sell": tx.TypeSellSwapPool, "buy": tx.TypeBuySwapPool, "sellall": tx.TypeSellAllSwapPool}[p.Kind]
	} else {
		bc := c.g.bancorCoins()
		if len(bc) < 2 {
			return nil
		}
		from := bc[r.Intn(len(bc))]
		to := bc[(indexOf(bc, from)+1+r.Intn(len(bc)-1))%len(bc)]
		p.Coins = []types.CoinID{from, to}
		p.Type = map[string]tx.TxType{"sell": tx.TypeSellCoin, "buy": tx.TypeBuyCoin, "sellall": tx.TypeSellAllCoin}[p.Kind]
	}
	S, B := p.Coins[0], p.Coins[len(p.Coins)-1]
	if p.Kind == "sellall" && S == 0 && r.Intn(4) != 0 {
		return nil // do not drain everybody's base coin
	}
	// fee coin relative to the route
	var opts []types.CoinID
	switch x := r.Intn(100); {
	case x < 28:
		opts = []types.CoinID{0}
	case x < 52:
		opts = []types.CoinID{S}
	case x < 72:
		opts = []types.CoinID{B}
	case x < 84 && len(p.Coins) > 2:
		opts = []types.CoinID{p.Coins[1+r.Intn(len(p.Coins)-2)]}
	default:
		ids := c.g.coinIDs()
		opts = []types.CoinID{ids[r.Intn(len(ids))]}
	}
	p.Gas = opts[0]
	if !c.gasUsable(p.Gas) {
		p.Gas = 0
	}
	if p.Kind == "sellall" {
		p.Gas = S // ignored by the node, kept equal for the meta
		if !c.gasUsable(S) {
			return nil
		}
	}
	// sender: holds the coin to sell and the fee coin
	snds := c.senders()
	r.Shuffle(len(snds), func(i, j int) { snds[i], snds[j] = snds[j], snds[i] })
	var best *Senderish
	for i := range snds {
		a := snds[i].Addr()
		if c.g.bal(a, S).Sign() <= 0 {
			continue
		}
		if best == nil {
			best = &snds[i]
		}
		if c.g.bal(a, p.Gas).Sign() > 0 {
			best = &snds[i]
			break
		}
	}
	if best == nil {
		return nil
	}
	p.Snd = *best
	bal := c.g.bal(p.Snd.Addr(), S)
	switch p.Kind {
	case "sell":
		switch r.Intn(6) {
		case 0:
			p.Value = big.NewInt(int64(1 + r.Intn(100000))) // dust
		case 1, 2:
			p.Value = scaleDown(bal, r, 3, 7)
		case 3, 4:
			p.Value = scaleDown(bal, r, 1, 3)
		default:
			p.Value = new(big.Int).Div(bal, big.NewInt(int64(1+r.Intn(3)))) // up to the whole balance
		}
	case "buy":
		var base *big.Int
		if pool {
			base = c.reserveOf(p.Coins[len(p.Coins)-2], B)
		} else if ci := c.g.coinInfo(B); ci != nil {
			base = BI(ci.Volume)
		} else {
			base = Bip(100000) // base coin bought from a bancor coin: any amount below the reserve
			if ci := c.g.coinInfo(S); ci != nil {
				base = BI(ci.Reserve)
			}
		}
		if base == nil || base.Sign() <= 0 {
			return nil
		}
		switch r.Intn(6) {
		case 0:
			p.Value = big.NewInt(int64(1 + r.Intn(100000)))
		case 1, 2, 3:
			p.Value = scaleDown(base, r, 3, 8)
		default:
			p.Value = scaleDown(base, r, 2, 3)
		}
	}
	if r.Intn(8) == 0 {
		p.Payload = make([]byte, r.Intn(64))
		r.Read(p.Payload)
	}
	switch x := r.Intn(100); {
	case x < 50:
		p.Mode = "exact"
	case x < 62:
		p.Mode = "inside"
	case x < 92:
		p.Mode = "across"
		p.Far = []int{0, 0, 6, 12}[r.Intn(4)]
	default:
		p.Mode = "loose"
	}
	return p
}

// c15Aim is the aimed fee-pool situation (lead: added after seed C15-m2): a maker places an order selling the base coin for G at
// (the ceiling of) the current price of pool (0,G); the very next transaction trades through the hop G -> 0 with its fee in G,
// so that the fee conversion itself is (partly) filled from that order before the route reaches it.
type c15Aim struct {
	G     types.CoinID
	Maker *Key
	Vs    *big.Int // base coin offered by the order
	plan  *c15Plan
}

func (c *c15Gen) aimFeePool() *c15Aim {
	r := c.r
	var gs []types.CoinID
	for _, p := range c.s.Post.Pools {
		if p.Coin0 == 0 && p.Coin1 != 0 {
			gs = append(gs, types.CoinID(p.Coin1))
		}
	}
	if len(gs) == 0 {
		return nil
	}
	a := &c15Aim{G: gs[r.Intn(len(gs))]}
	a.Vs = new(big.Int).Mul(big.NewInt(int64(1+r.Intn(9))), new(big.Int).Exp(big.NewInt(10), big.NewInt(int64(16+r.Intn(4))), nil)) // 0.01 .. 90 base coins
	us := append([]*Key{}, c.s.W.Users...)
	r.Shuffle(len(us), func(i, j int) { us[i], us[j] = us[j], us[i] })
	need := new(big.Int).Add(a.Vs, Bip(100))
	for _, k := range us {
		if c.g.bal(k.Addr, 0).Cmp(need) > 0 {
			a.Maker = k
			break
		}
	}
	if a.Maker == nil {
		return nil
	}
	p := &c15Plan{GasPrice: 1, Gas: a.G}
	switch x := r.Intn(10); {
	case x < 5:
		p.Kind, p.Type = "sell", tx.TypeSellSwapPool
	case x < 9:
		p.Kind, p.Type = "buy", tx.TypeBuySwapPool
	default:
		p.Kind, p.Type = "sellall", tx.TypeSellAllSwapPool
	}
	p.Coins = []types.CoinID{a.G, 0}
	switch r.Intn(5) {
	case 0: // one more hop behind the fee pool
		var ys []types.CoinID
		for _, g := range gs {
			if g != a.G {
				ys = append(ys, g)
			}
		}
		if len(ys) > 0 {
			p.Coins = append(p.Coins, ys[r.Intn(len(ys))])
		}
	case 1: // one more hop in front of it
		var xs []types.CoinID
		for _, q := range c.s.Post.Pools {
			switch {
			case types.CoinID(q.Coin0) == a.G && q.Coin1 != 0:
				xs = append(xs, types.CoinID(q.Coin1))
			case types.CoinID(q.Coin1) == a.G && q.Coin0 != 0:
				xs = append(xs, types.CoinID(q.Coin0))
			}
		}
		if len(xs) > 0 && p.Kind != "sellall" {
			p.Coins = append([]types.CoinID{xs[r.Intn(len(xs))]}, p.Coins...)
		}
	}
	S := p.Coins[0]
	for _, k := range us {
		if k != a.Maker && c.g.bal(k.Addr, S).Sign() > 0 && c.g.bal(k.Addr, a.G).Sign() > 0 {
			p.Snd = Senderish{K: k}
			break
		}
	}
	if p.Snd.K == nil {
		return nil
	}
	// the trade is 2..40 times the order (value in the coin the order deals in; other hops distort it, which is fine)
	mult := big.NewInt(int64(2 + r.Intn(39)))
	rG := c.reserveOf(0, a.G)
	r0 := c.reserveOf(a.G, 0)
	if rG == nil || r0 == nil || r0.Sign() == 0 {
		return nil
	}
	switch p.Kind {
	case "sell":
		p.Value = new(big.Int).Mul(a.Vs, mult)
		p.Value.Mul(p.Value, rG).Div(p.Value, r0) // about mult orders' worth of G
		if b := c.g.bal(p.Snd.Addr(), S); p.Value.Cmp(b) > 0 {
			p.Value = new(big.Int).Div(b, big.NewInt(2))
		}
		if p.Value.Sign() == 0 {
			return nil
		}
	case "buy":
		p.Value = new(big.Int).Mul(a.Vs, mult)
		if lim := new(big.Int).Div(r0, big.NewInt(3)); p.Value.Cmp(lim) > 0 {
			p.Value = lim
		}
		if p.Value.Sign() == 0 {
			return nil
		}
	}
	switch x := r.Intn(100); {
	case x < 30:
		p.Mode = "exact"
	case x < 40:
		p.Mode = "inside"
	default:
		p.Mode = "across"
		p.Far = []int{0, 3, 6, 9}[r.Intn(4)]
	}
	a.plan = p
	return a
}

// orderTx encodes the maker's order from the LIVE reserves of pool (0,G): price = ceiling of the pool price (the closest the node accepts).
func (a *c15Aim) orderTx(n *Node) ([]byte, TxMeta, bool) {
	cs := n.App.CurrentState()
	sw := cs.Swap().GetSwapper(0, a.G)
	if sw == nil || !sw.Exists() {
		return nil, TxMeta{}, false
	}
	r0, rG := sw.Reserves()
	if r0 == nil || r0.Sign() == 0 {
		return nil, TxMeta{}, false
	}
	vb := new(big.Int).Mul(a.Vs, rG)
	vb.Add(vb, new(big.Int).Sub(r0, big.NewInt(1))).Div(vb, r0)
	if vb.Cmp(big.NewInt(1e10)) < 0 {
		return nil, TxMeta{}, false
	}
	nonce := cs.Accounts().GetNonce(a.Maker.Addr) + 1
	sp := &TxSpec{Nonce: nonce, ChainID: types.CurrentChainID, GasPrice: 1, GasCoin: 0, Type: tx.TypeAddLimitOrder, Signer: a.Maker,
		Data: tx.AddLimitOrderData{CoinToSell: 0, ValueToSell: a.Vs, CoinToBuy: a.G, ValueToBuy: vb}}
	meta := TxMeta{Type: byte(tx.TypeAddLimitOrder), Sender: hex.EncodeToString(a.Maker.Addr[:]), Nonce: nonce, GasPrice: 1, Kind: "valid", Note: "order-at-pool-price", Chain: byte(types.CurrentChainID)}
	return sp.Encode(), meta, true
}

// relation describes where the fee coin sits relative to the route.
func (p *c15Plan) relation() string {
	S, B := p.Coins[0], p.Coins[len(p.Coins)-1]
	switch {
	case p.Gas == 0:
		return "fee coin base"
	case p.Gas == S:
		return "fee coin = coin sold"
	case p.Gas == B:
		return "fee coin = coin bought"
	}
	for _, c := range p.Coins {
		if c == p.Gas {
			return "fee coin inside the route"
		}
	}
	return "fee coin outside the route"
}

func c15Mons(res *WorkerResult) []Monitor { return []Monitor{&MonSlippage{Res: res}} }

func init() {
	MonitorsFor["C15"] = c15Mons
	Register(&CheckDef{
		ID: "C15", Level: "exploration",
		Rule: "generated histories over all genesis families alternate background blocks of the shared generator (limit orders around the pool price, liquidity, new pools and coins, its own loosely limited trades) with trade blocks of 3-8 sells/buys/sell-alls (bancor and pool routes of 2-5 coins; fee coin = base / coin sold / coin bought / coin in the middle of the route / unrelated coin, so that the fee is converted through a pool of the route, another pool or the bancor reserve). Every trade is first executed with a loose limit on its own forked instance (memdb image of the last commit booted as a second node, re-delivering what the main instance executed in the block so far); the main instance then gets the trade with limit = observed outcome (50%), one unit inside (12%), one unit ACROSS the boundary (30%, must be rejected) or loose. Oracle: the sender's balances in all known coins read through the account accessor before and after each accepted trade: coin bought grew by >= minimum (sell, sell-all), coin sold fell by <= maximum (buy), exactly the requested value was sold/bought, sell-all leaves nothing and sells balance - fee, tx.return / tx.sell_amount / tx.pools equal these deltas, no other coin moved (the fee and the sender's own order fills / refunded order remainders are accounted from tx.commission_amount, the fills in tx.pools / tx.commission_details and OrderExpired events). One evaluation = one accepted trade judged; distinct = (bancor|pool x sell|buy|sell-all, route length, fee coin relation, fee conversion route, orders crossed) plus boundary classes (limit exactly met per kind, across-the-boundary rejected, fee swap crossed an order, sender owns a filled order)",
		Assumptions: []string{"the fee amount and the sender's own order fills are read from the tags (tx.commission_amount, fills in tx.pools / tx.commission_details): they move the same balances as the trade and cannot be separated by observation; the fee amount itself is judged by C27, fills by C14",
			"a route may return to its first coin through different pools: debit and credit then hit the same balance and only their difference is observable (the requested side is assumed executed as requested)",
			"limits are learnt from a forked instance; if fork and main instance disagree the trade merely misses the boundary (counted), the oracle never uses the fork"},
		Quick: 56, Thorough: 560, MinEval: 2500, MinDistinct: 120,
		Run: runC15,
	})
}

func runC15(ctx *WorkCtx, idx int) {
	r := Rng(ctx.Seed, "C15", idx)
	sc := StdScenario(idx, r, 36)
	if sc.Spec.Orders < 3 {
		sc.Spec.Orders = 3 + r.Intn(4)
	}
	if sc.Family == "crowded" || sc.Family == "filler" {
		sc.Blocks = 24 // blocks and forks of these families are several times dearer
	}
	s, d := sc.Build("C15", ctx.Seed, idx, r, c15Mons(ctx.Res)...)
	defer s.Finish()
	if s.Dead {
		ctx.Collect(s, idx)
		return
	}
	// background generator: market making and structure changes
	for _, t := range AllTxTypes {
		d.G.SetWeight(t, 0)
	}
	for t, w := range map[tx.TxType]int{tx.TypeAddLimitOrder: 34, tx.TypeRemoveLimitOrder: 3, tx.TypeAddLiquidity: 6, tx.TypeRemoveLiquidity: 2, tx.TypeCreateSwapPool: 4,
		tx.TypeSend: 8, tx.TypeMultisend: 2, tx.TypeCreateCoin: 2, tx.TypeMintToken: 2,
		tx.TypeSellCoin: 3, tx.TypeBuyCoin: 3, tx.TypeSellAllCoin: 1, tx.TypeSellSwapPool: 6, tx.TypeBuySwapPool: 6, tx.TypeSellAllSwapPool: 2} {
		d.G.SetWeight(t, w)
	}
	d.G.PInvalid, d.G.PBound = 0.03, 0.1
	d.MaxTxs = 7
	d.PByz, d.PAbsent, d.PAbsentRun, d.PTimeJump = 0, 0.002, 0, 0.01
	cg := &c15Gen{s: s, g: d.G, r: r}
	for b := 0; b < sc.Blocks && !s.Dead && !s.Stopped; b++ {
		if b%2 == 0 {
			d.Block()
			continue
		}
		// plans from the state between blocks
		n := 3 + r.Intn(6)
		var plans []*c15Plan
		for try := 0; len(plans) < n && try < 4*n; try++ {
			if p := cg.plan(); p != nil {
				plans = append(plans, p)
			}
		}
		// a third of the trade blocks open with the aimed fee-pool pair: order at the pool price, then a trade through that pool with its fee in the pool's coin
		var aim *c15Aim
		if r.Intn(3) == 0 {
			if aim = cg.aimFeePool(); aim != nil {
				plans = append([]*c15Plan{aim.plan}, plans...)
			}
		}
		off := 0
		req := d.NextReq()
		img := s.N.Image()
		var mainTxs [][]byte
		// every trade is probed on its own fork: boot the image of the last commit, re-deliver what the main instance has
		// executed in this block so far, then deliver the trade with a loose limit to learn its outcome
		probe := func(p *c15Plan) {
			t0 := time.Now()
			f := img.Boot()
			t1 := time.Now()
			defer func() {
				t2 := time.Now()
				f.Destroy()
				if os.Getenv("C15_DEBUG") != "" {
					fmt.Fprintf(os.Stderr, "PROBE boot=%v run=%v destroy=%v\n", t1.Sub(t0), t2.Sub(t1), time.Since(t2))
				}
			}()
			if stopped, pi := f.Begin(req); pi != nil || stopped {
				ctx.Res.Count("fork_failed", 1)
				return
			}
			for _, bz := range mainTxs {
				if _, pi := f.Deliver(bz); pi != nil {
					ctx.Res.Count("fork_failed", 1)
					return
				}
			}
			bz, _ := p.encode(f, p.looseLimit())
			res, pi := f.Deliver(bz)
			if pi != nil {
				ctx.Res.Count("fork_failed", 1)
				return
			}
			if res.Code == 0 {
				p.probeOK = true
				p.probeTags = Tags(&res)
				p.probe = BI(p.probeTags["tx.return"])
				ctx.Res.Count("probe_ok", 1)
			} else {
				ctx.Res.Count(fmt.Sprintf("probe_rejected/code%d", res.Code), 1)
			}
		}
		s.RunBlock(req, nil, func(i int) ([]byte, TxMeta, bool) {
			if i == 0 && aim != nil {
				if bz, meta, ok := aim.orderTx(s.N); ok {
					off = 1
					mainTxs = append(mainTxs, bz)
					ctx.Res.Count("aimed_fee_pool_orders", 1)
					return bz, meta, true
				}
			}
			i -= off
			if i >= len(plans) {
				return nil, TxMeta{}, false
			}
			p := plans[i]
			probe(p)
			if !p.probeOK {
				p.Mode = "loose"
			}
			bz, meta := p.encode(s.N, p.limit())
			mainTxs = append(mainTxs, bz)
			return bz, meta, true
		})
		if s.CurRes != nil && !s.Dead {
			for j, dl := range s.CurRes.Deliver {
				i := j - off
				if i < 0 || i >= len(plans) || !plans[i].probeOK {
					continue
				}
				p := plans[i]
				ctx.Res.Count(fmt.Sprintf("main/%s/%s", p.Mode, codeClass(dl.Code)), 1)
				dd := dl
				mt := Tags(&dd)
				switch {
				case dl.Code != 0 && (p.Mode == "exact" || p.Mode == "inside"):
					// the fork executed this very trade in this very state: the node's limit check used a quote below what it executes
					ctx.Res.Count("rejected_although_execution_meets_limit", 1)
					ctx.Res.Seen(fmt.Sprintf("rejected although the executed amount meets the limit (pessimistic quote): %02x %s", byte(p.Type), p.relation()))
				case dl.Code == 0 && mt["tx.return"] != p.probeTags["tx.return"]:
					ctx.Res.Count("fork_main_differ", 1)
				}
				if os.Getenv("C15_DEBUG") != "" && (dl.Code != 0 || mt["tx.return"] != p.probeTags["tx.return"]) {
					fmt.Fprintf(os.Stderr, "DIVERGE h=%d i=%d mode=%s type=%02x route=%v value=%v gas=%d code=%d log=%s\n  fork: ret=%s pools=%s com=%s/%s\n  main: ret=%s pools=%s com=%s/%s\n", req.Height, i, p.Mode, byte(p.Type), p.Coins, p.Value, p.Gas, dl.Code, dl.Log,
						p.probeTags["tx.return"], p.probeTags["tx.pools"], p.probeTags["tx.commission_amount"], p.probeTags["tx.commission_details"],
						mt["tx.return"], mt["tx.pools"], mt["tx.commission_amount"], mt["tx.commission_details"])
				}
			}
		}
	}
	ctx.Res.Count("blocks", s.H-s.W.InitialHeight+1)
	for k, v := range s.Stats {
		if strings.HasPrefix(k, "tx/") {
			ctx.Res.Count("stats/"+k, int64(v))
		}
	}
	ctx.Collect(s, idx)
}

func codeClass(c uint32) string {
	if c == 0 {
		return "accepted"
	}
	return fmt.Sprintf("code%d", c)
}

// offBy classifies by how much a limit was missed (the one known deviation is by exactly one pip).
func offBy(a, b *big.Int) string {
	if new(big.Int).Sub(a, b).CmpAbs(big.NewInt(1)) == 0 {
		return "/off-by-one-pip"
	}
	return "/off-by-more"
}

package h

import (
	"fmt"
	"math/big"
	"math/rand"
	"sort"
	"time"

	"github.com/MinterTeam/minter-go-node/coreV2/types"
)

// World is the harness's knowledge of who exists: keys it can sign with, validator keys, etc.
type World struct {
	Users     []*Key
	Multisigs []*MultisigAcc
	Vals      []ValKey          // candidate public keys (index = candidate id-1 at genesis)
	ValOwner  map[types.Pubkey]*Key
	ValCtl    map[types.Pubkey]*Key
	ChainID   types.ChainID
	InitialHeight int64 // first block height
	StakePeriod   uint64
	ExpirePeriod  uint64
}

// MultisigAcc is a multisig account with known owners.
type MultisigAcc struct {
	Addr      types.Address
	Owners    []*Key
	Weights   []uint32
	Threshold uint32
}

// GenSpec selects a genesis family.
type GenSpec struct {
	Family        string // small | crowded | customprice | capped | bare | upgrading
	Users         int
	Validators    int   // number of genesis validators (online candidates with big stakes)
	ExtraCands    int   // further candidates (some offline)
	InitialHeight int64 // first block
	Filler        bool  // fill coin ids so that 1..1993 are contiguous
	BigDelegators int   // number of delegators of candidate 0 (slot tests)
	Orders        int   // open orders per order-carrying pool
	NoUSDT        bool
	Recovering    int // > 0: the genesis price record is in the recovery phase (Off), k = Recovering-1 updates of +10 BIP short of the price-derived reward
	Emission      string
	Versions      []types.Version
}

type gbuilder struct {
	st      types.AppState
	bal     map[types.Address]map[uint64]*big.Int
	nonce   map[types.Address]uint64
	msig    map[types.Address]*types.Multisig
	lock    map[types.Address]uint64
	vol     map[uint64]*big.Int // custom coin volumes accumulated from holdings
	coins   map[uint64]*types.Coin
	order   []uint64
	nextOrd uint64
	pools   []*types.Pool
}

func (g *gbuilder) hold(coin uint64, v *big.Int) {
	if coin == 0 {
		return
	}
	if g.vol[coin] == nil {
		g.vol[coin] = new(big.Int)
	}
	g.vol[coin].Add(g.vol[coin], v)
}

func (g *gbuilder) give(a types.Address, coin uint64, v *big.Int) {
	if g.bal[a] == nil {
		g.bal[a] = map[uint64]*big.Int{}
	}
	if g.bal[a][coin] == nil {
		g.bal[a][coin] = new(big.Int)
	}
	g.bal[a][coin].Add(g.bal[a][coin], v)
	g.hold(coin, v)
}

func (g *gbuilder) addCoin(c types.Coin) {
	cc := c
	g.coins[c.ID] = &cc
	g.order = append(g.order, c.ID)
}

func (g *gbuilder) addPool(id, c0, c1 uint64, r0, r1 *big.Int, lpID uint64, lpOwner types.Address) *types.Pool {
	if c0 > c1 {
		c0, c1, r0, r1 = c1, c0, r1, r0
	}
	g.pools = append(g.pools, &types.Pool{Coin0: c0, Coin1: c1, Reserve0: r0.String(), Reserve1: r1.String(), ID: id})
	g.hold(c0, r0)
	g.hold(c1, r1)
	// liquidity token, as CreateSwapPool would have made it: sqrt(r0*r1), 1000 locked at zero address
	liq := new(big.Int).Sqrt(new(big.Int).Mul(r0, r1))
	g.addCoin(types.Coin{ID: lpID, Name: fmt.Sprintf("Liquidity Pool %d-%d", c0, c1), Symbol: types.StrToCoinSymbol(fmt.Sprintf("LP-%d", id)),
		MaxSupply: "1000000000000000000000000000000000", Mintable: true, Burnable: true})
	g.give(types.Address{}, lpID, big.NewInt(1000))
	g.give(lpOwner, lpID, new(big.Int).Sub(liq, big.NewInt(1000)))
	return g.pools[len(g.pools)-1]
}

// addOrder adds an order to pool p: owner sells `sell` of coinSell wanting `buy` of the other coin.
func (g *gbuilder) addOrder(p *types.Pool, owner types.Address, coinSell uint64, sell, buy *big.Int, height uint64) {
	g.nextOrd++
	o := types.Order{ID: g.nextOrd, Owner: owner, Height: height}
	// IsSale: order sells coin1 (Volume1 = sell amount of coin1, Volume0 = wanted coin0)
	if coinSell == p.Coin1 {
		o.IsSale = true
		o.Volume0 = buy.String()
		o.Volume1 = sell.String()
	} else {
		o.IsSale = false
		o.Volume0 = sell.String()
		o.Volume1 = buy.String()
	}
	p.Orders = append(p.Orders, o)
	g.hold(coinSell, sell)
}

// DefaultCommission is the price table used by most genesis families (in base coin).
func DefaultCommission() types.Commission {
	return types.Commission{
		Coin:                    0,
		PayloadByte:             "2000000000000000",
		Send:                    "10000000000000000",
		BuyBancor:               "100000000000000000",
		SellBancor:              "100000000000000000",
		SellAllBancor:           "100000000000000000",
		BuyPoolBase:             "100000000000000000",
		BuyPoolDelta:            "50000000000000000",
		SellPoolBase:            "100000000000000000",
		SellPoolDelta:           "50000000000000000",
		SellAllPoolBase:         "100000000000000000",
		SellAllPoolDelta:        "50000000000000000",
		CreateTicker3:           "1000000000000000000000000",
		CreateTicker4:           "100000000000000000000000",
		CreateTicker5:           "10000000000000000000000",
		CreateTicker6:           "1000000000000000000000",
		CreateTicker7_10:        "100000000000000000000",
		CreateCoin:              "0",
		CreateToken:             "0",
		RecreateCoin:            "10000000000000000000000",
		RecreateToken:           "10000000000000000000000",
		DeclareCandidacy:        "10000000000000000000",
		Delegate:                "200000000000000000",
		Unbond:                  "200000000000000000",
		RedeemCheck:             "30000000000000000",
		SetCandidateOn:          "100000000000000000",
		SetCandidateOff:         "100000000000000000",
		CreateMultisig:          "100000000000000000",
		MultisendBase:           "10000000000000000",
		MultisendDelta:          "5000000000000000",
		EditCandidate:           "10000000000000000000",
		SetHaltBlock:            "1000000000000000000",
		EditTickerOwner:         "10000000000000000000000",
		EditMultisig:            "1000000000000000000",
		EditCandidatePublicKey:  "100000000000000000000000",
		CreateSwapPool:          "1000000000000000000",
		AddLiquidity:            "100000000000000000",
		RemoveLiquidity:         "100000000000000000",
		EditCandidateCommission: "10000000000000000000",
		BurnToken:               "100000000000000000",
		MintToken:               "100000000000000000",
		VoteCommission:          "1000000000000000000",
		VoteUpdate:              "1000000000000000000",
		FailedTx:                "10000000000000000",
		AddLimitOrder:           "100000000000000000",
		RemoveLimitOrder:        "100000000000000000",
		MoveStake:               "200000000000000000",
		LockStake:               "200000000000000000",
		Lock:                    "100000000000000000",
	}
}

// GenesisT0 is the time of InitChain in every generated history.
var GenesisT0 = time.Date(2022, 5, 1, 9, 0, 0, 0, time.UTC)

// Coin ids used by the generated genesis.
const (
	CoinA    = 1 // bancor coin
	CoinB    = 2 // bancor coin
	TokT     = 3 // token mintable/burnable
	TokU     = 4 // token, fixed
	CoinUSDT = 1993
)

// AllVersions is the "current" version history.
func AllVersions(h uint64) []types.Version {
	return []types.Version{{Height: h, Name: "v300"}, {Height: h, Name: "v310"}, {Height: h, Name: "v320"}, {Height: h, Name: "v330"}}
}

// BuildGenesis builds a genesis of the requested family. Deterministic in (spec, r).
func BuildGenesis(spec GenSpec, r *rand.Rand) (*types.AppState, *World) {
	if spec.Users == 0 {
		spec.Users = 12
	}
	if spec.Validators == 0 {
		spec.Validators = 4
	}
	if spec.InitialHeight == 0 {
		spec.InitialHeight = 1
	}
	w := &World{ValOwner: map[types.Pubkey]*Key{}, ValCtl: map[types.Pubkey]*Key{}, ChainID: types.CurrentChainID, InitialHeight: spec.InitialHeight}
	g := &gbuilder{bal: map[types.Address]map[uint64]*big.Int{}, nonce: map[types.Address]uint64{}, msig: map[types.Address]*types.Multisig{},
		lock: map[types.Address]uint64{}, vol: map[uint64]*big.Int{}, coins: map[uint64]*types.Coin{}}
	h0 := uint64(spec.InitialHeight - 1)

	for i := 0; i < spec.Users; i++ {
		k := NewKey("u", i)
		w.Users = append(w.Users, k)
		g.give(k.Addr, 0, Bip(int64(1000000+r.Intn(9000000))))
	}
	u := func(i int) *Key { return w.Users[i%len(w.Users)] }

	// coins
	crrs := []uint64{10, 50, 100, 25, 75}
	ownA, ownB, ownT, ownU, ownS := u(0).Addr, u(1).Addr, u(2).Addr, u(3).Addr, u(4).Addr
	g.addCoin(types.Coin{ID: CoinA, Name: "coin a", Symbol: types.StrToCoinSymbol("COINA"), Crr: crrs[r.Intn(len(crrs))], Reserve: Bip(int64(50000 + r.Intn(100000))).String(), MaxSupply: Bip(1000000000000).String(), OwnerAddress: &ownA})
	g.addCoin(types.Coin{ID: CoinB, Name: "coin b", Symbol: types.StrToCoinSymbol("COINBBB"), Crr: crrs[r.Intn(len(crrs))], Reserve: Bip(int64(20000 + r.Intn(50000))).String(), MaxSupply: Bip(1000000000000).String(), OwnerAddress: &ownB})
	g.addCoin(types.Coin{ID: TokT, Name: "token t", Symbol: types.StrToCoinSymbol("TOKT"), MaxSupply: Bip(1000000000000).String(), OwnerAddress: &ownT, Mintable: true, Burnable: true})
	g.addCoin(types.Coin{ID: TokU, Name: "token u", Symbol: types.StrToCoinSymbol("TOKUUU"), MaxSupply: Bip(1000000000000).String(), OwnerAddress: &ownU})
	if !spec.NoUSDT {
		g.addCoin(types.Coin{ID: CoinUSDT, Name: "usd", Symbol: types.StrToCoinSymbol("USDTE"), MaxSupply: Bip(1000000000000).String(), OwnerAddress: &ownS, Mintable: true, Burnable: true})
	}
	for i := 0; i < spec.Users; i++ {
		for _, c := range []uint64{CoinA, CoinB, TokT, TokU, CoinUSDT} {
			if c == CoinUSDT && spec.NoUSDT {
				continue
			}
			if r.Intn(4) != 0 {
				g.give(u(i).Addr, c, Bip(int64(1000+r.Intn(1000000))))
			}
		}
	}

	// multisigs
	mk := func(owners []*Key, weights []uint32, thr uint32, idx int) {
		var addrs []types.Address
		var w64 []uint64
		for i, o := range owners {
			addrs = append(addrs, o.Addr)
			w64 = append(w64, uint64(weights[i]))
		}
		ma := NewKey("msig", idx).Addr // any unique address works for an imported multisig
		g.msig[ma] = &types.Multisig{Weights: w64, Threshold: uint64(thr), Addresses: addrs}
		w.Multisigs = append(w.Multisigs, &MultisigAcc{Addr: ma, Owners: owners, Weights: weights, Threshold: thr})
		g.give(ma, 0, Bip(500000))
		g.give(ma, CoinA, Bip(50000))
		g.give(ma, TokT, Bip(50000))
	}
	if spec.Users >= 6 {
		mk([]*Key{u(0), u(1), u(2)}, []uint32{1, 1, 1}, 2, 0)
		mk([]*Key{u(3), u(4), u(5)}, []uint32{3, 5, 1}, 6, 1)
	}

	// pools; LP tokens get ids after the fixed ones
	lp := uint64(5)
	if spec.Filler || !spec.NoUSDT {
		lp = CoinUSDT + 1
	}
	if spec.Filler && !spec.NoUSDT {
		for id := uint64(5); id < CoinUSDT; id++ {
			o := ownS
			g.addCoin(types.Coin{ID: id, Name: "f", Symbol: types.StrToCoinSymbol(fmt.Sprintf("F%d", id)), MaxSupply: "1000000000000000000000000", OwnerAddress: &o, Mintable: true, Burnable: true})
		}
	}
	pid := uint64(0)
	newPool := func(c0, c1 uint64, r0, r1 *big.Int, owner types.Address) *types.Pool {
		pid++
		p := g.addPool(pid, c0, c1, r0, r1, lp, owner)
		lp++
		return p
	}
	if !spec.NoUSDT {
		// BIP/USDT: price around 0.001..0.01 USDT per BIP
		newPool(0, CoinUSDT, Bip(int64(10000000+r.Intn(10000000))), Bip(int64(20000+r.Intn(80000))), u(5).Addr)
	}
	pA := newPool(0, CoinA, Bip(int64(100000+r.Intn(900000))), Bip(int64(100000+r.Intn(900000))), u(6).Addr)
	pAT := newPool(CoinA, TokT, Bip(int64(10000+r.Intn(90000))), Bip(int64(10000+r.Intn(90000))), u(7).Addr)
	newPool(TokT, TokU, Bip(int64(10000+r.Intn(90000))), Bip(int64(10000+r.Intn(90000))), u(8).Addr)
	newPool(0, TokU, Bip(int64(100000+r.Intn(90000))), Bip(int64(10000+r.Intn(90000))), u(9).Addr)
	// a burnable/mintable token that can pay fees through its own BIP pool
	newPool(0, TokT, Bip(int64(100000+r.Intn(90000))), Bip(int64(10000+r.Intn(90000))), u(10).Addr)

	// orders around the pool price on both sides
	addOrders := func(p *types.Pool, n int) {
		r0, r1 := BI(p.Reserve0), BI(p.Reserve1)
		for i := 0; i < n; i++ {
			owner := u(r.Intn(spec.Users)).Addr
			sell := Bip(int64(10 + r.Intn(500)))
			// price factor 1.01..1.30 away from the pool price in the owner's favour
			f := int64(101 + r.Intn(30))
			if r.Intn(2) == 0 {
				// sells coin1 wanting coin0: wants sell*r0/r1*f/100
				buy := new(big.Int).Mul(sell, r0)
				buy.Div(buy, r1).Mul(buy, big.NewInt(f)).Div(buy, big.NewInt(100))
				g.addOrder(p, owner, p.Coin1, sell, buy, h0)
			} else {
				buy := new(big.Int).Mul(sell, r1)
				buy.Div(buy, r0).Mul(buy, big.NewInt(f)).Div(buy, big.NewInt(100))
				g.addOrder(p, owner, p.Coin0, sell, buy, h0)
			}
		}
	}
	addOrders(pA, spec.Orders)
	addOrders(pAT, spec.Orders)

	// candidates and validators
	nc := spec.Validators + spec.ExtraCands
	for i := 0; i < nc; i++ {
		vk := NewValKey("v", i)
		w.Vals = append(w.Vals, vk)
		owner, ctl := u(i), u(i+1)
		w.ValOwner[vk.Pub] = owner
		w.ValCtl[vk.Pub] = ctl
		c := types.Candidate{ID: uint64(i + 1), RewardAddress: u(i + 2).Addr, OwnerAddress: owner.Addr, ControlAddress: ctl.Addr, PubKey: vk.Pub,
			Commission: uint64([]int{0, 1, 10, 50, 99, 100}[r.Intn(6)]), Status: 2}
		var total = new(big.Int)
		add := func(o types.Address, coin uint64, v *big.Int) {
			for _, s := range c.Stakes {
				if s.Owner == o && s.Coin == coin {
					return
				}
			}
			c.Stakes = append(c.Stakes, types.Stake{Owner: o, Coin: coin, Value: v.String(), BipValue: v.String()})
			g.hold(coin, v)
			if coin == 0 {
				total.Add(total, v)
			}
		}
		if i < spec.Validators {
			add(owner.Addr, 0, Bip(int64(100000+r.Intn(900000))))
			for j := 0; j < 3; j++ {
				add(u(r.Intn(spec.Users)).Addr, 0, Bip(int64(1000+r.Intn(100000))))
			}
			if r.Intn(2) == 0 {
				add(u(r.Intn(spec.Users)).Addr, CoinA, Bip(int64(100+r.Intn(10000))))
			}
		} else {
			// extra candidates: small stakes, some offline
			if spec.ExtraCands > 50 {
				// crowded family: many exactly equal stakes, so that the 100-candidate cut falls inside a tie
				add(owner.Addr, 0, Bip(int64(1000+100*r.Intn(3))))
			} else {
				add(owner.Addr, 0, Bip(int64(500+r.Intn(3000))))
			}
			if r.Intn(2) == 0 {
				c.Status = 1
			}
		}
		if i == 0 && spec.BigDelegators > 0 {
			for j := 0; j < spec.BigDelegators; j++ {
				k := NewKey("d", j)
				add(k.Addr, 0, Bip(int64(100+10*j))) // sparse: an incoming delegation can fall between the two smallest stakes
			}
		}
		c.TotalBipStake = total.String()
		g.st.Candidates = append(g.st.Candidates, c)
		if i < spec.Validators {
			g.st.Validators = append(g.st.Validators, types.Validator{TotalBipStake: total.String(), PubKey: vk.Pub, AccumReward: "0", AbsentTimes: types.NewBitArray(24)})
		}
	}

	// waitlist entries (for owners that also hold a stake in the same candidate) and frozen funds of all three kinds
	if spec.Family != "c20" {
		for k := 0; k < 4 && len(g.st.Candidates) > 0; k++ {
			c := &g.st.Candidates[r.Intn(len(g.st.Candidates))]
			if len(c.Stakes) == 0 {
				continue
			}
			st := c.Stakes[r.Intn(len(c.Stakes))]
			dup := false
			for _, wl := range g.st.Waitlist {
				if wl.CandidateID == c.ID && wl.Owner == st.Owner && wl.Coin == st.Coin {
					dup = true
				}
			}
			if dup {
				continue
			}
			v := Bip(int64(10 + r.Intn(5000)))
			g.st.Waitlist = append(g.st.Waitlist, types.Waitlist{CandidateID: c.ID, Owner: st.Owner, Coin: st.Coin, Value: v.String()})
			g.hold(st.Coin, v)
		}
		for k := 0; k < 5 && len(g.st.Candidates) > 1; k++ {
			c := g.st.Candidates[r.Intn(len(g.st.Candidates))]
			key := c.PubKey
			ff := types.FrozenFund{Height: h0 + uint64(3+r.Intn(60)), Address: u(r.Intn(spec.Users)).Addr, CandidateKey: &key, CandidateID: c.ID,
				Coin: []uint64{0, 0, CoinA}[r.Intn(3)], Value: Bip(int64(1 + r.Intn(3000))).String()}
			switch r.Intn(3) {
			case 0: // a Lock-type fund: no candidate
				ff.CandidateKey, ff.CandidateID = nil, 0
				ff.Coin = []uint64{0, TokT, CoinA}[r.Intn(3)]
			case 1: // a pending move to another candidate
				to := g.st.Candidates[r.Intn(len(g.st.Candidates))]
				if to.ID != c.ID {
					ff.MoveToCandidateID = to.ID
				}
			}
			g.st.FrozenFunds = append(g.st.FrozenFunds, ff)
			g.hold(ff.Coin, BI(ff.Value))
		}
	}

	// finish coins: volume = holdings (bancor coins need volume>0 and a reserve)
	for _, id := range g.order {
		c := g.coins[id]
		v := g.vol[id]
		if v == nil {
			v = new(big.Int)
		}
		c.Volume = v.String()
	}
	sort.Slice(g.order, func(i, j int) bool { return g.order[i] < g.order[j] })
	for _, id := range g.order {
		g.st.Coins = append(g.st.Coins, *g.coins[id])
	}
	var addrs []types.Address
	for a := range g.bal {
		addrs = append(addrs, a)
	}
	for a := range g.msig {
		if _, ok := g.bal[a]; !ok {
			addrs = append(addrs, a)
		}
	}
	sort.Slice(addrs, func(i, j int) bool { return addrs[i].Compare(addrs[j]) < 0 })
	for _, a := range addrs {
		acc := types.Account{Address: a, Nonce: g.nonce[a], MultisigData: g.msig[a], LockStakeUntilBlock: g.lock[a]}
		var cs []uint64
		for c := range g.bal[a] {
			cs = append(cs, c)
		}
		sort.Slice(cs, func(i, j int) bool { return cs[i] < cs[j] })
		for _, c := range cs {
			if g.bal[a][c].Sign() > 0 {
				acc.Balance = append(acc.Balance, types.Balance{Coin: c, Value: g.bal[a][c].String()})
			}
		}
		g.st.Accounts = append(g.st.Accounts, acc)
	}
	for _, p := range g.pools {
		g.st.Pools = append(g.st.Pools, *p)
	}
	g.st.NextOrderID = g.nextOrd + 1
	g.st.Commission = DefaultCommission()
	g.st.MaxGas = 100000
	g.st.TotalSlashed = "0"
	g.st.Emission = spec.Emission
	if g.st.Emission == "" {
		g.st.Emission = Bip(6000000000).String()
	}
	g.st.Version = "v330"
	g.st.Versions = spec.Versions
	if g.st.Versions == nil {
		g.st.Versions = AllVersions(h0)
	}
	// previous reward-price record: taken one day before the chain's first block, at the genesis pool price
	g.st.PrevReward = types.RewardPrice{Time: uint64(GenesisT0.Add(-21 * time.Hour).UnixNano()), AmountBIP: Bip(1000000).String(), AmountUSDT: Bip(5000).String(), Reward: Bip(79).String()}
	for _, p := range g.pools {
		if p.Coin0 == 0 && p.Coin1 == CoinUSDT {
			g.st.PrevReward.AmountBIP, g.st.PrevReward.AmountUSDT = p.Reserve0, p.Reserve1
			if spec.Recovering > 0 {
				// validators' share k*10+3 BIP below the price-derived level: recovery completes at the (k+1)-th update without a new drop
				last := new(big.Int).Sub(priceReward(BI(p.Reserve0), BI(p.Reserve1)), Bip(int64(10*(spec.Recovering-1)+3)))
				if last.Sign() < 0 {
					last.SetInt64(0)
				}
				g.st.PrevReward.Reward, g.st.PrevReward.Off = last.String(), true
			}
		}
	}
	return &g.st, w
}

package h

import (
	"encoding/json"
	"fmt"
	"math/big"
	"strings"
	"time"

	tx "github.com/MinterTeam/minter-go-node/coreV2/transaction"
	"github.com/MinterTeam/minter-go-node/coreV2/types"
)

// rewardRef is the reference state machine of the daily reward-price rule (C28), written from the statement.
type rewardRef struct {
	t        time.Time
	r0, r1   *big.Int // BIP, USDT reserves at the last update
	last     *big.Int // validators' share
	off      bool
	price    *big.Int // price-derived reward (what is minted each block)
	haveLast bool
}

var emissionCap = BI("10000000000000000000000000000")

// priceReward computes floor(350e18 * (r1/r0)^(1/4)) with the independent high-precision root.
func priceReward(r0, r1 *big.Int) *big.Int {
	x := new(big.Float).SetPrec(1100).Quo(new(big.Float).SetPrec(1100).SetInt(r1), new(big.Float).SetPrec(1100).SetInt(r0))
	root := HPRoot(x, 4)
	root.Mul(root, new(big.Float).SetPrec(1100).SetInt(BI("350000000000000000000")))
	out, _ := root.Int(nil)
	return out
}

func closeEnough(got, exact *big.Int) bool {
	d := new(big.Int).Abs(new(big.Int).Sub(got, exact))
	tol := new(big.Int).Rsh(exact, 58) // the node forms the price ratio as a 64-bit big.Float (SetRat without precision): observed error up to 2^-64 relative
	tol.Add(tol, big.NewInt(2))
	return d.Cmp(tol) <= 0
}

// MonRewardRule implements C28.
type MonRewardRule struct {
	BaseMon
	Res      *WorkerResult
	ref      rewardRef
	reward   *big.Int // expected App().Reward() pair
	safe     *big.Int
	prevEm   *big.Int
	prevZero *big.Int
	first    int64
}

func (m *MonRewardRule) Name() string { return "C28" }

func (m *MonRewardRule) Init(s *Sim) {
	g := s.Gen
	m.ref = rewardRef{t: time.Unix(0, int64(g.PrevReward.Time)).UTC(), r0: BI(g.PrevReward.AmountBIP), r1: BI(g.PrevReward.AmountUSDT), last: BI(g.PrevReward.Reward), off: g.PrevReward.Off}
	m.reward, m.safe = BI(g.PrevReward.Reward), BI(g.PrevReward.Reward)
	m.prevEm = new(big.Int).Set(s.N.App.GetEmission())
	m.prevZero = new(big.Int).Set(s.N.App.CurrentState().Accounts().GetBalance(types.Address{}, 0))
	m.first = s.W.InitialHeight
}

func usdtReserves(e *types.AppState) (r0, r1 *big.Int) {
	if e == nil {
		return nil, nil
	}
	for _, p := range e.Pools {
		if p.Coin0 == 0 && p.Coin1 == CoinUSDT {
			return BI(p.Reserve0), BI(p.Reserve1)
		}
	}
	return nil, nil
}

func (m *MonRewardRule) rep(s *Sim, rule, site, detail string) {
	s.Report(Violation{Property: "C28", Rule: rule, Site: site, Height: s.H, TxIndex: -1, Detail: detail})
}

func (m *MonRewardRule) AfterBlock(s *Sim, req *BlockReq, res *BlockRes) {
	if res.Stopped || s.Pre == nil || s.Post == nil {
		return
	}
	h := req.Height
	period := int64(s.Opts.StakePeriod)
	em := new(big.Int).Set(s.N.App.GetEmission())
	zero := new(big.Int).Set(s.N.App.CurrentState().Accounts().GetBalance(types.Address{}, 0))
	defer func() { m.prevEm, m.prevZero = em, zero }()
	capped := m.prevEm.Cmp(emissionCap) >= 0
	// the events of this block
	var upd *struct{ Value, Locked string }
	for _, ev := range s.N.App.GetEventsDB().LoadEvents(uint32(h)) {
		if ev.Type() == "minter/UpdatedBlockRewardEvent" {
			bz, _ := json.Marshal(ev)
			var x struct {
				Value  string `json:"value"`
				Locked string `json:"value_locked_stake_rewards"`
			}
			_ = json.Unmarshal(bz, &x)
			upd = &struct{ Value, Locked string }{x.Value, x.Locked}
		}
	}
	r0, r1 := usdtReserves(s.Pre)
	hour := req.Time.UTC().Hour()
	due := !capped && h%period == 1 && hour >= 12 && hour <= 14 && req.Time.Sub(m.ref.t) > 3*time.Hour && r0 != nil
	cls := "no-update"
	if h == m.first {
		// the very first block still runs the pre-v320 rule (the version heights are "after"): not judged
		due = false
		if upd != nil {
			// resynchronise the reference from the node's record
			t, a, b, last, off := s.N.App.VerifAppDB().GetPrice()
			m.ref = rewardRef{t: t, r0: a, r1: b, last: last, off: off}
			m.reward, m.safe = s.N.App.CurrentState().App().Reward()
		}
		return
	}
	if capped {
		cls = "capped"
		m.reward, m.safe = big.NewInt(0), big.NewInt(0)
	}
	if due {
		price := priceReward(r0, r1)
		fNew := new(big.Rat).SetFrac(r1, r0)
		fOld := new(big.Rat).SetFrac(m.ref.r1, m.ref.r0)
		chg := new(big.Rat).Sub(fNew, fOld)
		chg.Quo(chg, fOld).Mul(chg, big.NewRat(100, 1))
		pct := new(big.Int).Div(chg.Num(), chg.Denom()) // floor (Euclidean division, positive denominator)
		last, off := new(big.Int).Set(m.ref.last), m.ref.off
		switch {
		case pct.Cmp(big.NewInt(-10)) <= 0:
			last, off = big.NewInt(0), true
			cls = fmt.Sprintf("update/drop(%s%%)=>validators-get-0", pct)
			if pct.Cmp(big.NewInt(-10)) == 0 {
				cls = "update/drop(exactly -10%)=>validators-get-0"
			}
		case off && last.Cmp(price) < 0:
			last.Add(last, Bip(10))
			if last.Cmp(price) >= 0 {
				last, off = new(big.Int).Set(price), false
				cls = "update/recovery-complete"
			} else {
				cls = "update/recovering(+10)"
			}
		default:
			last, off = new(big.Int).Set(price), false
			cls = "update/normal"
			if pct.Cmp(big.NewInt(-9)) == 0 {
				cls = "update/normal(-9%)"
			}
		}
		m.ref = rewardRef{t: req.Time.UTC(), r0: r0, r1: r1, last: last, off: off}
		m.reward, m.safe = new(big.Int).Set(last), price
		if upd == nil {
			m.rep(s, "update-missing", cls, fmt.Sprintf("height %d time %s: the rule requires a reward update (previous %s)", h, req.Time.UTC(), m.ref.t))
		}
	} else if upd != nil {
		m.rep(s, "unexpected-update", fmt.Sprintf("hour=%d period-start=%v", hour, h%period == 1), fmt.Sprintf("height %d time %s previous update %s: UpdatedBlockRewardEvent %+v", h, req.Time.UTC(), m.ref.t, *upd))
		// resynchronise
		t, a, b, last, off := s.N.App.VerifAppDB().GetPrice()
		m.ref = rewardRef{t: t, r0: a, r1: b, last: last, off: off}
		m.reward, m.safe = s.N.App.CurrentState().App().Reward()
	}
	gotR, gotS := s.N.App.CurrentState().App().Reward()
	if gotR == nil {
		gotR, gotS = big.NewInt(0), big.NewInt(0)
	}
	m.Res.Evaluations++
	m.Res.Seen(cls)
	if due {
		if gotR.Cmp(m.reward) != 0 && !(m.reward.Cmp(m.safe) == 0 && closeEnough(gotR, m.reward)) {
			m.rep(s, "validator-reward-wrong", cls, fmt.Sprintf("validators' reward %s, expected %s (price-derived %s)", gotR, m.reward, m.safe))
		}
		if !closeEnough(gotS, m.safe) {
			m.rep(s, "price-reward-wrong", cls, fmt.Sprintf("minted reward %s, expected 350*p^(1/4) = %s for reserves %s/%s", gotS, m.safe, r0, r1))
		}
		if upd != nil {
			if upd.Value != gotR.String() || upd.Locked != new(big.Int).Mul(gotS, big.NewInt(3)).String() {
				m.rep(s, "event-differs-from-state", cls, fmt.Sprintf("event %+v state %s/%s", *upd, gotR, gotS))
			}
		}
		// adopt the node's float result inside the tolerance so that later blocks compare exactly
		if closeEnough(gotS, m.safe) {
			if m.reward.Cmp(m.safe) == 0 {
				m.reward = new(big.Int).Set(gotS)
				m.ref.last = new(big.Int).Set(gotS)
			}
			m.safe = new(big.Int).Set(gotS)
		}
	} else if !capped && (gotR.Cmp(m.reward) != 0 || gotS.Cmp(m.safe) != 0) {
		m.rep(s, "reward-changed-without-update", fmt.Sprintf("period-start=%v", h%period == 1), fmt.Sprintf("reward %s/%s, expected unchanged %s/%s", gotR, gotS, m.reward, m.safe))
		m.reward, m.safe = gotR, gotS
	}
	// minting: while below the cap every block adds the price-derived reward to the emission (payout blocks may add the
	// locked-stake surplus on top); at or above the cap nothing is minted
	dE := new(big.Int).Sub(em, m.prevEm)
	payout := h%period == 0
	if capped {
		if dE.Sign() != 0 {
			m.rep(s, "minted-after-cap", "emission", fmt.Sprintf("emission %s -> %s with the cap reached", m.prevEm, em))
		}
		if gotR.Sign() != 0 {
			m.rep(s, "minted-after-cap", "reward", fmt.Sprintf("block reward %s with the cap reached", gotR))
		}
	} else {
		if (!payout && dE.Cmp(gotS) != 0) || (payout && dE.Cmp(gotS) < 0) {
			m.rep(s, "emission-step-wrong", fmt.Sprintf("payout=%v", payout), fmt.Sprintf("emission grew by %s, price-derived reward is %s", dE, gotS))
		}
		// the withheld part (price-derived minus validators' share) is burned to the zero address
		withheld := new(big.Int).Sub(gotS, gotR)
		dZ := new(big.Int).Sub(zero, m.prevZero)
		other := new(big.Int) // ticker fees burned in this block
		for i := range res.Deliver {
			if v, ok := Tags(&res.Deliver[i])["tx.burned_for_symbol"]; ok {
				other.Add(other, BI(v))
			}
		}
		if withheld.Sign() > 0 {
			m.Res.Seen("withheld-part-burned")
			if new(big.Int).Sub(dZ, other).Cmp(withheld) < 0 {
				m.rep(s, "withheld-not-burned", "zero-address", fmt.Sprintf("zero address grew by %s (ticker burns %s), withheld %s", dZ, other, withheld))
			}
		}
	}
	// the persisted record
	t, a, b, last, off := s.N.App.VerifAppDB().GetPrice()
	if !t.Equal(m.ref.t) || a.Cmp(m.ref.r0) != 0 || b.Cmp(m.ref.r1) != 0 || off != m.ref.off || (!closeEnough(last, m.ref.last) && !capped) {
		m.rep(s, "price-record-wrong", cls, fmt.Sprintf("record (%s %s %s %s %v) expected (%s %s %s %s %v)", t, a, b, last, off, m.ref.t, m.ref.r0, m.ref.r1, m.ref.last, m.ref.off))
		m.ref = rewardRef{t: t, r0: a, r1: b, last: last, off: off}
	}
}

func init() {
	mons := func(res *WorkerResult) []Monitor { return []Monitor{&MonRewardRule{Res: res}} }
	MonitorsFor["C28"] = mons
	Register(&CheckDef{
		ID: "C28", Level: "exploration",
		Rule: "generated histories with stake period 6 whose block times step through several days in jumps of 20 minutes to 6 hours (so that first-of-period blocks land inside and outside 12:00-14:59, less and more than 3 h after the previous update) while large aimed trades move the BIP/USDT pool price by about -9.9/-10/-10.1/-20/+x percent between updates and back; families: normal, capped (emission just below 10^10), bare (no BIP/USDT pool); a reference state machine written from the statement (exact rationals for the percentage, independent 1100-bit 4th root for 350*p^(1/4)) predicts for every block whether an update happens, the validators' share, the minted reward, the emission step, the burn of the withheld part and the persisted price record; one evaluation = one block judged; distinct = rule classes reached (no-update, normal, -9%, drop, exactly -10%, recovering, recovery-complete, capped, withheld-part-burned)",
		Assumptions: []string{"the first block of a chain is not judged (version heights are exclusive, it still runs the pre-v320 rule)", "the node's 100-bit float result is accepted within 2^-58 relative + 2 pip (the price ratio is a 64-bit big.Float in the node) and then adopted"},
		Quick: 36, Thorough: 360, MinEval: 3000, MinDistinct: 6,
		Run: func(ctx *WorkCtx, idx int) {
			r := Rng(ctx.Seed, "C28", idx)
			sc := StdScenario(idx, r, 220)
			sc.Opts.StakePeriod = 6
			switch idx % 6 {
			case 4:
				sc.Spec.Emission = "9999999000000000000000000000" // reaches the cap during the history
			case 5:
				sc.Spec.NoUSDT = true
			case 1, 3:
				// recovery under way at genesis: completes after 1..4 quiet updates (lead: added after seed C28-m1, recoveries from zero need ~10 updates and were rarely completed)
				sc.Spec.NoUSDT = false
				sc.Spec.Recovering = 1 + (idx/6)%4
			default:
				sc.Spec.NoUSDT = false
				if sc.Spec.Emission != "" && idx%10 == 5 {
					sc.Spec.Emission = ""
				}
			}
			s, d := sc.Build("C28", ctx.Seed, idx, r, mons(ctx.Res)...)
			d.MaxTxs = 2
			d.PAbsent, d.PAbsentRun, d.PByz = 0, 0, 0
			d.G.SetWeight(TxT(0x11), 0) // keep the USDT token's owner and pool stable
			var pending *TxSpec
			nextMove := 0
			moves := []float64{0.0541, 0.0545, 0.056, 0.12, 0.02, 0.053}
			for b := 0; b < sc.Blocks && !s.Dead && !s.Stopped; b++ {
				req := d.NextReq()
				req.Time = s.T.Add(time.Duration(20+r.Intn(340)) * time.Minute)
				// aimed trades on the BIP/USDT pool: push the price down by a chosen fraction, later bring it back
				pending = nil
				quiet := sc.Spec.Recovering > 0 && b < 110 // no aimed price moves while the genesis recovery runs
				if r0, r1 := usdtReserves(s.Post); r0 != nil && r.Intn(3) == 0 && !quiet {
					var rich *Key
					for _, k := range s.W.Users {
						if s.N.App.CurrentState() != nil && s.N.App.CurrentState().Accounts().GetBalance(k.Addr, 0).Cmp(new(big.Int).Div(r0, big.NewInt(7))) > 0 {
							rich = k
							break
						}
					}
					if rich != nil {
						f := moves[nextMove%len(moves)]
						nextMove++
						if r.Intn(2) == 0 {
							amt, _ := new(big.Float).Mul(new(big.Float).SetInt(r0), big.NewFloat(f)).Int(nil)
							pending = &TxSpec{ChainID: types.CurrentChainID, GasPrice: 1, Type: tx.TypeSellSwapPool, Signer: rich,
								Data: tx.SellSwapPoolDataV260{Coins: []types.CoinID{0, CoinUSDT}, ValueToSell: amt, MinimumValueToBuy: big.NewInt(1)}}
						} else if ub := s.N.App.CurrentState().Accounts().GetBalance(rich.Addr, CoinUSDT); ub.Sign() > 0 {
							amt, _ := new(big.Float).Mul(new(big.Float).SetInt(r1), big.NewFloat(f)).Int(nil)
							if amt.Cmp(ub) > 0 {
								amt = ub
							}
							pending = &TxSpec{ChainID: types.CurrentChainID, GasPrice: 1, Type: tx.TypeSellSwapPool, Signer: rich,
								Data: tx.SellSwapPoolDataV260{Coins: []types.CoinID{CoinUSDT, 0}, ValueToSell: amt, MinimumValueToBuy: big.NewInt(1)}}
						}
					}
				}
				n := r.Intn(d.MaxTxs + 1)
				aimed := pending
				s.RunBlock(req, nil, func(i int) ([]byte, TxMeta, bool) {
					if i > 0 {
						pr := s.CurRes.Deliver[i-1]
						d.G.Learn(&s.Metas[i-1], pr.Code, Tags(&pr))
					}
					if aimed != nil {
						sp := aimed
						aimed = nil
						sp.Nonce = s.N.App.CurrentState().Accounts().GetNonce(sp.Signer.Addr) + 1
						return sp.Encode(), TxMeta{Type: byte(sp.Type), Sender: strings.TrimPrefix(sp.Signer.Addr.String(), "Mx"), Nonce: sp.Nonce, GasPrice: 1, Kind: "valid", Note: "aimed-price-move", Chain: byte(types.CurrentChainID)}, true
					}
					if i > n {
						return nil, TxMeta{}, false
					}
					bz, mt := d.G.Next()
					return bz, mt, true
				})
			}
			ctx.Res.Count("blocks", s.H-s.W.InitialHeight+1)
			ctx.Res.Count("family/"+sc.Family, 1)
			ctx.Collect(s, idx)
			s.Finish()
		},
	})
}

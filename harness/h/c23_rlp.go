package h

// Independent RLP model for C23: an item tree with a strict (canonical-only) parser, an encoder that can also
// produce non-canonical forms, and a type-directed conformance check.  Nothing here calls /repo/rlp.

import (
	"errors"
	"math/big"
	"math/rand"
	"reflect"
	"strings"
)

type rl struct {
	list     bool
	b        []byte // string content; payload of a list when rawList
	kids     []*rl
	wrap     *rl // a string whose content is the encoding of wrap
	lenBytes int // 0 = canonical header; k>0 = long form with exactly k length bytes
	force81  bool
	rawList  bool
	declared int // >0: the header declares this payload length (lying header)
}

func rlStr(b []byte) *rl   { return &rl{b: append([]byte{}, b...)} }
func rlInt(x *big.Int) *rl { return &rl{b: x.Bytes()} }
func rlList(k ...*rl) *rl  { return &rl{list: true, kids: k} }

func (x *rl) clone() *rl {
	if x == nil {
		return nil
	}
	y := *x
	y.b = append([]byte{}, x.b...)
	y.kids = make([]*rl, len(x.kids))
	for i, k := range x.kids {
		y.kids[i] = k.clone()
	}
	y.wrap = x.wrap.clone()
	return &y
}

func rlHeader(base byte, n, lenBytes int) []byte {
	if lenBytes == 0 {
		if n < 56 {
			return []byte{base + byte(n)}
		}
		lb := big.NewInt(int64(n)).Bytes()
		return append([]byte{base + 55 + byte(len(lb))}, lb...)
	}
	lb := make([]byte, lenBytes)
	v := uint64(n)
	for i := lenBytes - 1; i >= 0; i-- {
		lb[i] = byte(v)
		v >>= 8
	}
	return append([]byte{base + 55 + byte(lenBytes)}, lb...)
}

func (x *rl) payload() []byte {
	if x.list {
		if x.rawList {
			return x.b
		}
		var p []byte
		for _, k := range x.kids {
			p = append(p, k.enc()...)
		}
		return p
	}
	if x.wrap != nil {
		return x.wrap.enc()
	}
	return x.b
}

func (x *rl) enc() []byte {
	p := x.payload()
	base := byte(0x80)
	if x.list {
		base = 0xc0
	}
	if !x.list && len(p) == 1 && p[0] < 0x80 && !x.force81 && x.lenBytes == 0 && x.declared == 0 {
		return []byte{p[0]}
	}
	n := len(p)
	if x.declared > 0 {
		n = x.declared
	}
	return append(rlHeader(base, n, x.lenBytes), p...)
}

var errRl = errors.New("not canonical rlp")

func rlLen(b []byte, ll int) (int, bool) {
	if len(b) < 1+ll || b[1] == 0 || ll > 4 {
		return 0, false
	}
	n := 0
	for _, c := range b[1 : 1+ll] {
		n = n<<8 | int(c)
	}
	return n, n >= 56
}

// rlParse parses exactly one canonical item at the start of b.
func rlParse(b []byte, depth int) (*rl, int, error) {
	if len(b) == 0 || depth > 200 {
		return nil, 0, errRl
	}
	c := b[0]
	var off, n int
	list := false
	switch {
	case c < 0x80:
		return &rl{b: []byte{c}}, 1, nil
	case c < 0xb8:
		off, n = 1, int(c-0x80)
	case c < 0xc0:
		ll := int(c - 0xb7)
		v, ok := rlLen(b, ll)
		if !ok {
			return nil, 0, errRl
		}
		off, n = 1+ll, v
	case c < 0xf8:
		off, n, list = 1, int(c-0xc0), true
	default:
		ll := int(c - 0xf7)
		v, ok := rlLen(b, ll)
		if !ok {
			return nil, 0, errRl
		}
		off, n, list = 1+ll, v, true
	}
	if len(b) < off+n {
		return nil, 0, errRl
	}
	p := b[off : off+n]
	if !list {
		if n == 1 && p[0] < 0x80 {
			return nil, 0, errRl
		}
		return &rl{b: append([]byte{}, p...)}, off + n, nil
	}
	x := &rl{list: true}
	for len(p) > 0 {
		k, used, err := rlParse(p, depth+1)
		if err != nil {
			return nil, 0, err
		}
		x.kids = append(x.kids, k)
		p = p[used:]
	}
	return x, off + n, nil
}

// rlParseAll parses b as exactly one canonical item without trailing bytes.
func rlParseAll(b []byte) (*rl, error) {
	x, n, err := rlParse(b, 0)
	if err != nil {
		return nil, err
	}
	if n != len(b) {
		return nil, errRl
	}
	return x, nil
}

var bigIntType = reflect.TypeOf(big.Int{})

// rlConforms checks the canonical-value rules of a decoded Go type against the item tree: integers without
// leading zeros and within their width, booleans 0/1, fixed arrays of exact size, structs with exactly their
// exported fields (a `rlp:"tail"` slice takes the rest).  Returns "" or the reason.
func rlConforms(x *rl, t reflect.Type) string {
	if t == bigIntType {
		if x.list {
			return "big.Int is a list"
		}
		if len(x.b) > 0 && x.b[0] == 0 {
			return "big.Int with leading zero"
		}
		return ""
	}
	switch t.Kind() {
	case reflect.Ptr:
		return rlConforms(x, t.Elem())
	case reflect.Uint8, reflect.Uint16, reflect.Uint32, reflect.Uint64, reflect.Uint:
		if x.list {
			return "uint is a list"
		}
		if len(x.b) > t.Bits()/8 {
			return "uint too wide"
		}
		if len(x.b) > 0 && x.b[0] == 0 {
			return "uint with leading zero"
		}
		return ""
	case reflect.Bool:
		if x.list || len(x.b) > 1 || (len(x.b) == 1 && x.b[0] != 1) {
			return "bool not 0/1"
		}
		return ""
	case reflect.String:
		if x.list {
			return "string is a list"
		}
		return ""
	case reflect.Slice, reflect.Array:
		if t.Elem().Kind() == reflect.Uint8 {
			if x.list {
				return "bytes is a list"
			}
			if t.Kind() == reflect.Array && len(x.b) != t.Len() {
				return "byte array of wrong size"
			}
			return ""
		}
		if !x.list {
			return "slice is a string"
		}
		if t.Kind() == reflect.Array && len(x.kids) != t.Len() {
			return "array of wrong size"
		}
		for _, k := range x.kids {
			if r := rlConforms(k, t.Elem()); r != "" {
				return r
			}
		}
		return ""
	case reflect.Struct:
		if !x.list {
			return "struct is a string"
		}
		i := 0
		for f := 0; f < t.NumField(); f++ {
			sf := t.Field(f)
			if sf.PkgPath != "" {
				continue
			}
			tag := sf.Tag.Get("rlp")
			if tag == "-" {
				continue
			}
			if strings.Contains(tag, "tail") {
				for ; i < len(x.kids); i++ {
					if r := rlConforms(x.kids[i], sf.Type.Elem()); r != "" {
						return r
					}
				}
				return ""
			}
			if i >= len(x.kids) {
				return "struct with too few elements"
			}
			if r := rlConforms(x.kids[i], sf.Type); r != "" {
				return sf.Name + ": " + r
			}
			i++
		}
		if i != len(x.kids) {
			return "struct with too many elements"
		}
		return ""
	}
	return "unsupported kind " + t.Kind().String()
}

// rlNodes lists all nodes of the tree (through wraps) with their parents.
type rlRef struct {
	n, parent *rl
	idx       int
}

func rlNodes(x *rl, parent *rl, idx int, out *[]rlRef) {
	*out = append(*out, rlRef{x, parent, idx})
	if x.wrap != nil {
		rlNodes(x.wrap, nil, 0, out)
	}
	for i, k := range x.kids {
		rlNodes(k, x, i, out)
	}
}

var (
	c23N, _   = new(big.Int).SetString("fffffffffffffffffffffffffffffffebaaedce6af48a03bbfd25e8cd0364141", 16)
	c23HalfN  = new(big.Int).Rsh(c23N, 1)
	c23Two256 = new(big.Int).Lsh(big.NewInt(1), 256)
)

// rlMutate applies one structure-aware mutation in place and names its class. trailing != nil must be appended
// to the encoding by the caller.
func rlMutate(r *rand.Rand, root *rl) (class string, trailing []byte) {
	var nodes []rlRef
	rlNodes(root, nil, 0, &nodes)
	pick := func(f func(rlRef) bool) *rlRef {
		for try := 0; try < 30; try++ {
			c := nodes[r.Intn(len(nodes))]
			if f(c) {
				return &c
			}
		}
		return nil
	}
	isStr := func(c rlRef) bool { return !c.n.list && c.n.wrap == nil }
	isList := func(c rlRef) bool { return c.n.list }
	any := func(c rlRef) bool { return true }
	for {
		switch r.Intn(15) {
		case 0:
			c := pick(any)
			n := len(c.n.payload())
			min := len(big.NewInt(int64(n)).Bytes())
			if n == 0 {
				min = 1
			}
			c.n.lenBytes = min + r.Intn(3)
			if n >= 56 && c.n.lenBytes == min {
				c.n.lenBytes++
			}
			if c.n.lenBytes > 8 {
				c.n.lenBytes = 8
			}
			return "noncanon-length", nil
		case 1:
			if c := pick(func(c rlRef) bool { return isStr(c) && len(c.n.b) == 1 && c.n.b[0] < 0x80 }); c != nil {
				c.n.force81 = true
				return "noncanon-single-byte", nil
			}
		case 2:
			if c := pick(isStr); c != nil {
				c.n.b = append([]byte{0}, c.n.b...)
				return "leading-zero", nil
			}
		case 3:
			t := [][]byte{{0x80}, {0xc0}, {0x01}, {0x00}}[r.Intn(4)]
			if r.Intn(2) == 0 {
				t = make([]byte, 1+r.Intn(8))
				r.Read(t)
			}
			return "trailing-bytes", t
		case 4:
			if c := pick(isList); c != nil && !c.n.rawList {
				extra := []*rl{rlStr(nil), rlStr([]byte{1}), rlList(), rlStr([]byte{0xaa, 0xbb})}[r.Intn(4)]
				pos := len(c.n.kids)
				if r.Intn(3) == 0 {
					pos = r.Intn(len(c.n.kids) + 1)
				}
				c.n.kids = append(c.n.kids[:pos], append([]*rl{extra}, c.n.kids[pos:]...)...)
				return "extra-element", nil
			}
		case 5:
			if c := pick(func(c rlRef) bool { return c.n.list && len(c.n.kids) > 0 }); c != nil {
				i := r.Intn(len(c.n.kids))
				c.n.kids = append(c.n.kids[:i], c.n.kids[i+1:]...)
				return "drop-element", nil
			}
		case 6:
			if c := pick(func(c rlRef) bool { return c.n.list && len(c.n.kids) > 0 }); c != nil {
				i := r.Intn(len(c.n.kids))
				c.n.kids = append(c.n.kids[:i], append([]*rl{c.n.kids[i].clone()}, c.n.kids[i:]...)...)
				return "dup-element", nil
			}
		case 7:
			if c := pick(func(c rlRef) bool { return c.n.list && len(c.n.kids) > 1 }); c != nil {
				i, j := r.Intn(len(c.n.kids)), r.Intn(len(c.n.kids))
				if i != j {
					c.n.kids[i], c.n.kids[j] = c.n.kids[j], c.n.kids[i]
					return "swap-elements", nil
				}
			}
		case 8:
			if c := pick(isStr); c != nil {
				v := [][]byte{{}, {0}, {0, 0}, {0x7f}, {0x80}, {0xff, 0xff, 0xff, 0xff, 0xff, 0xff, 0xff, 0xff},
					new(big.Int).Lsh(big.NewInt(1), 64).Bytes(), new(big.Int).Lsh(big.NewInt(1), 32).Bytes(), c23Two256.Bytes(),
					new(big.Int).Sub(c23Two256, big.NewInt(1)).Bytes(), {1}, {0xff}}
				c.n.b = append([]byte{}, v[r.Intn(len(v))]...)
				return "integer-edge", nil
			}
		case 9:
			if c := pick(func(c rlRef) bool { return isStr(c) && len(c.n.b) > 0 }); c != nil {
				switch r.Intn(3) {
				case 0:
					c.n.b = c.n.b[:len(c.n.b)-1]
				case 1:
					c.n.b = c.n.b[1:]
				default:
					c.n.b = append(c.n.b, byte(r.Intn(256)))
				}
				return "resize", nil
			}
		case 10:
			c := pick(any)
			inner := *c.n
			depth := 1 + r.Intn(3)
			if r.Intn(8) == 0 {
				depth = 40 + r.Intn(100)
			}
			cur := &inner
			for d := 0; d < depth; d++ {
				cur = rlList(cur)
			}
			*c.n = *cur
			return "nest", nil
		case 11:
			c := pick(any)
			p := c.n.payload()
			if c.n.list {
				*c.n = rl{b: append([]byte{}, p...)}
				return "list-as-string", nil
			}
			*c.n = rl{list: true, rawList: true, b: append([]byte{}, p...)}
			return "string-as-list", nil
		case 12:
			c := pick(any)
			if r.Intn(2) == 0 {
				*c.n = rl{}
			} else {
				*c.n = rl{list: true}
			}
			return "empty", nil
		case 13:
			c := pick(any)
			c.n.declared = len(c.n.payload()) + 1 + r.Intn(300)
			if r.Intn(4) == 0 {
				c.n.declared = 1 << uint(16+r.Intn(14))
			}
			return "lying-length", nil
		case 14:
			if c := pick(func(c rlRef) bool { return isStr(c) && len(c.n.b) > 0 }); c != nil {
				c.n.b[r.Intn(len(c.n.b))] ^= 1 << uint(r.Intn(8))
				return "value-bitflip", nil
			}
		}
	}
}

// rlRandom builds a random canonical tree (for random inputs that at least parse as RLP).
func rlRandom(r *rand.Rand, depth int) *rl {
	if depth > 3 || r.Intn(3) != 0 {
		b := make([]byte, []int{0, 1, 1, 2, 4, 20, 32, 33, 65, 100}[r.Intn(10)])
		r.Read(b)
		return rlStr(b)
	}
	x := rlList()
	for i := r.Intn(12); i > 0; i-- {
		x.kids = append(x.kids, rlRandom(r, depth+1))
	}
	return x
}

package h

// C23 (c): recorded corpus and the second-build comparison (pure-Go crypto build, -asan build).

import (
	"bufio"
	"encoding/hex"
	"encoding/json"
	"fmt"
	"os"
	"os/exec"
	"path/filepath"
	"runtime"
	"sort"
	"strings"
	"sync"
)

type c23Rec struct {
	K string     `json:"k"` // tx | check | raw
	I string     `json:"i"` // input (raw: hash)
	G string     `json:"g,omitempty"`
	V C23Verdict `json:"v"`
}

type c23Corpus struct {
	on bool
	f  *os.File
	w  *bufio.Writer
	n  int
}

func c23CorpusWanted(ctx *WorkCtx, idx int) bool {
	if os.Getenv("VERIF_NOCGO_BIN") != "" || os.Getenv("VERIF_ASAN_BIN") != "" || os.Getenv("VERIF_C23_CORPUS") != "" {
		return true
	}
	return ctx.Thorough() && idx%4 == 0
}

func newC23Corpus(ctx *WorkCtx, idx int) *c23Corpus {
	c := &c23Corpus{}
	if !c23CorpusWanted(ctx, idx) {
		return c
	}
	dir := os.Getenv("VERIF_C23_CORPUS_DIR")
	if dir == "" {
		base := ctx.TmpDir
		if base == "" {
			base = os.TempDir()
		} else {
			base = filepath.Dir(base) // the parent's scratch directory outlives the worker's
		}
		dir = filepath.Join(base, "c23corpus")
	}
	if err := os.MkdirAll(dir, 0o755); err != nil {
		ctx.Res.Notes = append(ctx.Res.Notes, "c23: cannot create corpus dir: "+err.Error())
		return c
	}
	f, err := os.Create(filepath.Join(dir, fmt.Sprintf("case-%d-%d.jsonl", ctx.Seed, idx)))
	if err != nil {
		ctx.Res.Notes = append(ctx.Res.Notes, "c23: cannot create corpus file: "+err.Error())
		return c
	}
	c.on, c.f, c.w = true, f, bufio.NewWriterSize(f, 1<<16)
	note := "c23corpus=" + dir
	for _, n := range ctx.Res.Notes {
		if n == note {
			return c
		}
	}
	ctx.Res.Notes = append(ctx.Res.Notes, note)
	return c
}

func (c *c23Corpus) add(kind string, in, sig []byte, v C23Verdict) {
	if c == nil || !c.on {
		return
	}
	rec := c23Rec{K: kind, I: hex.EncodeToString(in), V: v}
	if sig != nil {
		rec.G = hex.EncodeToString(sig)
	}
	bz, _ := json.Marshal(rec)
	c.w.Write(bz)
	c.w.WriteByte('\n')
	c.n++
}

func (c *c23Corpus) close() {
	if c != nil && c.on {
		c.w.Flush()
		c.f.Close()
	}
}

func c23JudgeRec(rec *c23Rec) (C23Verdict, error) {
	in, err := hex.DecodeString(rec.I)
	if err != nil {
		return C23Verdict{}, err
	}
	switch rec.K {
	case "tx":
		v, _ := C23JudgeTx(in)
		return v, nil
	case "check":
		v, _ := C23JudgeCheck(in)
		return v, nil
	case "raw":
		sig, err := hex.DecodeString(rec.G)
		if err != nil {
			return C23Verdict{}, err
		}
		return C23JudgeRaw(in, sig), nil
	}
	return C23Verdict{}, fmt.Errorf("unknown kind %q", rec.K)
}

// C23RejudgeMain is the main of the second-build binary.
func C23RejudgeMain(args []string) int {
	if len(args) >= 3 && args[0] == "judge" {
		rec := &c23Rec{K: args[1], I: args[2]}
		if len(args) > 3 {
			rec.G = args[3]
		}
		v, err := c23JudgeRec(rec)
		if err != nil {
			fmt.Println(err)
			return 2
		}
		fmt.Println(v)
		return 0
	}
	if len(args) != 2 || args[0] != "rejudge" {
		fmt.Fprintln(os.Stderr, "usage: c23nocgo rejudge <corpus.jsonl> | judge tx|check|raw <hex> [<sig hex>]")
		return 2
	}
	f, err := os.Open(args[1])
	if err != nil {
		fmt.Fprintln(os.Stderr, err)
		return 2
	}
	defer f.Close()
	sc := bufio.NewScanner(f)
	sc.Buffer(make([]byte, 1<<20), 1<<26)
	out := bufio.NewWriter(os.Stdout)
	defer out.Flush()
	n := 0
	for sc.Scan() {
		var rec c23Rec
		if err := json.Unmarshal(sc.Bytes(), &rec); err != nil {
			fmt.Fprintln(os.Stderr, "bad record:", err)
			return 2
		}
		// the input goes out before the call: a sanitizer report / crash kills the process
		fmt.Fprintf(os.Stderr, "rec %d %s %s %s\n", n, rec.K, rec.I, rec.G)
		v, err := c23JudgeRec(&rec)
		if err != nil {
			fmt.Fprintln(os.Stderr, "bad record:", err)
			return 2
		}
		if v.String() != rec.V.String() {
			bz, _ := json.Marshal(map[string]interface{}{"n": n, "rec": rec, "here": v})
			fmt.Fprintf(out, "MISMATCH %s\n", bz)
		}
		n++
	}
	fmt.Fprintf(out, "DONE %d\n", n)
	return 0
}

func c23GoEnv(cgo string) []string {
	return append(os.Environ(), "CGO_ENABLED="+cgo, "GOFLAGS=-mod=mod", "GOPROXY=off", "GOSUMDB=off", "GOTOOLCHAIN=local")
}

// c23SecondBinary finds or builds the second-build binary. mode: nocgo | asan.
func c23SecondBinary(mode string) (string, string) {
	envName := map[string]string{"nocgo": "VERIF_NOCGO_BIN", "asan": "VERIF_ASAN_BIN"}[mode]
	if p := os.Getenv(envName); p != "" {
		if _, err := os.Stat(p); err != nil {
			return "", envName + " does not exist: " + p
		}
		return p, ""
	}
	if os.Getenv("VERIF_TIER") != "thorough" {
		return "", "only built in the thorough tier (or given by " + envName + ")"
	}
	if mode == "asan" && os.Getenv("VERIF_C23_ASAN") == "0" {
		return "", "disabled by VERIF_C23_ASAN=0"
	}
	goBin, err := exec.LookPath("go")
	if err != nil {
		return "", "no go toolchain to build it"
	}
	vd := os.Getenv("VERIF_DIR")
	if vd == "" {
		vd = "/verif"
	}
	self, _ := os.Executable()
	out := filepath.Join(filepath.Dir(self), "c23"+mode)
	args := []string{"build", "-tags", "verif", "-o", out}
	cgo := "0"
	if mode == "asan" {
		args = append(args, "-asan")
		cgo = "1"
	}
	args = append(args, "./cmd/c23nocgo")
	cmd := exec.Command(goBin, args...)
	cmd.Dir = filepath.Join(vd, "harness")
	cmd.Env = c23GoEnv(cgo)
	if bz, err := cmd.CombinedOutput(); err != nil {
		msg := strings.TrimSpace(string(bz))
		if len(msg) > 300 {
			msg = msg[len(msg)-300:]
		}
		return "", "build failed: " + err.Error() + ": " + msg
	}
	return out, ""
}

func c23MismatchSite(rec *c23Rec, here C23Verdict) string {
	switch rec.K {
	case "raw":
		sig, _ := hex.DecodeString(rec.G)
		switch {
		case len(sig) != 65:
			return "ecrecover/signature-length"
		case sig[64] >= 4:
			return "ecrecover/recid>=4"
		case sig[64] >= 2:
			return "ecrecover/recid-2-3"
		}
		return "ecrecover/other"
	case "check":
		a, b := rec.V, here
		a.LockPub, b.LockPub = "", ""
		if a.String() == b.String() {
			return "check/lock"
		}
		return "check/sender"
	}
	return "tx/sender"
}

// c23Post runs the recorded corpus through the second builds (parent process, after all workers).
func c23Post(total *WorkerResult) {
	dir := ""
	var notes []string
	for _, n := range total.Notes {
		if strings.HasPrefix(n, "c23corpus=") {
			dir = strings.TrimPrefix(n, "c23corpus=")
		} else {
			notes = append(notes, n)
		}
	}
	total.Notes = notes
	if dir == "" {
		if os.Getenv("VERIF_TIER") == "thorough" {
			total.Inconcl = append(total.Inconcl, "cgo vs pure-Go comparison not run: no corpus was recorded")
		}
		return
	}
	files, _ := filepath.Glob(filepath.Join(dir, "*.jsonl"))
	sort.Strings(files)
	if len(files) == 0 {
		// never silent: a corpus directory without files means the second builds judged nothing
		total.Inconcl = append(total.Inconcl, "cgo vs pure-Go / asan comparison not run: the corpus directory "+dir+" holds no files")
		return
	}
	for _, mode := range []string{"nocgo", "asan"} {
		bin, why := c23SecondBinary(mode)
		if bin == "" {
			if mode == "nocgo" || os.Getenv("VERIF_TIER") == "thorough" {
				total.Inconcl = append(total.Inconcl, fmt.Sprintf("%s pass over the recorded corpus not run: %s", mode, why))
			}
			continue
		}
		var mu sync.Mutex
		var wg sync.WaitGroup
		jobs := make(chan string, len(files))
		for _, f := range files {
			jobs <- f
		}
		close(jobs)
		nw := runtime.NumCPU() - 2
		if nw < 1 {
			nw = 1
		}
		listed := map[string]int{}
		for w := 0; w < nw; w++ {
			wg.Add(1)
			go func() {
				defer wg.Done()
				for f := range jobs {
					cmd := exec.Command(bin, "rejudge", f)
					cmd.Env = append(os.Environ(), "ASAN_OPTIONS=detect_leaks=0:abort_on_error=0")
					errf := f + "." + mode + ".err"
					ef, _ := os.Create(errf)
					cmd.Stderr = ef
					outb, err := cmd.Output()
					ef.Close()
					mu.Lock()
					done := false
					for _, l := range strings.Split(string(outb), "\n") {
						if strings.HasPrefix(l, "DONE ") {
							done = true
							var n int64
							fmt.Sscanf(l, "DONE %d", &n)
							total.Counters[mode+"_records_compared"] += n
							total.Evaluations += n
						}
						if strings.HasPrefix(l, "MISMATCH ") {
							var m struct {
								N    int        `json:"n"`
								Rec  c23Rec     `json:"rec"`
								Here C23Verdict `json:"here"`
							}
							if json.Unmarshal([]byte(strings.TrimPrefix(l, "MISMATCH ")), &m) != nil {
								continue
							}
							total.Counters[mode+"_mismatches"]++
							site := c23MismatchSite(&m.Rec, m.Here)
							listed[site]++
							path := ""
							if listed[site] <= 3 {
								vd := os.Getenv("VERIF_DIR")
								if vd == "" {
									vd = "/verif"
								}
								_ = os.MkdirAll(filepath.Join(vd, "replays"), 0o755)
								path = filepath.Join(vd, "replays", fmt.Sprintf("C23-%s-%s-%d.json", mode, strings.TrimSuffix(filepath.Base(f), ".jsonl"), m.N))
								bz, _ := json.MarshalIndent(map[string]interface{}{"record": m.Rec, "cgo_verdict": m.Rec.V, mode + "_verdict": m.Here,
									"replay_with": "c23nocgo judge " + m.Rec.K + " " + m.Rec.I + " " + m.Rec.G + "   (in both builds)"}, "", " ")
								_ = os.WriteFile(path, bz, 0o644)
							}
							total.Violations = append(total.Violations, ReportedViol{Violation: Violation{Property: "C23", Rule: "cgo-vs-" + mode, Site: site,
								Detail: fmt.Sprintf("%s input %s %s: cgo build %s, %s build %s", m.Rec.K, m.Rec.I, m.Rec.G, m.Rec.V, mode, m.Here), TxIndex: -1}, Replay: path})
						}
					}
					if !done {
						tail := TailFile(errf, 3000)
						vd := os.Getenv("VERIF_DIR")
						if vd == "" {
							vd = "/verif"
						}
						_ = os.MkdirAll(filepath.Join(vd, "replays"), 0o755)
						path := filepath.Join(vd, "replays", fmt.Sprintf("C23-%s-died-%s.log", mode, strings.TrimSuffix(filepath.Base(f), ".jsonl")))
						_ = os.WriteFile(path, []byte(tail), 0o644)
						site := "process-died"
						if strings.Contains(tail, "AddressSanitizer") {
							site = "asan-report"
						}
						total.Violations = append(total.Violations, ReportedViol{Violation: Violation{Property: "C23", Rule: "second-build-" + mode, Site: site,
							Detail: fmt.Sprintf("%s pass died on %s (err %v); last input: %s", mode, filepath.Base(f), err, LastRec(tail)), TxIndex: -1}, Replay: path})
					}
					_ = os.Remove(errf)
					mu.Unlock()
				}
			}()
		}
		wg.Wait()
		total.Counters[mode+"_corpus_files"] += int64(len(files))
		total.Distinct["second-build/"+mode]++
	}
}

// LastRec returns the last "rec ..." line of a stderr tail.
func LastRec(tail string) string {
	last := "?"
	for _, l := range strings.Split(tail, "\n") {
		if strings.HasPrefix(l, "rec ") {
			last = l
		}
	}
	if len(last) > 600 {
		last = last[:600]
	}
	return last
}

package h

import (
	"os"
	"fmt"
	"math/big"
	"sort"
	"strings"

	"github.com/MinterTeam/minter-go-node/coreV2/types"
)

// CompleteExport adds what `minter export` adds from the app DB (versions, emission, reward price record).
func CompleteExport(n *Node, e *types.AppState) {
	e.Versions = nil
	for _, v := range n.App.UpdateVersions() {
		e.Versions = append(e.Versions, types.Version{Height: v.Height, Name: v.Name})
	}
	e.Emission = n.App.GetEmission().String()
	t, r0, r1, reward, off := n.App.VerifAppDB().GetPrice()
	e.PrevReward = types.RewardPrice{Time: uint64(t.UTC().UnixNano()), AmountBIP: r0.String(), AmountUSDT: r1.String(), Off: off, Reward: reward.String()}
}

// derived values recomputed at import; a difference there is not a lost field
func derivedPath(l string) bool {
	return strings.Contains(l, "/bip_value:") || strings.Contains(l, "/total_bip_stake:") || strings.HasPrefix(l, "/max_gas:")
}

// mergeUpdates folds pending stake updates into the stakes of an export copy: import applies pending updates
// immediately (RecalculateStakes runs at import), which moves value between the two lists without changing it.
func mergeUpdates(e *types.AppState) *types.AppState {
	c := *e
	c.Candidates = nil
	for _, cand := range e.Candidates {
		nc := cand
		sum := map[string]*types.Stake{}
		var order []string
		for _, l := range [][]types.Stake{cand.Stakes, cand.Updates} {
			for _, st := range l {
				k := fmt.Sprintf("%s:%d", st.Owner.String(), st.Coin)
				if x, ok := sum[k]; ok {
					x.Value = new(big.Int).Add(BI(x.Value), BI(st.Value)).String()
				} else {
					cp := st
					sum[k] = &cp
					order = append(order, k)
				}
			}
		}
		nc.Stakes, nc.Updates = nil, nil
		for _, k := range order {
			if BI(sum[k].Value).Sign() == 0 {
				continue // an empty entry carries no value; import drops it
			}
			nc.Stakes = append(nc.Stakes, *sum[k])
		}
		c.Candidates = append(c.Candidates, nc)
	}
	return &c
}

func stakingPath(l string) bool {
	for _, p := range []string{"/candidates[", "/block_list_candidates[", "/deleted_candidates[", "/frozen_funds[", "/waitlist["} {
		if strings.HasPrefix(l, p) {
			return true
		}
	}
	return false
}

// MonGenesis implements C11.
type MonGenesis struct {
	BaseMon
	Res     *WorkerResult
	Heights map[int64]bool // export heights
	Follow  int64          // blocks both chains execute afterwards
	b       *Node
	until   int64
	fresh   bool // the export was taken right after a stake recalculation: behaviour is compared too
	dead    bool
}

func (m *MonGenesis) Name() string { return "C11" }

func (m *MonGenesis) rep(s *Sim, rule, site, detail string) {
	s.Report(Violation{Property: "C11", Rule: rule, Site: site, Height: s.H, TxIndex: -1, Detail: detail})
}

func (m *MonGenesis) AfterBlock(s *Sim, req *BlockReq, res *BlockRes) {
	if res.Stopped {
		return
	}
	if m.b != nil {
		r2 := m.b.RunBlock(req, nil)
		bad := ""
		if r2.Panic != nil {
			bad = "new chain panicked: " + r2.Panic.Call + ": " + firstLine(r2.Panic.Value)
		} else if len(r2.Deliver) != len(res.Deliver) {
			bad = "different number of responses"
		} else {
			for i := range res.Deliver {
				if res.Deliver[i].Code != r2.Deliver[i].Code {
					bad = fmt.Sprintf("tx %d (type %02x): original code %d, new chain code %d (%s)", i, s.Metas[i].Type, res.Deliver[i].Code, r2.Deliver[i].Code, r2.Deliver[i].Log)
					break
				}
			}
		}
		if bad != "" {
			m.rep(s, "behaviour-differs", "response-codes", bad)
			m.b.Destroy()
			m.b = nil
			return
		}
		m.Res.Count("followed_blocks", 1)
		if s.H >= m.until {
			var eb types.AppState
			if pi := m.b.guard("Export", func() { eb = m.b.App.CurrentState().Export() }); pi != nil {
				m.rep(s, "behaviour-differs", "export-panic", firstLine(pi.Value))
			} else {
				var d []string
				for _, l := range DiffExports(s.Post, &eb, 0) {
					if !strings.HasPrefix(l, "/max_gas:") {
						d = append(d, l)
					}
				}
				if len(d) > 0 {
					m.rep(s, "behaviour-differs", "export-after-follow:"+pathClass(d[0]), fmt.Sprint(clip(d, 5)))
				}
			}
			m.Res.Evaluations++
			m.b.Destroy()
			m.b = nil
		}
		return
	}
	if !m.Heights[req.Height] {
		return
	}
	e, err := s.N.DiskExport()
	if err != nil {
		m.rep(s, "export-failed", "DiskExport", err.Error())
		return
	}
	if err := e.Verify(); err != nil {
		m.rep(s, "export-fails-validation", verifyClass(err.Error()), err.Error())
		return
	}
	CompleteExport(s.N, e)
	opts := s.Opts
	opts.AppDir = "" // a second instance never shares the first one's app DB directory
	opts.Dir, opts.Wrap = "", nil
	b := NewNode(opts)
	if _, pi := b.InitChain(e, req.Height+1, req.Time); pi != nil {
		m.rep(s, "import-panics", pi.Site, firstLine(pi.Value))
		b.Destroy()
		return
	}
	var e2 types.AppState
	if pi := b.guard("Export", func() { e2 = b.App.CurrentState().Export() }); pi != nil {
		m.rep(s, "import-panics", "export:"+pi.Site, firstLine(pi.Value))
		b.Destroy()
		return
	}
	CompleteExport(b, &e2)
	var lost []string
	derived := 0
	isFresh := uint64(req.Height)%s.Opts.StakePeriod == 0
	if isFresh && len(e.Candidates) > 100 {
		// the running chain keeps a candidate ranked beyond 100 for one more period while it still is a validator
		// (DeleteCandidate skips validators, the set is renewed after the recalculation); a chain started from the export has no
		// validators yet when import recalculates and removes it at once: the same class of legitimate import-time
		// reshuffle as away from payout heights (stakes become frozen funds, value conservation is checked below)
		isFresh = false
		m.Res.Count("payout_height_with_protected_validator_beyond_100", 1)
		m.Res.Seen("export with a validator ranked beyond 100 still among the candidates")
	}
	reelected := false
	all := DiffExports(mergeUpdates(e), mergeUpdates(&e2), 0)
	for _, l := range all {
		if !isFresh && strings.HasPrefix(l, "/validators[") {
			reelected = true
		}
	}
	for _, l := range all {
		// InitChain elects the validator set anew; away from a payout height that can differ from the running chain's set,
		// and what a dismissed validator had accrued goes to the total-slashed pool
		if derivedPath(l) || (!isFresh && strings.HasPrefix(l, "/validators[")) || (reelected && strings.HasPrefix(l, "/total_slashed:")) {
			derived++
			continue
		}
		if !isFresh && stakingPath(l) {
			// import recalculates stakes at once (pending updates applied, candidates beyond the limit removed and their
			// stakes frozen, slots re-filled); away from a payout height that legitimately reshuffles these sections.
			// Value must still be conserved per owner: checked below.
			derived++
			continue
		}
		lost = append(lost, l)
	}
	if !isFresh && len(lost) == 0 {
		wa, wb := ComputeWealth(e), ComputeWealth(&e2)
		for k, v := range wa.Owner {
			o := wb.Owner[k]
			if o == nil {
				o = new(big.Int)
			}
			if o.Cmp(v) != 0 {
				lost = append(lost, fmt.Sprintf("/wealth[%s coin %d]: %s -> %s", k.Addr.String(), k.Coin, v, o))
			}
		}
		for k, v := range wb.Owner {
			if wa.Owner[k] == nil && v.Sign() != 0 {
				lost = append(lost, fmt.Sprintf("/wealth[%s coin %d]: 0 -> %s", k.Addr.String(), k.Coin, v))
			}
		}
		sort.Strings(lost)
	}
	m.Res.Count("derived_value_differences", int64(derived))
	if len(lost) > 0 {
		if os.Getenv("C11_DEBUG") != "" {
			fmt.Fprintf(os.Stderr, "C11DEBUG h=%d period=%d candidates %d -> %d, deleted %d -> %d\n", req.Height, s.Opts.StakePeriod, len(e.Candidates), len(e2.Candidates), len(e.DeletedCandidates), len(e2.DeletedCandidates))
			for _, c := range e.Candidates {
				fmt.Fprintf(os.Stderr, "   cand %d status %d total %s stakes %d updates %d\n", c.ID, c.Status, c.TotalBipStake, len(c.Stakes), len(c.Updates))
			}
		}
		m.rep(s, "reexport-differs", pathClass(lost[0]), fmt.Sprint(clip(lost, 5)))
		b.Destroy()
		return
	}
	// the same comparison through accessors (what transactions will see): balances, nonces, multisig wallets, coins, pools,
	// orders - an account or field that the export silently drops is invisible to an export-vs-export comparison
	addrs, coins := s.Universe()
	sa, sb := s.SnapOf(s.N, addrs, coins), s.SnapOf(b, addrs, coins)
	var acc []string
	for _, k := range DiffSnap(sa, sb) {
		if strings.HasPrefix(k, "cand/") || strings.HasPrefix(k, "stake/") || strings.HasPrefix(k, "wl/") || k == "app/slashed" {
			continue // staking sections are judged above (recalculated at import)
		}
		acc = append(acc, fmt.Sprintf("%s: %s -> %s", k, sa[k], sb[k]))
	}
	if len(acc) > 0 {
		m.rep(s, "import-loses-state", accessorClass(acc[0]), fmt.Sprint(clip(acc, 5)))
		b.Destroy()
		return
	}
	m.Res.Evaluations++
	kind := "arbitrary-height"
	m.fresh = uint64(req.Height)%s.Opts.StakePeriod == 0 && derived == 0
	if m.fresh {
		kind = "after-recalculation"
	}
	feat := ""
	if len(e.FrozenFunds) > 0 {
		feat += "ff,"
	}
	if len(e.Waitlist) > 0 {
		feat += "wl,"
	}
	if len(e.UsedChecks) > 0 {
		feat += "checks,"
	}
	if len(e.DeletedCandidates) > 0 {
		feat += "deleted,"
	}
	if len(e.BlockListCandidates) > 0 {
		feat += "blocklist,"
	}
	if len(e.HaltBlocks)+len(e.CommissionVotes)+len(e.UpdateVotes) > 0 {
		feat += "votes,"
	}
	orders := 0
	for _, p := range e.Pools {
		orders += len(p.Orders)
	}
	if orders > 0 {
		feat += "orders,"
	}
	for _, a := range e.Accounts {
		if a.LockStakeUntilBlock > 0 {
			feat += "stakelock,"
			break
		}
	}
	m.Res.Seen(kind + "/" + feat)
	if m.fresh {
		m.b, m.until = b, req.Height+m.Follow
	} else {
		b.Destroy()
	}
}

func accessorClass(l string) string {
	if i := strings.Index(l, "/"); i > 0 {
		return l[:i]
	}
	return l
}

func verifyClass(e string) string {
	for _, k := range []string{"wrong token", "wrong coin", "duplicated", "not found", "not valid"} {
		if strings.Contains(e, k) {
			return k
		}
	}
	return "other"
}

func (m *MonGenesis) Finish(s *Sim) {
	if m.b != nil {
		m.b.Destroy()
	}
}

func init() {
	Register(&CheckDef{
		ID: "C11", Level: "exploration",
		Rule: "at scheduled heights of generated histories (payout heights, where stake values were just recalculated, and arbitrary heights) the from-disk export is validated with Verify(), completed like `minter export` does (versions, emission, price record), imported as genesis of a second instance with initial height h+1 whose own export must equal it field by field (derived bip values/total stakes excluded and counted); after payout-height exports both chains execute the same next 20 generated blocks (no absences, no time jumps) and must return the same response codes and end with equal exports (max_gas excluded: the new chain has no block-time history by design); one evaluation = one export/import comparison or one completed follow window; distinct = (height kind, optional features present in the export)",
		Assumptions: []string{"the new chain starts at h+1 so both chains execute the same block numbers; `minter export` itself uses h"},
		Quick: 36, Thorough: 360, MinEval: 100, MinDistinct: 6,
		Run: func(ctx *WorkCtx, idx int) {
			r := Rng(ctx.Seed, "C11", idx)
			sc := StdScenario(idx, r, 100)
			sc.Spec.Orders = 2 + r.Intn(6)
			mg := &MonGenesis{Res: ctx.Res, Heights: map[int64]bool{}, Follow: 20}
			first := sc.Spec.InitialHeight
			p := int64(sc.Opts.StakePeriod)
			for b := (first/p + 1) * p; b < first+int64(sc.Blocks); b += p {
				if b > first+8 {
					mg.Heights[b] = true
				}
			}
			for i := 0; i < 3; i++ {
				mg.Heights[first+5+int64(r.Intn(sc.Blocks-6))] = true
			}
			s, d := sc.Build("C11", ctx.Seed, idx, r, mg)
			d.PAbsent, d.PAbsentRun, d.PByz, d.PTimeJump = 0, 0, 0, 0
			d.MaxTxs = 8
			d.G.SetWeight(TxT(0x26), 20) // Lock: frozen funds without candidate
			d.G.SetWeight(TxT(0x1b), 15) // moves
			d.G.SetWeight(TxT(0x09), 15) // used checks
			d.G.SetWeight(TxT(0x0f), 3)
			d.G.SetWeight(TxT(0x20), 3)
			d.G.SetWeight(TxT(0x21), 3)
			d.Run(sc.Blocks)
			ctx.Res.Count("blocks", s.H-s.W.InitialHeight+1)
			ctx.Collect(s, idx)
			s.Finish()
			if s.Dead {
				mg.Finish(s)
			}
		},
	})
}

package h

import (
	"encoding/json"
	"math/big"
)

// PoolFill is one limit-order fill reported in a pool tag.
type PoolFill struct {
	ID     uint32 `json:"id"`
	Buy    string `json:"buy"`    // what the order owner receives (taker's input coin)
	Sell   string `json:"sell"`   // what the order releases to the taker
	Seller string `json:"seller"` // Mx... owner
}

// PoolChange is one hop of tx.pools / tx.commission_details.
type PoolChange struct {
	PoolID   uint32 `json:"pool_id"`
	CoinIn   uint32 `json:"coin_in"`
	ValueIn  string `json:"value_in"`
	CoinOut  uint32 `json:"coin_out"`
	ValueOut string `json:"value_out"`
	Details  *struct {
		AmountIn            string     `json:"amount_in"`
		AmountOut           string     `json:"amount_out"`
		CommissionAmountIn  string     `json:"commission_amount_in"`
		CommissionAmountOut string     `json:"commission_amount_out"`
		AmountInBurned      string     `json:"amount_in_burned"`
		Orders              []PoolFill `json:"orders"`
	} `json:"details"`
}

// ParsePoolTag parses tx.commission_details (one object) – returns nil for "bancor" or garbage.
func ParsePoolTag(s string) *PoolChange {
	if len(s) == 0 || s[0] != '{' {
		return nil
	}
	var p PoolChange
	if err := json.Unmarshal([]byte(s), &p); err != nil {
		return nil
	}
	return &p
}

// ParsePoolsTag parses tx.pools (array of hops).
func ParsePoolsTag(s string) []PoolChange {
	if len(s) == 0 || s[0] != '[' {
		return nil
	}
	var p []PoolChange
	if err := json.Unmarshal([]byte(s), &p); err != nil {
		return nil
	}
	return p
}

// CreditsTo sums what order owner `mx` (Mx… string) receives from the fills of this hop.
func (p *PoolChange) CreditsTo(mx string) *big.Int {
	out := new(big.Int)
	if p == nil || p.Details == nil {
		return out
	}
	for _, o := range p.Details.Orders {
		if o.Seller == mx {
			out.Add(out, BI(o.Buy))
		}
	}
	return out
}

package h

import (
	"crypto/sha256"
	"encoding/hex"
	"fmt"
	"math/big"
	"strings"

	"github.com/MinterTeam/minter-go-node/coreV2/types"
	abci "github.com/tendermint/tendermint/abci/types"
)

func addrOf(hx string) (a types.Address) {
	bz, _ := hex.DecodeString(hx)
	copy(a[:], bz)
	return
}

// ---------------------------------------------------------------------------------------------------
// C04: nonce order, chain id, no replays (sequential specification per sender from observed acceptances)

// MonNonce implements C04.
type MonNonce struct {
	BaseMon
	Res      *WorkerResult
	last     map[types.Address]uint64
	accepted map[[32]byte]int64 // tx bytes hash -> height accepted
}

func (m *MonNonce) Name() string { return "C04" }

func (m *MonNonce) Init(s *Sim) {
	m.last = map[types.Address]uint64{}
	m.accepted = map[[32]byte]int64{}
	for _, a := range s.Gen.Accounts {
		m.last[a.Address] = a.Nonce
	}
}

func (m *MonNonce) AfterTx(s *Sim, i int, tx []byte, meta *TxMeta, res *abci.ResponseDeliverTx) {
	if meta.Sender == "" || meta.Kind == "mutated" || meta.Kind == "raw" {
		return
	}
	snd := addrOf(meta.Sender)
	hsh := sha256.Sum256(tx)
	m.Res.Evaluations++
	last := m.last[snd]
	cls := "fresh"
	if _, dup := m.accepted[hsh]; dup {
		cls = "replay-of-accepted"
	} else if meta.Nonce <= last {
		cls = "stale-nonce"
	} else if meta.Nonce > last+1 {
		cls = "future-nonce"
	}
	if meta.Chain != byte(types.CurrentChainID) {
		cls += "/foreign-chain"
	}
	if meta.Msig {
		cls += "/msig"
	}
	m.Res.Seen(fmt.Sprintf("%s code=%d", cls, res.Code))
	if res.Code == 0 {
		if meta.Nonce != last+1 {
			s.Report(Violation{Property: "C04", Rule: "accepted-out-of-order", Site: cls, Height: s.CurReq.Height, TxIndex: i,
				Detail: fmt.Sprintf("sender %s accepted nonce %d but last accepted nonce is %d (type %02x)", meta.Sender, meta.Nonce, last, meta.Type)})
		}
		if meta.Chain != byte(types.CurrentChainID) {
			s.Report(Violation{Property: "C04", Rule: "accepted-foreign-chain", Site: cls, Height: s.CurReq.Height, TxIndex: i,
				Detail: fmt.Sprintf("chain id %d accepted on network %d", meta.Chain, types.CurrentChainID)})
		}
		if h, dup := m.accepted[hsh]; dup {
			s.Report(Violation{Property: "C04", Rule: "same-bytes-accepted-twice", Site: cls, Height: s.CurReq.Height, TxIndex: i,
				Detail: fmt.Sprintf("tx first accepted at height %d accepted again (type %02x sender %s nonce %d)", h, meta.Type, meta.Sender, meta.Nonce)})
		}
		m.accepted[hsh] = s.CurReq.Height
		if meta.Nonce > last {
			m.last[snd] = meta.Nonce
		}
	}
	// cross-check the node's own nonce with the harness's view (a code-0 tx moves it by exactly one, a rejected one not at all)
	if got := s.N.App.CurrentState().Accounts().GetNonce(snd); got != m.last[snd] {
		s.Report(Violation{Property: "C04", Rule: "nonce-mismatch", Site: fmt.Sprintf("code=%d", boolInt(res.Code != 0)), Height: s.CurReq.Height, TxIndex: i,
			Detail: fmt.Sprintf("sender %s: node nonce %d, accepted-history nonce %d after type %02x code %d", meta.Sender, got, m.last[snd], meta.Type, res.Code)})
		m.last[snd] = got // resynchronise to avoid cascades
	}
}

func boolInt(b bool) int {
	if b {
		return 1
	}
	return 0
}

// ---------------------------------------------------------------------------------------------------
// C26: each signed transaction is charged at most once

type delivery struct {
	n       int
	charged int    // deliveries so far that decreased the payer's balance
	site    string // kind of the first charging delivery
}

// MonChargeOnce implements C26: per distinct byte string at most ONE delivery may cost the payer anything, and once a
// delivery has taken effect or been charged every later delivery of the same bytes must be rejected at no cost.
// Deliveries rejected before execution at no cost (future nonce, bad signature ...) do not count as "the first".
type MonChargeOnce struct {
	BaseMon
	Res    *WorkerResult
	seen   map[[32]byte]*delivery
	before map[string]*big.Int
}

func (m *MonChargeOnce) Name() string { return "C26" }
func (m *MonChargeOnce) Init(s *Sim)  { m.seen = map[[32]byte]*delivery{} }

func payerOf(meta *TxMeta) (types.Address, bool) {
	if meta.Payer != "" {
		return addrOf(meta.Payer), true
	}
	if meta.Sender != "" {
		return addrOf(meta.Sender), true
	}
	return types.Address{}, false
}

func (m *MonChargeOnce) balances(s *Sim, a types.Address) map[string]*big.Int {
	out := map[string]*big.Int{}
	_, coins := s.Universe()
	cs := s.N.App.CurrentState()
	for _, c := range coins {
		out[fmt.Sprint(c)] = new(big.Int).Set(cs.Accounts().GetBalance(a, c))
	}
	return out
}

func (m *MonChargeOnce) BeforeTx(s *Sim, i int, tx []byte, meta *TxMeta) {
	m.before = nil
	if p, ok := payerOf(meta); ok {
		m.before = m.balances(s, p)
	}
}

func (m *MonChargeOnce) AfterTx(s *Sim, i int, tx []byte, meta *TxMeta, res *abci.ResponseDeliverTx) {
	p, ok := payerOf(meta)
	if !ok || m.before == nil || meta.Kind == "mutated" {
		return
	}
	hsh := sha256.Sum256(tx)
	after := m.balances(s, p)
	decreased := false
	var dec []string
	for c, b := range m.before {
		if after[c].Cmp(b) < 0 {
			decreased = true
			dec = append(dec, fmt.Sprintf("coin %s: %s -> %s", c, b, after[c]))
		}
	}
	tags := Tags(res)
	d := m.seen[hsh]
	if d == nil {
		d = &delivery{}
		m.seen[hsh] = d
	}
	d.n++
	if d.n > 1 {
		m.Res.Evaluations++
	}
	kind := "failed-before-Run"
	if res.Code == 0 {
		kind = "accepted"
	} else if _, charged := tags["tx.fail_fee"]; charged {
		kind = "failed-in-Run"
	}
	if d.charged > 0 {
		m.Res.Seen(fmt.Sprintf("after %s: later %s charged=%v type=%02x", d.site, kind, decreased, meta.Type))
		if res.Code == 0 {
			s.Report(Violation{Property: "C26", Rule: "replay-accepted", Site: "first-delivery-" + d.site, Height: s.CurReq.Height, TxIndex: i,
				Detail: fmt.Sprintf("delivery #%d of the same bytes accepted after an earlier delivery was already charged (type %02x)", d.n, meta.Type)})
		} else if decreased {
			s.Report(Violation{Property: "C26", Rule: "replay-charged", Site: "first-delivery-" + d.site, Height: s.CurReq.Height, TxIndex: i,
				Detail: fmt.Sprintf("delivery #%d of the same bytes (type %02x, code %d) decreased the payer's balance again: %s", d.n, meta.Type, res.Code, strings.Join(dec, "; "))})
		}
	} else if d.n > 1 {
		m.Res.Seen(fmt.Sprintf("after free rejection(s): later %s charged=%v", kind, decreased))
	}
	if decreased || res.Code == 0 {
		if d.charged == 0 {
			d.site = kind
		}
		d.charged++
	}
}

// ---------------------------------------------------------------------------------------------------
// C03 (light oracle): a failed tx changes nothing but the fee; an accepted tx increments the nonce by one

// MonFailedTx implements the accessor-level oracle of C03.
type MonFailedTx struct {
	BaseMon
	Res  *WorkerResult
	prev Snap
}

func (m *MonFailedTx) Name() string { return "C03" }

func (m *MonFailedTx) BeforeTx(s *Sim, i int, tx []byte, meta *TxMeta) {
	m.prev = s.TakeSnap()
}

func (m *MonFailedTx) AfterTx(s *Sim, i int, tx []byte, meta *TxMeta, res *abci.ResponseDeliverTx) {
	cur := s.TakeSnap()
	diff := DiffSnap(m.prev, cur)
	tags := Tags(res)
	if res.Code == 0 {
		if meta.Sender != "" && meta.Kind != "mutated" {
			k := "nonce/" + addrOf(meta.Sender).String()
			if BI(cur[k]).Cmp(new(big.Int).Add(BI(m.prev[k]), big.NewInt(1))) != 0 {
				s.Report(Violation{Property: "C03", Rule: "accepted-nonce-not-plus-one", Site: fmt.Sprintf("type %02x", meta.Type), Height: s.CurReq.Height, TxIndex: i,
					Detail: fmt.Sprintf("nonce %s -> %s", m.prev[k], cur[k])})
			}
			m.Res.Count("accepted_nonce_checked", 1)
		}
		return
	}
	m.Res.Evaluations++
	fee, charged := tags["tx.fail_fee"]
	gas := tags["tx.commission_coin"]
	route := "none"
	if charged {
		if _, ok := tags["tx.commission_details"]; ok {
			route = "pool"
		} else if _, ok := tags["tx.fail_fee_reserve"]; ok {
			route = "bancor"
		} else {
			route = "base"
		}
	}
	m.Res.Seen(fmt.Sprintf("type %02x code %d route %s", meta.Type, res.Code, route))
	if len(diff) == 0 {
		return
	}
	if !charged {
		s.Report(Violation{Property: "C03", Rule: "failed-tx-changed-state-without-fee", Site: fmt.Sprintf("type %02x code %d", meta.Type, res.Code), Height: s.CurReq.Height, TxIndex: i,
			Detail: fmt.Sprintf("changed: %v", clip(diff, 6))})
		return
	}
	payer, _ := payerOf(meta)
	if hx, ok := tags["tx.from"]; ok && meta.Kind == "mutated" {
		payer = addrOf(hx)
	}
	allowed := func(k string) bool {
		switch {
		case k == fmt.Sprintf("bal/%s/%s", payer.String(), gas):
			return true
		case route == "pool" && (k == fmt.Sprintf("pool/0-%s", gas) || k == fmt.Sprintf("bal/%s/%s", BurnAddress.String(), gas)):
			return true
		case route == "pool" && strings.HasPrefix(k, "order/"):
			return true // orders of the commission pool filled (checked against the details below)
		case route == "pool" && strings.HasPrefix(k, "bal/") && strings.HasSuffix(k, "/"+gas):
			return true // owners of filled orders are credited in the gas coin
		case route == "bancor" && (k == fmt.Sprintf("coin/%s/volume", gas) || k == fmt.Sprintf("coin/%s/reserve", gas)):
			return true
		}
		return false
	}
	// an order of the commission pool whose remainder after the fill is below the minimum volume is closed and the remainder
	// goes back to its owner in the coin the order sells (the swap's coin_out): part of converting the fee through the pool
	dust := map[string]*big.Int{}
	if route == "pool" {
		if pc := ParsePoolTag(tags["tx.commission_details"]); pc != nil && pc.Details != nil {
			for _, f := range pc.Details.Orders {
				ok := fmt.Sprintf("order/%d", f.ID)
				if _, still := cur[ok]; still {
					continue
				}
				parts := strings.Split(m.prev[ok], "/")
				if len(parts) < 2 {
					continue
				}
				rem := new(big.Int).Sub(BI(parts[1]), BI(f.Sell))
				if rem.Sign() < 0 {
					rem = new(big.Int).Sub(BI(parts[0]), BI(f.Sell))
				}
				if rem.Sign() > 0 {
					dust[fmt.Sprintf("bal/%s/%d", f.Seller, pc.CoinOut)] = rem
				}
			}
		}
	}
	var bad []string
	for _, k := range diff {
		if rem, ok := dust[k]; ok {
			if up := new(big.Int).Sub(BI(cur[k]), BI(m.prev[k])); up.Sign() > 0 && up.Cmp(rem) <= 0 {
				m.Res.Count("failed_tx_fee_swap_closed_a_dust_order", 1)
				continue
			}
		}
		if !allowed(k) {
			bad = append(bad, fmt.Sprintf("%s: %s -> %s", k, m.prev[k], cur[k]))
		}
	}
	if len(bad) > 0 {
		s.Report(Violation{Property: "C03", Rule: "failed-tx-side-effect", Site: fmt.Sprintf("type %02x code %d route %s", meta.Type, res.Code, route), Height: s.CurReq.Height, TxIndex: i,
			Detail: fmt.Sprintf("%v", clip(bad, 6))})
		return
	}
	// the payer pays exactly the tagged fee, capped at its balance
	k := fmt.Sprintf("bal/%s/%s", payer.String(), gas)
	before, after := BI(m.prev[k]), BI(cur[k])
	paid := new(big.Int).Sub(before, after)
	if route == "pool" {
		// the payer may own orders that its own fee swap filled: those credits come back in the gas coin
		paid.Add(paid, ParsePoolTag(tags["tx.commission_details"]).CreditsTo(payer.String()))
	}
	if paid.Cmp(BI(fee)) != 0 || after.Sign() < 0 {
		s.Report(Violation{Property: "C03", Rule: "failed-tx-fee-mismatch", Site: fmt.Sprintf("route %s", route), Height: s.CurReq.Height, TxIndex: i,
			Detail: fmt.Sprintf("payer %s paid %s but tx.fail_fee=%s (balance %s -> %s)", payer.String(), paid, fee, before, after)})
	}
	// with the pool route, other balances in the gas coin may only go UP (order owners, burn address)
	if route == "pool" {
		for _, kk := range diff {
			if strings.HasPrefix(kk, "bal/") && kk != k && BI(cur[kk]).Cmp(BI(m.prev[kk])) < 0 {
				s.Report(Violation{Property: "C03", Rule: "failed-tx-side-effect", Site: "pool-route-third-party-debited", Height: s.CurReq.Height, TxIndex: i,
					Detail: fmt.Sprintf("%s: %s -> %s", kk, m.prev[kk], cur[kk])})
			}
		}
	}
}

func clip(l []string, n int) []string {
	if len(l) > n {
		return append(l[:n:n], fmt.Sprintf("... (%d more)", len(l)-n))
	}
	return l
}

package h

// C05: value leaves an account only with that account's authorization.
//
// Three oracles over generated histories, none of which asks the node who may do what:
//  (1) per DeliverTx: the whole universe is read through accessors before and after; whatever belongs to somebody other
//      than the sender (balances, stakes, waitlist entries, open orders, candidate settings, coin ownership) may change
//      only in the ways the statement allows (issuer of the presented check; order filled at >= its price and paid).
//  (2) per block: per-(address, coin) wealth recomputed from the exports before/after the block; every decrease must be
//      covered by the address's own accepted transaction, its failed-tx fees, checks it issued, fills of its orders or
//      SlashEvents of that height.
//  (3) forged transactions built here (wrong signer for candidate / coin / order operations, multisig signatures that
//      do not reach the threshold with distinct listed owners, stolen check proofs) must be rejected.

import (
	"encoding/hex"
	"encoding/json"
	"fmt"
	"math/big"
	"math/rand"
	"sort"
	"strings"

	"github.com/MinterTeam/minter-go-node/coreV2/events"
	tx "github.com/MinterTeam/minter-go-node/coreV2/transaction"
	"github.com/MinterTeam/minter-go-node/coreV2/types"
	"github.com/MinterTeam/minter-go-node/rlp"
	abci "github.com/tendermint/tendermint/abci/types"
)

// c05Note is the ground truth of a transaction crafted by this check (JSON in TxMeta.Note).
type c05Note struct {
	Forged     string   `json:"forged"`             // class
	MustReject bool     `json:"must_reject"`        // by the statement, from the harness's own knowledge
	Signers    []string `json:"signers,omitempty"`  // multisig: hex addresses that signed
	MsigSum    uint32   `json:"msig_sum,omitempty"` // weight of the distinct listed owners among the signers
	MsigThr    uint32   `json:"msig_thr,omitempty"` // threshold at generation time
	Why        string   `json:"why,omitempty"`
}

func c05ParseNote(meta *TxMeta) *c05Note {
	if !strings.HasPrefix(meta.Kind, "c05:") || !strings.HasPrefix(meta.Note, "{") {
		return nil
	}
	var n c05Note
	if json.Unmarshal([]byte(meta.Note), &n) != nil {
		return nil
	}
	return &n
}

type c05Redeem struct {
	RawCheck []byte
	Proof    [65]byte
}

// c05CheckOf decodes the check presented by a RedeemCheck transaction (own mirror structs).
func c05CheckOf(raw []byte) *c21Fields {
	var env c22Env
	if rlp.DecodeBytes(raw, &env) != nil || tx.TxType(env.Type) != tx.TypeRedeemCheck {
		return nil
	}
	var d c05Redeem
	if rlp.DecodeBytes(env.Data, &d) != nil {
		return nil
	}
	var f c21Fields
	if rlp.DecodeBytes(d.RawCheck, &f) != nil || f.Value == nil {
		return nil
	}
	return &f
}

// c05Snap is TakeSnap with candidates and stakes keyed by candidate id (a public key change renames nothing then).
func c05Snap(s *Sim) Snap {
	in := s.TakeSnap()
	out := Snap{}
	ids := map[string]string{}
	for k, v := range in {
		if strings.HasPrefix(k, "cand/") {
			if i := strings.LastIndex(v, " id="); i >= 0 {
				id := v[i+4:]
				ids[k[5:]] = id
				out["candid/"+id] = v[:i] + " pub=" + k[5:]
			}
		}
	}
	for k, v := range in {
		switch {
		case strings.HasPrefix(k, "cand/"):
		case strings.HasPrefix(k, "stake/"):
			p := strings.SplitN(k, "/", 4)
			out["stakeid/"+ids[p[1]]+"/"+p[2]+"/"+p[3]] = v
		default:
			out[k] = v
		}
	}
	return out
}

func candFields(v string) map[string]string {
	m := map[string]string{}
	for _, f := range strings.Fields(v) {
		if i := strings.Index(f, "="); i > 0 {
			m[f[:i]] = f[i+1:]
		}
	}
	return m
}

type c05Fill struct {
	id        uint32
	owner     string
	buy, sell *big.Int
	coinBuy   uint32 // what the owner receives
	coinSell  uint32 // what the order releases
	n         int
}

func c05Fills(tags map[string]string) map[uint32]*c05Fill {
	out := map[uint32]*c05Fill{}
	var hops []PoolChange
	hops = append(hops, ParsePoolsTag(tags["tx.pools"])...)
	if p := ParsePoolTag(tags["tx.commission_details"]); p != nil {
		hops = append(hops, *p)
	}
	for _, h := range hops {
		if h.Details == nil {
			continue
		}
		for _, o := range h.Details.Orders {
			f := out[o.ID]
			if f == nil {
				f = &c05Fill{id: o.ID, owner: o.Seller, buy: new(big.Int), sell: new(big.Int), coinBuy: h.CoinIn, coinSell: h.CoinOut}
				out[o.ID] = f
			}
			f.buy.Add(f.buy, BI(o.Buy))
			f.sell.Add(f.sell, BI(o.Sell))
			f.n++
		}
	}
	return out
}

// MonAuth implements C05.
type MonAuth struct {
	BaseMon
	Res  *WorkerResult
	prev Snap
	// per block
	authorised map[types.Address]string // senders of accepted transactions -> how
	allow      map[OwnerCoin]*big.Int   // explained decreases of passive addresses
	allowWhy   map[OwnerCoin]string
	editTx     map[string]bool // candidate ids edited by an accepted tx of their owner in this block
}

func (m *MonAuth) Name() string { return "C05" }

func (m *MonAuth) rep(s *Sim, rule, site string, i int, format string, a ...interface{}) {
	s.Report(Violation{Property: "C05", Rule: rule, Site: site, Height: s.CurReq.Height, TxIndex: i, Detail: fmt.Sprintf(format, a...)})
}

func (m *MonAuth) BeforeBlock(s *Sim, req *BlockReq) {
	m.authorised = map[types.Address]string{}
	m.allow = map[OwnerCoin]*big.Int{}
	m.allowWhy = map[OwnerCoin]string{}
	m.editTx = map[string]bool{}
	m.prev = nil
}

func (m *MonAuth) addAllow(a types.Address, coin uint64, v *big.Int, why string) {
	k := OwnerCoin{a, coin}
	if m.allow[k] == nil {
		m.allow[k] = new(big.Int)
	}
	m.allow[k].Add(m.allow[k], v)
	if !strings.Contains(m.allowWhy[k], why) {
		m.allowWhy[k] += why + ","
	}
}

func (m *MonAuth) BeforeTx(s *Sim, i int, raw []byte, meta *TxMeta) {
	if m.prev == nil {
		m.prev = c05Snap(s)
	}
}

func mxToAddr(mx string) types.Address { return types.HexToAddress(mx) }

// msigDistinctWeight: weight of the distinct listed owners among the signers, and the threshold, read from the account before the tx.
func msigConfig(s *Sim, a types.Address) (weights map[types.Address]uint32, thr uint32, ok bool) {
	acc := s.N.App.CurrentState().Accounts().GetAccount(a)
	if acc == nil || !acc.IsMultisig() {
		return nil, 0, false
	}
	ms := acc.Multisig()
	weights = map[types.Address]uint32{}
	for i, ad := range ms.Addresses {
		if _, dup := weights[ad]; !dup {
			weights[ad] = ms.Weights[i]
		}
	}
	return weights, ms.Threshold, true
}

func (m *MonAuth) AfterTx(s *Sim, i int, raw []byte, meta *TxMeta, res *abci.ResponseDeliverTx) {
	cur := c05Snap(s)
	prev := m.prev
	m.prev = cur
	if meta.Sender == "" || meta.Kind == "mutated" || meta.Kind == "raw" {
		// not a harness-made transaction: nothing is known about its signer; its effects are attributed to the node's tx.from
		if hx, ok := Tags(res)["tx.from"]; ok {
			m.authorised[addrOf(hx)] = "unjudged"
		}
		return
	}
	t := tx.TxType(meta.Type)
	tags := Tags(res)
	snd := addrOf(meta.Sender)
	sndS := snd.String()
	payer := snd
	if meta.Payer != "" {
		payer = addrOf(meta.Payer)
	}
	m.Res.Evaluations++
	site := fmt.Sprintf("type %02x", meta.Type)

	// (3) forged transactions must be rejected
	note := c05ParseNote(meta)
	if note != nil {
		out := "rejected"
		if res.Code == 0 {
			out = "ACCEPTED"
		}
		must := "rightful"
		if note.MustReject {
			must = "forged"
		}
		m.Res.Seen(fmt.Sprintf("%s %s -> %s", must, note.Forged, out))
		if note.MustReject {
			if res.Code == 0 {
				m.rep(s, "forged-accepted", note.Forged, i, "%s: transaction of type %02x from %s accepted (%s)", note.Forged, meta.Type, sndS, note.Why)
			} else {
				m.Res.Count("forged-rejected/"+note.Forged, 1)
				if strings.HasPrefix(note.Forged, "msig") || strings.HasPrefix(note.Forged, "remove-order") {
					m.Res.Sample(map[string]interface{}{"height": s.CurReq.Height, "forged": note.Forged, "from": sndS, "code": res.Code, "why": note.Why}, 4)
				}
			}
		} else if res.Code == 0 {
			m.Res.Count("rightful-accepted/"+note.Forged, 1)
		} else {
			m.Res.Count(fmt.Sprintf("rightful-rejected/%s/code-%d", note.Forged, res.Code), 1)
		}
	}
	// multisig senders of the shared generator: signer sets are known by kind
	msigOK := true
	if meta.Msig && res.Code == 0 && note == nil {
		var first *types.Address
		for _, ms := range s.W.Multisigs {
			if ms.Addr == snd && len(ms.Owners) > 0 {
				a := ms.Owners[0].Addr
				first = &a
			}
		}
		switch meta.Kind {
		case "invalid:msig-dup":
			msigOK = false
			m.rep(s, "forged-accepted", "msig-duplicate-signer", i, "multisig %s: transaction signed twice by the same owner accepted", sndS)
		case "msig:subset":
			// signed by the first listed owner only: adequate iff its weight alone reaches the threshold (judged before this tx changed anything? the
			// account data can only be changed by the multisig itself, i.e. by this very tx: use the export of the previous block when present)
			if first != nil && s.Post != nil {
				for _, a := range s.Post.Accounts {
					if a.Address == snd && a.MultisigData != nil {
						var w uint64
						for k, ad := range a.MultisigData.Addresses {
							if ad == *first {
								w = a.MultisigData.Weights[k]
								break
							}
						}
						m.Res.Seen(fmt.Sprintf("generator msig subset weight>=threshold: %v", w >= a.MultisigData.Threshold))
						if w < a.MultisigData.Threshold && m.authorised[snd] == "" {
							// only judged if the multisig was not edited earlier in this block
							msigOK = false
							m.rep(s, "forged-accepted", "msig-under-threshold", i, "multisig %s: one signature of weight %d accepted, threshold %d", sndS, w, a.MultisigData.Threshold)
						}
					}
				}
			}
		}
	}
	if res.Code == 0 && msigOK && !(note != nil && note.MustReject) {
		how := "single"
		if meta.Msig {
			how = "multisig"
		}
		m.authorised[snd] = how
	}

	// explanations for the block-level ledger
	if fee, ok := tags["tx.fail_fee"]; ok && res.Code != 0 {
		m.addAllow(payer, BI(tags["tx.commission_coin"]).Uint64(), BI(fee), "failed-tx-fee")
	}
	var chk *c21Fields
	if t == tx.TypeRedeemCheck {
		chk = c05CheckOf(raw)
		if res.Code == 0 && chk != nil {
			m.addAllow(payer, uint64(chk.Coin), chk.Value, "issued-check-value")
			m.addAllow(payer, uint64(chk.GasCoin), BI(tags["tx.commission_amount"]), "issued-check-fee")
		}
	}
	fills := c05Fills(tags)
	for _, f := range fills {
		m.addAllow(mxToAddr(f.owner), uint64(f.coinSell), f.sell, "order-fill")
	}

	// (1) what belongs to others
	recv := map[string]*big.Int{} // "Mx/coin" -> what owners of filled orders must have received
	usedFill := map[uint32]bool{}
	touched := map[string]bool{}
	for _, k := range DiffSnap(prev, cur) {
		p := strings.Split(k, "/")
		pv, hadPrev := prev[k]
		cv := cur[k]
		dec := false
		if p[0] == "bal" || p[0] == "wl" || p[0] == "stakeid" {
			dec = hadPrev && BI0(cv).Cmp(BI0(pv)) < 0
		}
		switch p[0] {
		case "bal":
			if p[1] == sndS || !dec {
				continue
			}
			if t == tx.TypeRedeemCheck && p[1] == payer.String() {
				touched["issuer-of-presented-check"] = true
				if chk != nil && res.Code == 0 {
					// bounded: value in the check coin, fee in the gas coin
					lim := new(big.Int)
					if p[2] == fmt.Sprint(uint32(chk.Coin)) {
						lim.Add(lim, chk.Value)
					}
					if p[2] == fmt.Sprint(uint32(chk.GasCoin)) {
						lim.Add(lim, BI(tags["tx.commission_amount"]))
					}
					if d := new(big.Int).Sub(BI(pv), BI0(cv)); d.Cmp(lim) > 0 {
						m.rep(s, "foreign-balance-debited", "check-issuer-overcharged", i, "issuer %s lost %s of coin %s, check value %s coin %d, fee %s coin %d", p[1], d, p[2], chk.Value, chk.Coin, tags["tx.commission_amount"], chk.GasCoin)
					}
				} else if res.Code != 0 {
					if p[2] != tags["tx.commission_coin"] || new(big.Int).Sub(BI(pv), BI0(cv)).Cmp(BI0(tags["tx.fail_fee"])) > 0 {
						m.rep(s, "foreign-balance-debited", "check-issuer-overcharged", i, "failed redemption (code %d): issuer %s coin %s: %s -> %s, fail fee %s coin %s", res.Code, p[1], p[2], pv, cv, tags["tx.fail_fee"], tags["tx.commission_coin"])
					}
				}
				continue
			}
			m.rep(s, "foreign-balance-debited", site, i, "tx from %s (code %d) decreased %s: %s -> %s", sndS, res.Code, k, pv, cv)
		case "wl":
			if p[1] == sndS || !(dec || (hadPrev && cv == "")) {
				continue
			}
			m.rep(s, "foreign-waitlist-touched", site, i, "tx from %s (code %d) changed %s: %s -> %s", sndS, res.Code, k, pv, cv)
		case "stakeid":
			if p[2] == sndS || !(dec || (hadPrev && cv == "")) {
				continue
			}
			m.rep(s, "foreign-stake-touched", site, i, "tx from %s (code %d) changed %s: %s -> %s", sndS, res.Code, k, pv, cv)
		case "order":
			if !hadPrev {
				if f := strings.Split(cv, "/"); len(f) >= 3 && f[2] != sndS {
					m.rep(s, "foreign-order-touched", "created-for-other", i, "tx from %s created order %s owned by %s", sndS, p[1], f[2])
				}
				continue
			}
			f := strings.Split(pv, "/") // WantBuy/WantSell/owner/isBuy
			if len(f) < 3 || f[2] == sndS {
				continue
			}
			id := uint32(BI(p[1]).Uint64())
			fl := fills[id]
			if fl == nil {
				m.rep(s, "foreign-order-touched", site, i, "tx from %s (code %d) changed order %s of %s (%s -> %s) and reports no fill of it", sndS, res.Code, p[1], f[2], pv, cv)
				continue
			}
			usedFill[id] = true
			touched["foreign-order-filled"] = true
			// stored orientation: volumes are (lower coin id, higher coin id); isBuy tells which of them the owner gives
			wb, ws := BI(f[0]), BI(f[1])
			if len(f) > 3 && f[3] == "true" {
				wb, ws = ws, wb
			}
			// at the order's price or better for its owner: buy/sell >= wantBuy/wantSell (one unit of rounding per fill)
			l := new(big.Int).Mul(new(big.Int).Add(fl.buy, big.NewInt(int64(fl.n))), ws)
			r := new(big.Int).Mul(fl.sell, wb)
			if l.Cmp(r) < 0 {
				m.rep(s, "order-filled-below-price", site, i, "order %s of %s wants %s for %s, filled: owner gets %s for %s", p[1], f[2], wb, ws, fl.buy, fl.sell)
			}
			if fl.owner != f[2] {
				m.rep(s, "order-filled-below-price", "paid-to-other", i, "order %s belongs to %s, fill names %s", p[1], f[2], fl.owner)
			}
			rk := fmt.Sprintf("%s/%d", f[2], fl.coinBuy)
			if recv[rk] == nil {
				recv[rk] = new(big.Int)
			}
			recv[rk].Add(recv[rk], fl.buy)
		case "msig":
			// owners / weights / threshold of an existing multisig account: only by the account itself
			if hadPrev && pv != "exists" && p[1] != sndS {
				m.rep(s, "multisig-changed-by-other", site, i, "multisig %s: %s -> %s by tx from %s (code %d)", p[1], pv, cv, sndS, res.Code)
			}
		case "candid":
			if !hadPrev {
				continue
			}
			a, b := candFields(pv), candFields(cv)
			if cv == "" {
				m.rep(s, "candidate-changed-by-non-owner", "removed-in-tx", i, "candidate %s disappeared in a tx from %s", p[1], sndS)
				continue
			}
			for _, fld := range []string{"own", "ctl", "rew", "com", "pub", "st"} {
				if a[fld] == b[fld] {
					continue
				}
				okBy := sndS == a["own"] || (fld == "st" && sndS == a["ctl"])
				if !okBy || res.Code != 0 {
					m.rep(s, "candidate-changed-by-non-owner", fld, i, "candidate %s (owner %s control %s): %s %s -> %s by tx of type %02x from %s (code %d)", p[1], a["own"], a["ctl"], fld, a[fld], b[fld], meta.Type, sndS, res.Code)
				} else {
					m.editTx[p[1]] = true
					touched["candidate-"+fld+"-by-"+map[bool]string{true: "owner", false: "control"}[sndS == a["own"]]] = true
				}
			}
		case "coin":
			if len(p) < 3 || !hadPrev {
				continue
			}
			own := prev["coin/"+p[1]+"/owner"]
			switch p[2] {
			case "owner", "symbol":
				if own != sndS || res.Code != 0 {
					m.rep(s, "coin-control-by-non-owner", p[2], i, "coin %s (owner %s): %s %s -> %s by tx of type %02x from %s (code %d)", p[1], own, p[2], pv, cv, meta.Type, sndS, res.Code)
				} else {
					touched["coin-"+p[2]+"-by-owner"] = true
				}
			case "volume":
				if t == tx.TypeMintToken && BI(cv).Cmp(BI(pv)) > 0 && (own != sndS || res.Code != 0) {
					m.rep(s, "coin-control-by-non-owner", "mint", i, "coin %s (owner %s) minted %s -> %s by %s (code %d)", p[1], own, pv, cv, sndS, res.Code)
				}
			}
		}
	}
	// owners of filled orders were paid what the fill says
	for rk, want := range recv {
		k := "bal/" + rk
		if got := new(big.Int).Sub(BI0(cur[k]), BI0(prev[k])); got.Cmp(want) < 0 && !strings.HasPrefix(rk, sndS+"/") && !strings.HasPrefix(rk, payer.String()+"/") {
			m.rep(s, "order-filled-below-price", "owner-not-paid", i, "%s grew by %s, fills of its orders promise %s", k, got, want)
		}
	}
	for c := range touched {
		m.Res.Seen("tx effect on others: " + c)
	}
}

// BI0 parses a decimal, "" = 0.
func BI0(s string) *big.Int {
	if s == "" {
		return new(big.Int)
	}
	return BI(s)
}

type c05Comp struct{ bal, stake, wl, frozen, escrow *big.Int }

func c05Components(e *types.AppState) map[OwnerCoin]*c05Comp {
	out := map[OwnerCoin]*c05Comp{}
	get := func(a types.Address, c uint64) *c05Comp {
		k := OwnerCoin{a, c}
		if out[k] == nil {
			out[k] = &c05Comp{new(big.Int), new(big.Int), new(big.Int), new(big.Int), new(big.Int)}
		}
		return out[k]
	}
	for _, a := range e.Accounts {
		for _, b := range a.Balance {
			x := get(a.Address, b.Coin)
			x.bal.Add(x.bal, BI(b.Value))
		}
	}
	for _, c := range e.Candidates {
		for _, l := range [][]types.Stake{c.Stakes, c.Updates} {
			for _, st := range l {
				x := get(st.Owner, st.Coin)
				x.stake.Add(x.stake, BI(st.Value))
			}
		}
	}
	for _, w := range e.Waitlist {
		x := get(w.Owner, w.Coin)
		x.wl.Add(x.wl, BI(w.Value))
	}
	for _, f := range e.FrozenFunds {
		x := get(f.Address, f.Coin)
		x.frozen.Add(x.frozen, BI(f.Value))
	}
	for _, p := range e.Pools {
		for _, o := range p.Orders {
			if o.IsSale {
				x := get(o.Owner, p.Coin1)
				x.escrow.Add(x.escrow, BI(o.Volume1))
			} else {
				x := get(o.Owner, p.Coin0)
				x.escrow.Add(x.escrow, BI(o.Volume0))
			}
		}
	}
	return out
}

func (c *c05Comp) total() *big.Int {
	t := new(big.Int).Add(c.bal, c.stake)
	t.Add(t, c.wl)
	t.Add(t, c.frozen)
	return t.Add(t, c.escrow)
}

var c05Zero = &c05Comp{new(big.Int), new(big.Int), new(big.Int), new(big.Int), new(big.Int)}

func (m *MonAuth) AfterBlock(s *Sim, req *BlockReq, res *BlockRes) {
	if s.Pre == nil || s.Post == nil || res.Stopped {
		return
	}
	h := req.Height
	// SlashEvents of this height
	var evs events.Events
	if pi := s.N.guard("LoadEvents", func() { evs = s.N.App.GetEventsDB().LoadEvents(uint32(h)) }); pi != nil {
		s.N.Dead = false
		m.Res.Count("events-unreadable", 1)
	}
	slashes := 0
	for _, e := range evs {
		if se, ok := e.(*events.SlashEvent); ok {
			m.addAllow(se.Address, se.Coin, BI(se.Amount), "slash")
			slashes++
		}
	}
	pre, post := c05Components(s.Pre), c05Components(s.Post)
	// cross-check the component ledger with the shared wealth ledger
	wPost := ComputeWealth(s.Post).Owner
	for k, c := range post {
		if w := wPost[k]; w == nil || w.Cmp(c.total()) != 0 {
			m.Res.Notes = append(m.Res.Notes, fmt.Sprintf("height %d: component ledger and wealth ledger disagree for %s coin %d", h, k.Addr.String(), k.Coin))
			break
		}
	}
	var keys []OwnerCoin
	for k := range pre {
		keys = append(keys, k)
	}
	sort.Slice(keys, func(i, j int) bool {
		if c := keys[i].Addr.Compare(keys[j].Addr); c != 0 {
			return c < 0
		}
		return keys[i].Coin < keys[j].Coin
	})
	for _, k := range keys {
		a := pre[k]
		b := post[k]
		if b == nil {
			b = c05Zero
		}
		// evidence: protocol actions that moved value between components of a passive owner
		_, active := m.authorised[k.Addr]
		if !active {
			mv := ""
			for _, x := range []struct {
				n    string
				p, q *big.Int
			}{{"balance", a.bal, b.bal}, {"stake", a.stake, b.stake}, {"waitlist", a.wl, b.wl}, {"frozen", a.frozen, b.frozen}, {"escrow", a.escrow, b.escrow}} {
				switch x.q.Cmp(x.p) {
				case -1:
					mv += x.n + "- "
				case 1:
					mv += x.n + "+ "
				}
			}
			if strings.Contains(mv, "-") {
				m.Res.Seen("passive owner: " + strings.TrimSpace(mv))
			}
		}
		dec := new(big.Int).Sub(a.total(), b.total())
		if dec.Sign() <= 0 {
			continue
		}
		m.Res.Evaluations++
		if how, ok := m.authorised[k.Addr]; ok {
			m.Res.Count("decrease/own-accepted-tx/"+how, 1)
			continue
		}
		lim := m.allow[k]
		if lim == nil {
			lim = new(big.Int)
		}
		if dec.Cmp(lim) <= 0 {
			m.Res.Seen("passive decrease explained by " + strings.TrimSuffix(m.allowWhy[k], ","))
			m.Res.Count("decrease/passive-explained", 1)
			continue
		}
		comp := "balance"
		worst := new(big.Int)
		for _, x := range []struct {
			n    string
			p, q *big.Int
		}{{"balance", a.bal, b.bal}, {"stake", a.stake, b.stake}, {"waitlist", a.wl, b.wl}, {"frozen", a.frozen, b.frozen}, {"escrow", a.escrow, b.escrow}} {
			if d := new(big.Int).Sub(x.p, x.q); d.Cmp(worst) > 0 {
				worst, comp = d, x.n
			}
		}
		s.Report(Violation{Property: "C05", Rule: "unexplained-decrease", Site: comp, Height: h, TxIndex: -1,
			Detail: fmt.Sprintf("%s coin %d: wealth %s -> %s (-%s; balance %s->%s stake %s->%s waitlist %s->%s frozen %s->%s escrow %s->%s); it sent no accepted tx in this block; explained: %s (%s)",
				k.Addr.String(), k.Coin, a.total(), b.total(), dec, a.bal, b.bal, a.stake, b.stake, a.wl, b.wl, a.frozen, b.frozen, a.escrow, b.escrow, lim, m.allowWhy[k])})
	}
	if slashes > 0 {
		m.Res.Count("slash-events", int64(slashes))
	}
	// candidate settings between exports: only with an accepted edit by the owner in this block (per-tx oracle saw it)
	preC := map[uint64]*types.Candidate{}
	for i := range s.Pre.Candidates {
		preC[s.Pre.Candidates[i].ID] = &s.Pre.Candidates[i]
	}
	for i := range s.Post.Candidates {
		c := &s.Post.Candidates[i]
		p := preC[c.ID]
		if p == nil {
			continue
		}
		if (p.OwnerAddress != c.OwnerAddress || p.ControlAddress != c.ControlAddress || p.RewardAddress != c.RewardAddress || p.Commission != c.Commission || p.PubKey != c.PubKey) && !m.editTx[fmt.Sprint(c.ID)] {
			s.Report(Violation{Property: "C05", Rule: "candidate-changed-by-non-owner", Site: "block-without-owner-tx", Height: h, TxIndex: -1,
				Detail: fmt.Sprintf("candidate %d: owner %s->%s control %s->%s reward %s->%s commission %d->%d without an accepted edit by its owner in this block", c.ID, p.OwnerAddress.String(), c.OwnerAddress.String(), p.ControlAddress.String(), c.ControlAddress.String(), p.RewardAddress.String(), c.RewardAddress.String(), p.Commission, c.Commission)})
		}
	}
	m.Res.Count("blocks_judged", 1)
}

// ---------------------------------------------------------------------------------------------------------------
// forged transactions

type c05Gen struct {
	s     *Sim
	d     *Driver
	r     *rand.Rand
	idx   int
	n     int
	slots bool
}

func (g *c05Gen) env(t tx.TxType, data interface{}, snd Senderish, signers []*Key, n c05Note) ([]byte, TxMeta) {
	a := snd.Addr()
	nonce := g.s.N.App.CurrentState().Accounts().GetNonce(a) + 1
	sp := &TxSpec{Nonce: nonce, ChainID: types.CurrentChainID, GasPrice: 1, GasCoin: 0, Type: t, Data: data, Signer: snd.K, Multisig: snd.M, Signers: signers}
	if g.r.Intn(2) == 0 {
		sp.SignRand = g.r // a repeated signer then attaches a second, DIFFERENT valid signature (lead: added after seed C05-m2)
	}
	for _, k := range signers {
		n.Signers = append(n.Signers, hex.EncodeToString(k.Addr[:]))
	}
	nb, _ := json.Marshal(n)
	meta := TxMeta{Type: byte(t), Sender: hex.EncodeToString(a[:]), Nonce: nonce, GasCoin: 0, GasPrice: 1, Kind: "c05:" + n.Forged, Note: string(nb), Msig: snd.M != nil, Chain: byte(types.CurrentChainID)}
	return sp.Encode(), meta
}

func (g *c05Gen) userNot(not ...types.Address) *Key {
	for try := 0; try < 50; try++ {
		u := g.s.W.Users[g.r.Intn(len(g.s.W.Users))]
		bad := false
		for _, n := range not {
			if u.Addr == n {
				bad = true
			}
		}
		if !bad {
			return u
		}
	}
	g.n++
	return NewKey(fmt.Sprintf("c05x%d-", g.idx), g.n)
}

func (g *c05Gen) keyOf(a types.Address) (Senderish, bool) { return g.d.G.signerFor(a) }

// next produces one crafted transaction (ok=false: nothing suitable in the current state).
func (g *c05Gen) next() ([]byte, TxMeta, bool) {
	r := g.r
	cs := g.s.N.App.CurrentState()
	x := r.Intn(100)
	switch {
	case x < 42:
		// candidate operations
		cands := cs.Candidates().GetCandidates()
		if len(cands) == 0 {
			return nil, TxMeta{}, false
		}
		sort.Slice(cands, func(i, j int) bool { return cands[i].ID < cands[j].ID })
		c := cands[r.Intn(len(cands))]
		who := []string{"stranger", "stranger", "control", "owner"}[r.Intn(4)]
		if c.ControlAddress == c.OwnerAddress && who == "control" {
			who = "stranger"
		}
		var snd Senderish
		switch who {
		case "owner":
			sg, ok := g.keyOf(c.OwnerAddress)
			if !ok {
				return nil, TxMeta{}, false
			}
			snd = sg
		case "control":
			sg, ok := g.keyOf(c.ControlAddress)
			if !ok {
				return nil, TxMeta{}, false
			}
			snd = sg
		default:
			snd = Senderish{K: g.userNot(c.OwnerAddress, c.ControlAddress)}
		}
		why := fmt.Sprintf("candidate %d owner %s control %s", c.ID, c.OwnerAddress.String(), c.ControlAddress.String())
		switch op := r.Intn(10); {
		case op < 4:
			on := c.Status == 1 // offline -> try to switch on
			if r.Intn(5) == 0 {
				on = !on
			}
			n := c05Note{Forged: "status-by-" + who, MustReject: who == "stranger", Why: why}
			if on {
				b, m := g.env(tx.TypeSetCandidateOnline, tx.SetCandidateOnData{PubKey: c.PubKey}, snd, nil, n)
				return b, m, true
			}
			b, m := g.env(tx.TypeSetCandidateOffline, tx.SetCandidateOffData{PubKey: c.PubKey}, snd, nil, n)
			return b, m, true
		case op < 7:
			no, nc, nr := c.OwnerAddress, g.s.W.Users[r.Intn(len(g.s.W.Users))].Addr, g.s.W.Users[r.Intn(len(g.s.W.Users))].Addr
			if who != "owner" || r.Intn(3) == 0 {
				no = snd.Addr() // take it over
				if snd.M != nil {
					no = g.s.W.Users[r.Intn(len(g.s.W.Users))].Addr
				}
			}
			n := c05Note{Forged: "edit-candidate-by-" + who, MustReject: who != "owner", Why: why}
			b, m := g.env(tx.TypeEditCandidate, tx.EditCandidateData{PubKey: c.PubKey, RewardAddress: nr, OwnerAddress: no, ControlAddress: nc}, snd, nil, n)
			return b, m, true
		case op < 9:
			nc := int(c.Commission) + 1 + r.Intn(9)
			if nc > 100 {
				nc = 100
			}
			n := c05Note{Forged: "commission-by-" + who, MustReject: who != "owner", Why: why}
			b, m := g.env(tx.TypeEditCandidateCommission, tx.EditCandidateCommission{PubKey: c.PubKey, Commission: uint32(nc)}, snd, nil, n)
			return b, m, true
		default:
			g.n++
			nk := NewValKey(fmt.Sprintf("c05n%d-", g.idx), g.n)
			n := c05Note{Forged: "pubkey-by-" + who, MustReject: who != "owner", Why: why}
			b, m := g.env(tx.TypeEditCandidatePublicKey, tx.EditCandidatePublicKeyData{PubKey: c.PubKey, NewPubKey: nk.Pub}, snd, nil, n)
			return b, m, true
		}
	case x < 58:
		// somebody else's order
		var ids []uint32
		owner := map[uint32]types.Address{}
		if g.s.Post != nil {
			for id := uint32(1); id < uint32(g.s.Post.NextOrderID)+40; id++ {
				if o := cs.Swap().GetOrder(id); o != nil {
					ids = append(ids, id)
					owner[id] = o.Owner
				}
			}
		}
		if len(ids) == 0 {
			return nil, TxMeta{}, false
		}
		id := ids[r.Intn(len(ids))]
		if r.Intn(4) == 0 {
			sg, ok := g.keyOf(owner[id])
			if !ok {
				return nil, TxMeta{}, false
			}
			b, m := g.env(tx.TypeRemoveLimitOrder, tx.RemoveLimitOrderData{ID: id}, sg, nil, c05Note{Forged: "remove-order-by-owner"})
			return b, m, true
		}
		snd := Senderish{K: g.userNot(owner[id])}
		b, m := g.env(tx.TypeRemoveLimitOrder, tx.RemoveLimitOrderData{ID: id}, snd, nil, c05Note{Forged: "remove-order-by-stranger", MustReject: true, Why: fmt.Sprintf("order %d belongs to %s", id, owner[id].String())})
		return b, m, true
	case x < 82:
		// multisig signatures
		if len(g.s.W.Multisigs) == 0 {
			return nil, TxMeta{}, false
		}
		ms := g.s.W.Multisigs[r.Intn(len(g.s.W.Multisigs))]
		weights, thr, ok := msigConfig(g.s, ms.Addr)
		if !ok || len(ms.Owners) == 0 {
			return nil, TxMeta{}, false
		}
		var signers []*Key
		variant := ""
		owners := append([]*Key{}, ms.Owners...)
		r.Shuffle(len(owners), func(i, j int) { owners[i], owners[j] = owners[j], owners[i] })
		switch r.Intn(5) {
		case 0: // one owner signing as often as needed to "reach" the threshold
			variant = "msig-duplicate-signer"
			o := owners[0]
			sum := uint32(0)
			for sum < thr && len(signers) < len(ms.Owners) {
				signers = append(signers, o)
				sum += weights[o.Addr]
			}
			if len(signers) < 2 {
				signers = append(signers, o)
			}
		case 1: // distinct owners just below the threshold
			variant = "msig-under-threshold"
			sum := uint32(0)
			for _, o := range owners {
				if sum+weights[o.Addr] < thr {
					signers = append(signers, o)
					sum += weights[o.Addr]
				}
			}
			if len(signers) == 0 {
				return nil, TxMeta{}, false
			}
		case 2: // a stranger's signature fills the gap
			variant = "msig-stranger-signature"
			sum := uint32(0)
			for _, o := range owners {
				if sum+weights[o.Addr] < thr {
					signers = append(signers, o)
					sum += weights[o.Addr]
				}
			}
			var not []types.Address
			for _, o := range ms.Owners {
				not = append(not, o.Addr)
			}
			if len(signers) >= len(ms.Owners) {
				signers = signers[:len(ms.Owners)-1]
			}
			signers = append(signers, g.userNot(not...))
		case 3: // exactly enough distinct owners
			variant = "msig-just-enough"
			sum := uint32(0)
			for _, o := range owners {
				if sum < thr {
					signers = append(signers, o)
					sum += weights[o.Addr]
				}
			}
		default:
			variant = "msig-all-owners"
			signers = ms.Owners
		}
		seen := map[types.Address]bool{}
		sum := uint32(0)
		for _, k := range signers {
			if !seen[k.Addr] {
				seen[k.Addr] = true
				sum += weights[k.Addr]
			}
		}
		to := g.s.W.Users[r.Intn(len(g.s.W.Users))].Addr
		n := c05Note{Forged: variant, MustReject: sum < thr, MsigSum: sum, MsigThr: thr, Why: fmt.Sprintf("multisig %s threshold %d, distinct listed signers weigh %d", ms.Addr.String(), thr, sum)}
		snd := Senderish{M: ms}
		coin, bal := g.d.G.heldCoin(ms.Addr)
		b, m := g.env(tx.TypeSend, tx.SendData{Coin: coin, To: to, Value: g.d.G.amount(bal, "valid")}, snd, signers, n)
		return b, m, true
	case x < 92:
		// coin ownership
		if g.s.Post == nil {
			return nil, TxMeta{}, false
		}
		var own []*types.Coin
		for i := range g.s.Post.Coins {
			c := &g.s.Post.Coins[i]
			if c.OwnerAddress != nil && c.Version == 0 && !(c.ID > 4 && c.ID <= CoinUSDT) {
				own = append(own, c)
			}
		}
		if len(own) == 0 {
			return nil, TxMeta{}, false
		}
		c := own[r.Intn(len(own))]
		// the owner at this moment (it may have changed earlier in this block)
		ow := *c.OwnerAddress
		if si := cs.Coins().GetSymbolInfo(c.Symbol); si != nil && si.OwnerAddress() != nil {
			ow = *si.OwnerAddress()
		}
		snd := Senderish{K: g.userNot(ow)}
		why := fmt.Sprintf("ticker %s belongs to %s", c.Symbol.String(), ow.String())
		switch r.Intn(3) {
		case 0:
			b, m := g.env(tx.TypeEditCoinOwner, tx.EditCoinOwnerData{Symbol: c.Symbol, NewOwner: snd.Addr()}, snd, nil, c05Note{Forged: "coin-owner-change-by-stranger", MustReject: true, Why: why})
			return b, m, true
		case 1:
			b, m := g.env(tx.TypeMintToken, tx.MintTokenData{Coin: types.CoinID(c.ID), Value: Bip(int64(1 + r.Intn(1000)))}, snd, nil, c05Note{Forged: "mint-by-stranger", MustReject: true, Why: why})
			return b, m, true
		default:
			amt := Bip(int64(1 + r.Intn(100000)))
			var data interface{} = tx.RecreateTokenData{Name: "x", Symbol: c.Symbol, InitialAmount: amt, MaxSupply: new(big.Int).Add(amt, Bip(10)), Mintable: true, Burnable: true}
			t := tx.TypeRecreateToken
			if r.Intn(2) == 0 {
				t = tx.TypeRecreateCoin
				data = tx.RecreateCoinData{Name: "x", Symbol: c.Symbol, InitialAmount: amt, InitialReserve: Bip(10000), ConstantReserveRatio: 50, MaxSupply: new(big.Int).Add(amt, Bip(10))}
			}
			b, m := g.env(t, data, snd, nil, c05Note{Forged: "recreate-by-stranger", MustReject: true, Why: why})
			return b, m, true
		}
	case x < 96:
		// withdraw a stake one does not have (somebody else has it)
		st := g.d.G.pickStake()
		if st == nil {
			return nil, TxMeta{}, false
		}
		snd := Senderish{K: g.userNot(st.owner)}
		// only if the sender really has nothing there
		for _, x := range cs.Candidates().GetStakes(st.pub) {
			if x != nil && x.Owner == snd.Addr() && x.Coin == st.coin {
				return nil, TxMeta{}, false
			}
		}
		if wl := cs.WaitList().GetByAddress(snd.Addr()); wl != nil {
			for _, it := range wl.List {
				if it.Coin == st.coin {
					return nil, TxMeta{}, false
				}
			}
		}
		n := c05Note{Forged: "unbond-foreign-stake", MustReject: true, Why: fmt.Sprintf("the stake belongs to %s", st.owner.String())}
		if r.Intn(2) == 0 {
			b, m := g.env(tx.TypeUnbond, tx.UnbondDataV3{PubKey: st.pub, Coin: st.coin, Value: st.value}, snd, nil, n)
			return b, m, true
		}
		to := g.d.G.cand()
		if to == nil || to.pub == st.pub {
			return nil, TxMeta{}, false
		}
		n.Forged = "move-foreign-stake"
		b, m := g.env(tx.TypeMoveStake, tx.MoveStakeData{FromPubKey: st.pub, ToPubKey: to.pub, Coin: st.coin, Value: st.value}, snd, nil, n)
		return b, m, true
	default:
		// a check redeemed with a proof made for somebody else
		issuer := g.s.W.Users[r.Intn(len(g.s.W.Users))]
		coin, bal := g.d.G.heldCoin(issuer.Addr)
		g.n++
		pw := fmt.Sprintf("c05-%d-%d", g.idx, g.n)
		spec := CheckSpec{Nonce: []byte{byte(g.n)}, ChainID: types.CurrentChainID, DueBlock: uint64(g.s.H + 50), Coin: coin, Value: g.d.G.amount(bal, "valid"), GasCoin: 0, Issuer: issuer, Password: pw}
		raw := IssueCheck(&spec)
		rightful := g.userNot(issuer.Addr)
		thief := g.userNot(issuer.Addr, rightful.Addr)
		n := c05Note{Forged: "redeem-with-stolen-proof", MustReject: true, Why: "proof made for " + rightful.Addr.String()}
		b, m := g.env(tx.TypeRedeemCheck, tx.RedeemCheckData{RawCheck: raw, Proof: CheckProof(pw, rightful.Addr)}, Senderish{K: thief}, nil, n)
		m.Payer = hex.EncodeToString(issuer.Addr[:])
		return b, m, true
	}
}

func (g *c05Gen) block(pOwn float64, maxTxs int) {
	d := g.d
	req := d.NextReq()
	n := 1 + g.r.Intn(maxTxs)
	d.S.RunBlock(req, nil, func(i int) ([]byte, TxMeta, bool) {
		if i > 0 {
			res := d.S.CurRes.Deliver[i-1]
			pm := d.S.Metas[i-1]
			d.G.Learn(&pm, res.Code, Tags(&res))
		}
		if i >= n {
			return nil, TxMeta{}, false
		}
		if g.slots && g.r.Intn(3) == 0 && len(g.s.Gen.Candidates) > 0 {
			// small delegations to the full candidate, around its smallest stakes (100..1100 BIP)
			u := g.s.W.Users[g.r.Intn(len(g.s.W.Users))]
			// values relative to the two smallest stakes s1 < s2: one above s2 (replaces s1 at the recalculation), one between
			// s1 and s2 (accepted now, loses at the recalculation once the bigger one took the slot and must go to ITS owner's wait list)
			val := Bip(int64(90 + g.r.Intn(400)))
			for _, c := range g.s.Post.Candidates {
				if c.PubKey == g.s.Gen.Candidates[0].PubKey && len(c.Stakes) >= 1000 {
					var s1, s2 *big.Int
					for _, st := range c.Stakes {
						v := BI(st.BipValue)
						if s1 == nil || v.Cmp(s1) < 0 {
							s1, s2 = v, s1
						} else if s2 == nil || v.Cmp(s2) < 0 {
							s2 = v
						}
					}
					if s1 != nil && s2 != nil && s2.Cmp(s1) > 0 {
						if g.r.Intn(2) == 0 {
							val = new(big.Int).Add(s2, Bip(int64(1+g.r.Intn(20))))
						} else {
							val = new(big.Int).Add(s1, new(big.Int).Div(new(big.Int).Sub(s2, s1), big.NewInt(int64(2+g.r.Intn(3)))))
						}
					}
				}
			}
			b, m := g.env(tx.TypeDelegate, tx.DelegateDataV260{PubKey: g.s.Gen.Candidates[0].PubKey, Coin: 0, Value: val}, Senderish{K: u}, nil, c05Note{Forged: "rightful-small-delegation"})
			return b, m, true
		}
		if g.r.Float64() < pOwn {
			if b, m, ok := g.next(); ok {
				return b, m, true
			}
		}
		b, m := d.G.Next()
		return b, m, true
	})
}

var c05Required = []string{
	"forged-rejected/status-by-stranger", "forged-rejected/edit-candidate-by-stranger", "forged-rejected/edit-candidate-by-control",
	"forged-rejected/commission-by-stranger", "forged-rejected/pubkey-by-stranger", "forged-rejected/remove-order-by-stranger",
	"forged-rejected/msig-duplicate-signer", "forged-rejected/msig-under-threshold", "forged-rejected/msig-stranger-signature",
	"forged-rejected/coin-owner-change-by-stranger", "forged-rejected/mint-by-stranger", "forged-rejected/recreate-by-stranger",
	"forged-rejected/redeem-with-stolen-proof",
	"rightful-accepted/status-by-control", "rightful-accepted/status-by-owner", "rightful-accepted/edit-candidate-by-owner",
	"rightful-accepted/msig-just-enough", "rightful-accepted/remove-order-by-owner",
	"decrease/passive-explained", "decrease/own-accepted-tx/single", "decrease/own-accepted-tx/multisig", "slash-events",
}

func init() {
	mons := func(res *WorkerResult) []Monitor { return []Monitor{&MonAuth{Res: res}} }
	MonitorsFor["C05"] = mons
	Register(&CheckDef{
		ID: "C05", Level: "exploration",
		Rule: "generated histories (all genesis families; 25% invalid variants of the shared generator: wrong owners, foreign stakes/orders, duplicated or partial multisig signatures; byzantine evidence, absences, payouts, order expiry, unbond maturity) in which ~35% of the slots are transactions forged here: candidate edit / commission / public key / on-off switching by strangers and by the control address, removal of somebody else's order, multisig transactions signed by one owner repeatedly, by distinct owners below the threshold, with a stranger's signature filling the gap (and with exactly enough owners as control), coin owner change / mint / recreate by strangers, unbond / move of a stake the sender does not have, redemption with a proof made for another address. Oracles: (1) accessor snapshot of the universe around every DeliverTx: balances, waitlist entries, stakes, orders of addresses other than the sender may only change as the statement allows (issuer of the presented check, bounded by value+fee or the failed-tx fee; order filled at >= its price and its owner paid the filled amount), candidate settings only by the owner (status also by control), coin owner / recreate / mint only by the ticker owner; (2) per block, per (address, coin): wealth = balance + stakes + waitlist + frozen funds + order escrow from the exports; a decrease must be covered by an own accepted transaction (multisig: enough distinct listed owners), failed-tx fees, value+fee of checks it issued, fills of its orders or SlashEvents of that height; candidate settings may not change between exports without an accepted owner edit; (3) forged transactions must be rejected. One evaluation = one DeliverTx judged or one wealth decrease judged; distinct = forged classes x outcome, kinds of effects on others, component moves of passive owners, explanations",
		Assumptions: []string{
			"sender and signer sets of harness-made transactions are generator ground truth; the multisig configuration (owners, weights, threshold) is read from the account before the transaction",
			"frozen funds are not in the accessor snapshot: they enter through the per-block export ledger",
			"fill price tolerance: one unit of rounding per fill against the order's remaining volumes (exact rounding is C14's business)",
			"the AMOUNT an authorised sender loses in its own transaction is not judged here (C01/C13/C15/C27)",
		},
		Quick: 42, Thorough: 420, MinEval: 12000, MinDistinct: 50,
		Run: func(ctx *WorkCtx, idx int) {
			r := Rng(ctx.Seed, "C05", idx)
			sc := StdScenario(idx, r, 70)
			if sc.Family == "filler" {
				sc = StdScenario(0, r, 70)
			}
			sc.Spec.Orders = 3 + r.Intn(6)
			slots := idx%7 == 4 && sc.Family == "small"
			if slots {
				// a candidate whose 1000 delegation slots are full: delegations around the smallest stake get kicked to the
				// wait list at the next recalculation - to the wait list of THEIR owner (lead: added after seed C05-m1)
				sc.Spec.BigDelegators = 1000
				sc.Opts.StakePeriod = 6
				sc.Family = "slots"
			}
			mon := &MonAuth{Res: ctx.Res}
			s, d := sc.Build("C05", ctx.Seed, idx, r, mon)
			d.G.PInvalid, d.G.PBound = 0.25, 0.15
			d.PByz = 0.03
			d.PAbsentRun = 0.01
			d.MaxTxs = 10
			g := &c05Gen{s: s, d: d, r: Rng(ctx.Seed, "C05gen", idx), idx: idx}
			g.slots = slots
			for b := 0; b < sc.Blocks && !s.Dead && !s.Stopped; b++ {
				g.block(0.35, 10)
			}
			ctx.Res.Count("blocks", s.H-s.W.InitialHeight+1)
			ctx.Res.Count("family/"+sc.Family, 1)
			ctx.Collect(s, idx)
			s.Finish()
		},
		Post: func(total *WorkerResult) {
			var missing []string
			for _, k := range c05Required {
				if total.Counters[k] == 0 {
					missing = append(missing, k)
				}
			}
			if len(missing) > 0 {
				total.Notes = append(total.Notes, fmt.Sprintf("required observations missing (evaluations zeroed so that the run is reported broken): %v", missing))
				total.Evaluations = 0
			}
		},
	})
}
